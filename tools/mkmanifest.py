"""Regenerates MANIFEST.json from the table below (keeps it schema-valid at all times)."""
import json

import os
ROOT = os.path.dirname(os.path.dirname(os.path.abspath(__file__)))
props = [json.loads(l) for l in open(os.path.join(ROOT, 'properties.jsonl'))]
ids = [p['id'] for p in props]

NOTE_COMMON = ('Trusted: Coq 8.16.1 kernel incl. vm_compute (no native_compute); no axioms (Print Assumptions re-run on every check); '
               'hand-written Gallina model tied to /repo by extraction (ExtrOcamlBasic only) + differential correspondence on every run; '
               'generated tables and translated source (tools/gen: data files, python-ast call sites / set sites / raise sites, and the source translators for the evaluators, check_args, tags, moparser, the format parsers, polib4us, cli, and the plural / header / message / date / language / charset checks) re-derived from /repo on every run; the translators are trusted. See DESIGN.md section 4 and 10.')

CHECKS = {
    'C05': dict(
        category='proof',
        text='Coq theorem by structural induction over the expression grammar, for every modulus M >= 1 (hence every width): '
             'bounds returned by the model of CodomainEvaluator enclose every successful evaluation, None implies failure everywhere, '
             'no assert can fire. The model is tied to lib/intexpr.py by differential correspondence (small-scope exhaustive + random '
             'expressions) and the property itself is brute-forced on the real code for widths <= 6/8. Source tie: the methods of the class are translated from the working tree by a fail-closed python-ast -> Gallina translator on every run and proved equal to the model (C05_source_tie_*), so an edit of the evaluator code un-checks the theorems until model and proofs follow; constructors, the getattr dispatch and gcd are pinned by digest.',
        design_ref='DESIGN.md 5 / C05',
        technique='Coq proof (induction on expr, lia/nia) + extracted-model correspondence + brute-force oracle + source translation (python ast -> Gallina) proved equal to the model',
        note=NOTE_COMMON),
    'C04': dict(
        category='proof',
        text='Coq theorems: the evaluator model returns v iff v is the in-range ideal value (every evaluated constant, variable and '
             'intermediate in [0,M), no zero divisor, lazy && || ?:), fails exactly otherwise, and that value equals C unsigned-long '
             'arithmetic mod 2^W for every W with M <= 2^W; the lexer model reads exactly the token sequence of plural.y\'s yylex; the parser model is '
             'sound AND complete for the stratified plural.y grammar (accepts iff a derivation exists, builds the unique tree, rejects with the own '
             'syntax error exactly otherwise), its fuel never runs out and it raises nothing foreign; hence a string is accepted iff it is in the '
             'plural language (terminator characters rejected). Tied to lib/intexpr.py by three-way comparison (model / real rply parser / independent '
             'plural.y reference) on all token sequences of length <= 4 (quick) / 5 (thorough) plus random and deep families. Source tie: the methods of the class are translated from the working tree by a fail-closed python-ast -> Gallina translator on every run and proved equal to the model (C04_source_tie_*), so an edit of the evaluator code un-checks the theorems until model and proofs follow; constructors, the getattr dispatch and gcd are pinned by digest.',
        design_ref='DESIGN.md 5 / C04; notes/C04.md',
        technique='Coq proof (induction on expr; mutual operational grammar + fuel measure for the parser; case analysis over code points for the lexer) + extracted-model correspondence + independent reference parser/evaluator + source translation (python ast -> Gallina) proved equal to the model',
        note=NOTE_COMMON + ' rply\'s LALR table construction is modelled, not verified; NUMBER is unbounded in the spec (C wrap of constants >= 2^32 is outside InRange anyway). Known finding D12 (RecursionError on expressions nested >= 300 deep).'),
    'C06': dict(
        category='proof',
        text='Coq theorem by structural induction over the expression grammar, for every modulus M: a returned (O, P) satisfies 1 <= P, 0 <= O and '
             'the outcome (same value, or failure at both) at n and n+P agrees for all O <= n, n+P < M; plus the multiples and image-in-window corollaries. '
             'Tied to lib/intexpr.py PeriodEvaluator by correspondence; property brute-forced on the real code for widths <= 6/8. Source tie: the methods of the class are translated from the working tree by a fail-closed python-ast -> Gallina translator on every run and proved equal to the model (C06_source_tie_*), so an edit of the evaluator code un-checks the theorems until model and proofs follow; constructors, the getattr dispatch and gcd are pinned by digest.',
        design_ref='DESIGN.md 5 / C06',
        technique='Coq proof (induction on expr, gcd/lcm divisibility) + extracted-model correspondence + brute-force oracle + source translation (python ast -> Gallina) proved equal to the model',
        note=NOTE_COMMON + ' Known finding D12.'),
    'C07': dict(
        category='proof',
        text='Coq theorems about the model of parse_plural_forms/check_plurals: every "f(x) != k" claim is true for all n in [0,2^32) '
             '(composition of the C05 and C06 soundness theorems with the gap scan); the window diagnostics are exactly the least n < 200 that '
             'fails or leaves the range, with its true outcome; syntax-error iff the value is rejected; junk tags carry exactly the surrounding text; '
             'leftmost match and no match iff no declaration anywhere; nplurals verdict iff; no foreign exception for any input (unconditional); a total, in-range, onto declaration is silent; and, over the registry regenerated from data/languages '
             'on every run, each own declaration is silent/usual and total on the window (vm_compute). Tied to the code by in-process correspondence '
             'of Checker.check_plurals and an independent truthfulness oracle. Source tie: parse_plural_forms (both variants, regex text included) and the whole of Checker.check_plurals are translated from the working tree on every run and proved equal to the model (C07_source_tie_*).',
        design_ref='DESIGN.md 5 / C07',
        technique='Coq proof (composition of C05/C06 theorems, list induction, vm_compute over the regenerated registry) + correspondence + truthfulness oracle + source translation (python ast -> Gallina) proved equal to the model',
        note=NOTE_COMMON + ' The regex engine itself is modelled by the search function (tied by correspondence). D1 fixed by commit 6bd9347.'),
    'C02': dict(
        category='proof',
        text='Coq theorems: for EVERY string / byte string the escaped form consists of printable characters only (so no newline, ESC, C0/C1, DEL, '
             'format or separator character of the regenerated Unicode tables); a line built from clean parts is clean, hence one tag() call is one line; '
             'priority letter table and its monotonicity; coloured line = uncoloured line with the two SGR strings around the tag name; and, over tables '
             'regenerated from /repo on every run: no verbatim (safestr / safe_format template) call site is tainted, tool messages are printable ASCII, every '
             'tag name used is registered. The call-site theorem is relative to the translator\'s whitelist of tool-generated expressions, which is validated '
             'dynamically (hostile catalogs through the real checker and CLI, with and without a pseudo-terminal). Source tie: lib/tags.py (_is_safe, _escape, safe_format, get_priority, get_colors, Tag.format, the OrderedEnum comparisons) and terminal.attr_fg/attr_reset are translated from the working tree on every run and proved equal to the model (C02_source_tie_*); the cleanliness theorems are restated about the translated code (C02_source_format_clean).',
        design_ref='DESIGN.md 5 / C02',
        technique='Coq proof (list induction; vm_compute over regenerated call-site/tag/Unicode tables) + python-ast translator + correspondence + hostile-catalog oracle + source translation (python ast -> Gallina) proved equal to the model',
        note=NOTE_COMMON + ' The provenance whitelist in tools/gen/gen_callsites.py is trusted (and dynamically validated). D5 fixed by commit 2c86b46.'),
    'C14': dict(
        category='proof',
        text='Coq theorems over argument signatures: for each format kind the excess / missing / number / type-mismatch / unknown / missing-argument '
             'diagnostics are emitted iff the two signatures differ in exactly that way (count, type per position or key, key sets), equal signatures are '
             'never flagged, and in check_message dropping one integer argument is tolerated only when the form\'s window preimage restricted by the range flag '
             'is empty, a single n, or 0 and one other n; fuzzy messages and catalogs without charset are exempt. The signatures themselves come from the parsers '
             '(C11-C13). Tied to the code by correspondence of the real check_args / check_message (recorded invocations) and an independent flagged-iff-differs oracle. Source tie: the four check_args methods and check_message from `if flags.fuzzy:` onwards are translated from the working tree (python ast -> Gallina, fail-closed subset) on every run and proved equal to the model (C14_source_tie_*).',
        design_ref='DESIGN.md 5 / C14',
        technique='Coq proof (list reasoning over signatures) + extracted-model correspondence + independent signature-comparison oracle + source translation (python ast -> Gallina) proved equal to the model',
        note=NOTE_COMMON + ' D2 fixed by commit ebe368d.'),
    'C03': dict(
        category='other',
        text='Partial. Proved in Coq: in the model of check_all a -j N run prints exactly the sequential output for every completion order of the workers, and a '
             'multi-file run is the concatenation of the single-file runs (given that checking one file is a function of that file); and, over the python ast '
             'regenerated on every run, no set/frozenset/key-algebra is consumed in an order-sensitive way outside two reviewed benign sites. Explored, not proved: '
             'hash seeds {0,1,2,3,random}, argument permutations and prefixes, histories, -j {1..16} and repeated runs through the real CLI, each compared with the '
             'concatenation of single-file seed-0 outputs. Real scheduling and interpreter state are not in the model. Source tie: check_all (both branches), check_file, check_file_s, parse_jobs and the -l/-j normalisation of main are translated from the working tree on every run and proved equal to the model; the translated check_all writes the concatenation of the per-file outputs for every job count and completion order (C03_source_tie_*, C03_source_check_all_output).',
        design_ref='DESIGN.md 5 / C03',
        technique='Coq proof about the check_all model + regenerated set-iteration table (vm_compute) + CLI schedule/seed/history exploration + source translation (python ast -> Gallina) proved equal to the model',
        note=NOTE_COMMON + ' The set-iteration detector is syntactic (trusted, not a type checker). D6 fixed by commit a257859.'),
    'C18': dict(
        category='proof',
        text='Coq theorems about the model of gettext.fix_date_format / parse_date / Checker.check_dates, for every string, every whitespace predicate and zone table: '
             'normalisation is total (Ok / boilerplate / invalid; the len-21 assert cannot fire), an Ok result is canonical and denotes an existing instant, keeps the date, hour, minute '
             'and the numeric offset written (or the unique offset of the abbreviation, or the hint), is a fixed point; the four-way verdict (boilerplate / invalid-date / date-from-future / '
             'ancient-date / nothing) is the reference verdict via a strictly monotone proleptic-Gregorian minutes-since-epoch; the regenerated zone table is well-formed (vm_compute). '
             'Tied to the code by regex-level, strptime-level and in-process check_dates (pinned clock) correspondence plus a model-free oracle. Source tie: gettext.fix_date_format, parse_date and Checker.check_dates (both loops) are translated from the working tree on every run and proved equal to the model (C18_source_tie_*).',
        design_ref='DESIGN.md 5 / C18; notes/C18.md',
        technique='Coq proof (list induction, lia/div-mod, vm_compute over regenerated tables) + extracted-model correspondence + model-free oracle + source translation (python ast -> Gallina) proved equal to the model',
        note=NOTE_COMMON + ' Hints other than None/[+-]hhmm are outside the theorem (the tool passes only None or -0000); regex/strptime fidelity by correspondence only.'),
    'C08': dict(
        category='proof',
        text='Coq theorems about the byte-level model of lib/moparser.py against a relation written from gmo.h: for every well-formed catalog and EVERY layout '
             '(either byte order, tables and strings anywhere, overlapping or padded, hash/sysdep areas unconstrained, minor revision 0/1) parsing returns exactly the '
             'catalog (msgctxt, msgid, msgid_plural, msgstr or indexed forms) in file order, the charset named by the header entry, and the possibly-hidden flag. '
             'Decoding with the named codec is an oracle applied by the harness. Tied by a layout-parameterised MO serialiser and msgfmt-built files. Source tie: Parser._read_ints, _parse and _parse_entry of lib/moparser.py are translated from the working tree on every run and proved equal to the model (C08_source_tie_*).',
        design_ref='DESIGN.md 5 / C08; notes/C08.md',
        technique='Coq proof (induction on the entry index over little/big-endian word lemmas) + extracted-model correspondence + serialise/parse oracle + source translation (python ast -> Gallina) proved equal to the model',
        note=NOTE_COMMON + ' Text-level equality after decoding is checked by the harness only. D18 (msgctxt/msgid exchanged) fixed by commit e2286ba.'),
    'C09': dict(
        category='proof',
        text='Coq theorems for ALL byte strings: the loader model never takes a foreign-exception branch (totality, also with the codec and through Checker.check\'s '
             'except structure); an accepted file encodes the returned catalog (every returned string is present byte-for-byte at the offset/length read from the '
             'declared tables, inside the file, followed by NUL); every table word and string read lies inside the file; each malformation named by the property '
             '(bad magic, major > 1, truncated header, table or string past EOF, missing terminator, bad NUL structure, decreasing keys) is rejected with the MO syntax '
             'error; rejected files produce invalid-mo-file only. Tied by fault enumeration (every truncation point, every header/table word x boundary values, '
             'terminator flips, random bytes) against the model and an independent reference reader. The glue of Checker.check is modelled with the loader as an oracle: a syntax error on the last attempt gives exactly invalid-mo-file (+ broken-encoding iff the first attempt failed to decode) and returns before the sub-checks (C09_glue_*). Source tie: the translated lib/moparser.py equals the model and ends normally, with SyntaxError or with UnicodeDecodeError on every byte string (C09_source_tie_*).',
        design_ref='DESIGN.md 5 / C09; notes/C09.md',
        technique='Coq proof (totality + soundness w.r.t. the gmo.h relation) + fault-enumeration correspondence + independent reference reader + source translation (python ast -> Gallina) proved equal to the model',
        note=NOTE_COMMON + ' Known finding D11 (charset=idna: UnicodeError escapes).'),
    'C11': dict(
        category='proof',
        text='Coq theorems about the model of strformat.c.FormatString against a specification written from C99 7.19.6.1 / POSIX numbered arguments / glibc extensions / '
             '<inttypes.h> macros: accepted iff printf-valid (outside the known %#m deviation, with the refutation witness), unique decomposition into directives, '
             'the reported argument list is the va_arg signature (number, order, C types, * widths/precisions as int), only own errors (with the generated digit limit), '
             'warnings are inert, the error prefix is never empty; type/flag tables re-proved by vm_compute against the regenerated CInfo tables. Tied by component-exhaustive '
             'directives, boundary values and glibc parse_printf_format. Source tie: FormatString.__init__, add_argument, get_last_integer_conversion and Conversion.__init__ of lib/strformat/c.py (and the text of the directive regex) are translated from the working tree on every run and proved equal to the model (C11_source_tie_*).',
        design_ref='DESIGN.md 5 / C11; notes/C11.md',
        technique='Coq proof (scanner soundness/completeness, finite case analysis by vm_compute over regenerated tables) + correspondence + table-driven oracle + glibc parse_printf_format + source translation (python ast -> Gallina) proved equal to the model',
        note=NOTE_COMMON + ' The re engine is modelled by a scanner. Known finding D15 (%#m rejected; pinned by a test).'),
    'C15': dict(
        category='proof',
        text='Coq theorems about the model of parse_header / check_headers / check_mime / check_project / check_translator / check_comments for ALL headers and all library '
             'oracles: no-<field> iff count 0 (with the POT/MO exemptions), duplicate iff count > 1, invalid-mime-version / content-transfer-encoding / content-type iff the value '
             'deviates from the stated form, unknown-header-field iff neither registered nor X-prefixed, stray-header-line iff no field name and no conflict marker, header-entry '
             'position/flag/duplicate rules, reserved and dot-less domains, the address decision ladder, a conventional header is silent, and no crash. parseaddr, urlparse, '
             'get_close_matches and the charset predicates are oracle arguments. Source tie: gettext.parse_header and Checker.check_headers / check_mime (form checks) / check_project / check_translator / check_comments are translated from the working tree on every run and proved equal to the model (C15_source_tie_*).',
        design_ref='DESIGN.md 5 / C15; notes/C15.md',
        technique='Coq proof (characterisations over the field multiset) + in-process recorded-tag correspondence on generated headers + rule oracle + source translation (python ast -> Gallina) proved equal to the model',
        note=NOTE_COMMON + ' Whole-result iffs for a few address/boilerplate/flag tags are covered by correspondence only (see notes/C15.md). D13 fixed by commit 1f24f5a.'),
    'C16': dict(
        category='proof',
        text='Coq theorems about the model of check_messages / _check_message_flags over ALL catalogs: duplicate-message-definition iff a (msgid, msgctxt) pair occurs twice among '
             'non-obsolete entries, reported once at the second occurrence; empty-file iff no non-header message and not possibly-hidden; translation-in-template, newline consistency, '
             'partially-translated, stray-previous-msgid, conflict-marker iffs; each flag rule (unknown, duplicate, conflicting, redundant, invalid-range); fuzzy/obsolete exemptions; a clean '
             'catalog is silent; no crash. expat, \\w and character names are oracles. Source tie: Checker.check_messages (the entry loop, duplicate / empty-file / newline / partial-translation / stray-previous / conflict-marker / unusual-character bookkeeping, format dispatch) and _check_message_flags are translated from the working tree on every run and proved equal to the model (C16_source_tie_*).',
        design_ref='DESIGN.md 5 / C16; notes/C16.md',
        technique='Coq proof (per-tag characterisations) + in-process recorded-tag correspondence on generated catalogs + rule oracle + source translation (python ast -> Gallina) proved equal to the model',
        note=NOTE_COMMON + ' unusual-character completeness (first-seen set) and malformed-xml are soundness only. Known finding D21.'),
    'C19': dict(
        category='proof',
        text='Coq theorems: the scanner model of the locale regexp accepts exactly ll[_CC][.encoding][@modifier] and printing the parse gives the input back (up to the case of the '
             'encoding); over the ISO tables regenerated from data/iso-codes: code normalisation maps a 3-letter code with a 2-letter equivalent to it, rejects unknown codes, changes '
             'nothing else, is idempotent; language-disparity, invalid-language (with the offered correction) and unable-to-determine-language characterisations of the check_language '
             'decision model (-l, LC_MESSAGES directory, base name, Language, X-Poedit-Language). Source tie: the Language methods (fix_codes, remove_*, __str__, comparison), parse_language, get_language_for_name and every statement of Checker.check_language are translated from the working tree on every run and proved equal to the model (C19_source_tie_*).',
        design_ref='DESIGN.md 5 / C19; notes/C19.md',
        technique='Coq proof (induction; vm_compute + forallb_forall over regenerated ISO tables) + small-scope exhaustive correspondence + in-process check_language product + rule oracle + source translation (python ast -> Gallina) proved equal to the model',
        note=NOTE_COMMON + ' _munch_language_name folding is an oracle; normpath/basename modelled and tied. D8, D17, D16 fixed (f3d0bed, 3540785, b507bc1).'),
    'C20': dict(
        category='proof',
        text='Coq theorems: for each charmap of data/charmaps (regenerated every run) decode/encode round trip for byte strings of every length, totality with valid error positions, '
             'ASCII compatibility; proposals are portable and resolve to the same codec; classification laws over the finite generated name table (refuted for KOI8-T = D10, proved for '
             'all other names); the iconv grow-and-retry loops terminate with at most two doublings and report valid positions under the iconv(3) contract; unrepresentable-characters iff '
             'some non-optional listed character is not encodable. Runtime (EUC-TW/KOI8-T via libc/CPython vs /usr/bin/iconv) by correspondence. Source tie: the grow-and-retry loops of lib/iconv.py (the doubling, the call order, the error positions), the classification functions of lib/encodings.py, the codec search, the charset branch of check_mime and the tail of get_unrepresentable_characters are translated from the working tree on every run and proved equal to the model (C20_source_tie_*), and the termination theorem is restated about the translated decode.',
        design_ref='DESIGN.md 5 / C20; notes/C20.md',
        technique='Coq proof (list induction, vm_compute over regenerated tables, fuel induction for the loops) + correspondence against real codecs and /usr/bin/iconv + source translation (python ast -> Gallina) proved equal to the model',
        note=NOTE_COMMON + ' libc iconv, codecs.lookup, str.lower are oracles. Known findings D10, D19, D11.'),
    'C17': dict(
        category='other',
        text='Partial. Proved in Coq about the loader models: two PO files spelling one catalog differently (escape form per character, continuation chunks, padding, blank lines, '
             'separators) load to the same result, and a transcoded spelling with the charset field adjusted loads to the same entries except the header entry (corollaries of the C10 '
             'load/render theorems, file level, through detect_encoding and Codecs.open); two MO files encoding one catalog in any byte order / layout load to the same entries, charset and '
             'hidden flag (C08); a member of an unpacked .deb (tmpdir/) or .dsc (tmpdir/s/) is printed as <package>/<member>. Not modelled: that every diagnostic is a function of the loaded '
             'catalog, path, options and date; os.walk, subprocesses and temporary-directory cleanup. Those are explored end to end through the real checker: one catalog spelled by two renderers, '
             're-wrapped, octal-escaped, transcoded (ISO-8859-2 and msgcat), MO files by msgfmt in both byte orders / without hash table / other alignment, PO vs its MO, .deb and native .dsc '
             'packages (rejected members included) built with dpkg-deb / a tarball vs per-member runs, TMPDIR empty afterwards. Source tie: check_deb (kind dispatch, roots, the os.walk loop, ignore list), check_file, copy_options (a NEW options value) and the cli Checker.tag are translated from the working tree on every run and proved equal to the model (C17_source_tie_*).',
        design_ref='DESIGN.md 5 / C17',
        technique='Coq proof (corollaries of the C08/C10 loader theorems; path mapping) + metamorphic exploration with independent tools (msgcat, msgfmt, dpkg-deb, dpkg-source) + source translation (python ast -> Gallina) proved equal to the model',
        note=NOTE_COMMON + ' The step from the loaded catalog to the diagnostics is covered by the per-check properties (C07, C14-C16, C18-C20), not composed here.'),
    'C10': dict(
        category='proof',
        text='Proved in Coq for ALL inputs: polib_unescape returns exactly the byte string for every spelling of it in the C escape family (literal, \\n-style, octal, hex escapes of any length with the value taken mod 256 as gettext does, of the encoded '
             'bytes) in every ASCII-compatible charset without warning, never crashes on any string and warns exactly on the D14 pattern; for every catalog and every spelling of the printer family '
             '(per-line padding, blank lines anywhere, continuation splitting, obsolete and previous-msgid prefixes) the loader model - detect_encoding, Codecs.open (LF-only splitting, comment '
             'normalisation), the line lexer and the 14-state PO state machine - yields exactly the catalog: strings, flags in order with duplicates, obsolete marker, previous-msgid, references '
             'and extracted comments on the right entry, for nplurals <= 10 (D9) and outside dropped #~| annotations (D22) (C10_load_render, C10_open_load_render, C10_load_po_render; the codecs '
             'are oracles whose answers the harness supplies from the live codecs). The loader model never crashes. Tied by correspondence and by the model-free load(render(c)) == c oracle over '
             '42 ASCII-compatible charsets with an independent renderer, on single files and on multi-file sequences in one process. Source tie: polib_unescape with its callback, the pattern texts of its three regexes, Codecs.open (the line loop, comment normalisation, pending comments), detect_encoding and the pofile_find patch are translated from the working tree on every run and proved equal to the model (C10_source_tie_*).',
        design_ref='DESIGN.md 5 / C10; notes/C10.md',
        technique='Coq proof (unescape round trip and totality, lexer round trips per line kind and their assembly, state-machine round trip, Codecs.open / detect_encoding composition) + extracted-model correspondence with oracle-answer protocol + render/load oracle + source translation (python ast -> Gallina) proved equal to the model',
        note=NOTE_COMMON + ' polib (third party) is modelled, not verified; bytes.decode is an oracle; separators after keywords are one choice per file in the proved family. Known findings D9, D14, D22, D23, D27; D29 repaired in /repo (5d2c73e): model, specification and theorems are those of the repaired code.'),
    'C12': dict(
        category='proof',
        text='Coq theorems relating two models, the scanner model of strformat.python.FormatString and a model of CPython 3.12 unicode_format_arg_parse/format: if the parser accepts '
             '(in the property\'s domain: no decorated %% conversion) then CPython formats the string with every argument tuple/mapping matching the reported signature; if CPython rejects '
             'the string whatever the arguments, the parser rejects; a formattable string is rejected only for the documented reasons; only own errors. The theorem\'s weight rests on both '
             'correspondences, which run on every check: parser model vs the real parser, and CPython model vs the live interpreter (s % args). Source tie: FormatString.__init__ (all five scanning loops), add_argument and Conversion.__init__ of lib/strformat/python.py are translated from the working tree on every run and proved equal to the model (C12_source_tie_*).',
        design_ref='DESIGN.md 5 / C12; notes/C12.md',
        technique='Coq proof (per-directive agreement lemma between two scanners) + two extracted-model correspondences + live-interpreter oracle + source translation (python ast -> Gallina) proved equal to the model',
        note=NOTE_COMMON + ' The CPython-side model is hand-written from knowledge of unicodeobject.c and validated against the live interpreter, not derived from its source.'),
    'C13': dict(
        category='proof',
        text='perl-brace: complete Coq theorems (accept iff every "{" opens "{identifier}", reported names = identifiers, only own errors, the model scanner inspects at most 2|s|+1 '
             'characters). python-brace: proved that acceptance implies Python\'s parser accepts and that a string Python rejects is rejected (outside the known finding D25, with refutation '
             'witnesses), only own errors (unguarded since the D3 fix), soundness of the type set computed for a format spec against a model of CPython format() (outside D24), and the flat-fields '
             'theorem: an accepted string whose fields are flat (no nested field, no attribute/index, spec outside D24) formats successfully under the CPython model with any arguments matching '
             'the reported argument map and type sets (automatic/manual numbering and index-vs-keyword lookup included), also instantiated on the generated Unicode tables; the hypothesis is never vacuous: an accepted string reports no argument with an empty type set (C13_py_types_inhabited), and the live oracle treats an accepted flat string with an empty reported set that no str/int/float formats as a failing input. The flat/guard domain '
             'is recomputed by the extracted model and compared with the live parser on every run; the CPython-side model is compared with string.Formatter().parse and str.format. Time on the real '
             're engine is MEASURED on doubling families (a property of the engine no Gallina model exhibits); the model scanners have proved linear step bounds. Source tie: both brace parsers (perlbrace FormatString.__init__; pybrace FormatString.__init__, add_argument, Field.__init__ with the type-set computation; the pattern texts and error-class tables) are translated from the working tree on every run and proved equal to the models (C13_source_tie_*).',
        design_ref='DESIGN.md 5 / C13; notes/C13.md',
        technique='Coq proof (scanner models vs declarative specs / CPython markup + format model) + correspondences (model vs parser, spec vs string.Formatter / str.format, domain op) + measured time growth + source translation (python ast -> Gallina) proved equal to the model',
        note=NOTE_COMMON + ' The CPython-side model is hand-written and validated against the live interpreter. Known findings D24 (pinned by tests), D25. D3, D4 fixed (01ae369, 89b000c).'),
    'C01': dict(
        category='other',
        text='Partial. Proved: the conjunction of the component no-crash / totality theorems (plural evaluator and analyses, MO loader through Checker.check\'s handlers, C format parser, '
             'header, message, date, language and charset-proposal models), re-exported in Props/C01.v so that C01 stops checking when any of them does. Explored on the real CLI, not proved: '
             'exit status 0, empty stderr, line grammar and a time cap for generated files of every kind (hostile catalogs, every component\'s malformed stream in the slot that reaches it, '
             'escape spellings, duplicate header fields, every odd codec name, byte noise, mutated files, MO truncations and word corruptions) under -l / --file-type / -j, and at most quadratic '
             'growth on 28 pumped families. The orchestration Checker.check() is modelled with the loaders and os.stat as oracles and proved: which exceptions can leave it (iff), dispatch on extension / --file-type, constructor calls, ctx flags, the order of the nine sub-checks, broken-encoding once and last, the arguments of syntax-error-in-po-file and that their safestr parts are [a-z0-9 :] only (27 theorems C01_glue_*); tied by scripted-oracle correspondence through the real method with stubbed loaders. The plural check is source-tied as well: the translated check_plurals returns or lets only a registry syntax error escape (C01_source_tie_check_plurals_total).',
        design_ref='DESIGN.md 5 / C01',
        technique='Coq proof (aggregate of component totality theorems) + CLI fuzz with timing',
        note=NOTE_COMMON + ' Recursion limit, regex cost, memory and the exit status are runtime behaviour no model here exhibits. Known findings D11, D12, D14.'),
}

NA_REASON = 'check not built yet (work in progress; see DESIGN.md section 8 for build order)'

m = {
    'version': 1,
    'setup_cmd': '/venv/bin/python tools/check.py --setup',
    'hooks': {
        'guard': 'I18NSPECTOR_VERIF',
        'enable': 'no source hooks are used: checks import /repo\'s working tree (PYTHONPATH=/repo), subclass check.Checker and pin misc.utc_now from the harness',
        'baseline_off_cmd': 'cd /repo && /venv/bin/python -m pytest -ra -q -p no:cacheprovider --timeout=900 --continue-on-collection-errors',
        'source_commits': [],
        'add_only': True,
    },
    'engines': [
        {'name': 'coq-models', 'path': 'coq/', 'serves_properties': sorted(CHECKS), 'kind_free_text': 'Coq 8.16.1 development: Model/ (executable Gallina), Spec/, Proofs/, Props/ (property theorems), Generated/ (tables re-translated from /repo on every run)'},
        {'name': 'extracted-driver', 'path': 'ocaml/driver.ml', 'serves_properties': sorted(CHECKS), 'kind_free_text': 'OCaml line-protocol driver around the extracted models (correspondence check)'},
        {'name': 'harness', 'path': 'tools/', 'serves_properties': sorted(CHECKS), 'kind_free_text': 'Python generators, implementation runners, oracles, verdict logic'},
    ],
    'checks': [],
    'notes': 'Every check: regenerate tables from /repo, make (coqc), Print Assumptions audit, extraction + driver, correspondence, oracle search. KNOWN_FINDINGS.jsonl lists recorded defects. VERIF_SEED seeds all generators.',
    'not_applicable': [],
}
for i in ids:
    if i in CHECKS:
        c = CHECKS[i]
        m['checks'].append({
            'property_id': i,
            'quick_cmd': f'/venv/bin/python tools/check.py {i} --tier quick',
            'thorough_cmd': f'/venv/bin/python tools/check.py {i} --tier thorough',
            'evidence_file': f'/verif/evidence/{i}.json',
            'replay_cmd_template': f'/venv/bin/python tools/check.py {i} --replay {{path}}',
            'engine': 'coq-models',
            'level_claimed': {'category': c['category'], 'text': c['text'], 'design_ref': c['design_ref']},
            'level_note': c['note'],
            'technique': c['technique'],
        })
    else:
        m['not_applicable'].append({'property_id': i, 'reason': NA_REASON})
json.dump(m, open(os.path.join(ROOT, 'MANIFEST.json'), 'w'), indent=1)
print('checks:', [c['property_id'] for c in m['checks']])

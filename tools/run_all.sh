#!/bin/bash
# run every registered check (default: quick tier) on the unchanged tree; rewrites evidence/*.json
cd "$(dirname "$0")/.."
TIER=${1:-quick}
for p in $(python3 -c "import json; print(' '.join(c['property_id'] for c in json.load(open('MANIFEST.json'))['checks']))"); do
  timeout 7200 /venv/bin/python tools/check.py $p --tier $TIER 2>&1 | grep -E "^VIOLATION|^\[|^KNOWN" | cut -c1-160
done

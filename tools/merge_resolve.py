"""Resolve the routine conflicts of a builder-branch merge: union of both sides in Extract.v, driver.ml, gen_data.py;
Extract.v's root list is then re-terminated (one final '.')."""
import re
import subprocess
import sys

ROOT = subprocess.check_output(['git', 'rev-parse', '--show-toplevel'], text=True).strip()


def union(path):
    out = []
    for line in open(path):
        if line.startswith('<<<<<<< ') or line.strip() == '=======' or line.startswith('>>>>>>> '):
            continue
        out.append(line)
    open(path, 'w').write(''.join(out))


def fix_extract(path):
    lines = open(path).read().split('\n')
    i = next(k for k, l in enumerate(lines) if l.startswith('Extraction "model.ml"'))
    head, roots = lines[:i + 1], lines[i + 1:]
    seen, out = set(), []
    for l in roots:
        t = l.strip()
        if t in ('', '.'):
            continue
        t = t.rstrip('.').rstrip()
        names = t.split()
        names = [n for n in names if n not in seen and not seen.add(n)]
        if names:
            out.append('  ' + ' '.join(names))
    open(path, 'w').write('\n'.join(head + out + ['  .', '']))


for f in ('coq/Extract/Extract.v', 'ocaml/driver.ml', 'tools/gen/gen_data.py'):
    p = ROOT + '/' + f
    if '<<<<<<< ' in open(p).read():
        union(p)
fix_extract(ROOT + '/coq/Extract/Extract.v')

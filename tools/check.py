#!/venv/bin/python
"""Entry point of every check:  check.py <property-id> [--tier quick|thorough]
                                 check.py --setup"""
import argparse
import importlib
import os
import sys

sys.path.insert(0, os.path.dirname(os.path.abspath(__file__)))
import common  # noqa: E402


def main():
    if os.environ.get('VERIF_DEBUG_DUMP'):
        import faulthandler
        faulthandler.dump_traceback_later(float(os.environ['VERIF_DEBUG_DUMP']), exit=False)

    common.ensure_env()
    ap = argparse.ArgumentParser()
    ap.add_argument('prop', nargs='?')
    ap.add_argument('--tier', default=os.environ.get('VERIF_TIER', 'quick'), choices=['quick', 'thorough'])
    ap.add_argument('--setup', action='store_true')
    ap.add_argument('--replay')
    args = ap.parse_args()
    seed = int(os.environ.get('VERIF_SEED', '0') or 0)
    if args.setup:
        b = common.coq_build(clean=True)
        print('setup: gen_rc=%s build rc=%s failed=%s wall=%ss' % (b['gen_rc'], b['rc'], b['failed_files'], b['wall_s']))
        if b['gen_rc'] != 0:
            print(b['gen_out'])
        if b['rc'] != 0:
            print(b['out'])
            for e in b['errors']:
                print(e)
        sys.exit(0 if (b['rc'] == 0 and b['gen_rc'] == 0) else 1)
    pid = args.prop.upper()
    mod = importlib.import_module('harness.' + pid.lower())
    ctx = common.Ctx(pid, args.tier, seed)
    if args.replay:
        if hasattr(mod, 'replay'):
            sys.exit(mod.replay(ctx, args.replay))
        sys.exit(common.generic_replay(args.replay))
    sys.exit(mod.check(ctx))


if __name__ == '__main__':
    main()

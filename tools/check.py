#!/venv/bin/python
"""Entry point of every check:  check.py <property-id> [--tier quick|thorough]
                                 check.py --setup"""
import argparse
import importlib
import os
import sys

sys.path.insert(0, os.path.dirname(os.path.abspath(__file__)))
import common  # noqa: E402


def descendants(pid):
    """pids of all live descendants of pid (from /proc)"""
    kids = {}
    for d in os.listdir('/proc'):
        if d.isdigit():
            try:
                with open('/proc/%s/stat' % d) as f:
                    st = f.read()
                ppid = int(st.rsplit(')', 1)[1].split()[1])
                kids.setdefault(ppid, []).append(int(d))
            except (OSError, ValueError, IndexError):
                pass
    out, todo = [], [pid]
    while todo:
        for c in kids.get(todo.pop(), []):
            out.append(c)
            todo.append(c)
    return out


def main():
    if os.environ.get('VERIF_DEBUG_DUMP'):
        import faulthandler
        faulthandler.dump_traceback_later(float(os.environ['VERIF_DEBUG_DUMP']), exit=False)

    common.ensure_env()
    ap = argparse.ArgumentParser()
    ap.add_argument('prop', nargs='?')
    ap.add_argument('--tier', default=os.environ.get('VERIF_TIER', 'quick'), choices=['quick', 'thorough'])
    ap.add_argument('--setup', action='store_true')
    ap.add_argument('--replay')
    args = ap.parse_args()
    seed = int(os.environ.get('VERIF_SEED', '0') or 0)
    if args.setup:
        b = common.coq_build(clean=True)
        print('setup: gen_rc=%s build rc=%s failed=%s wall=%ss' % (b['gen_rc'], b['rc'], b['failed_files'], b['wall_s']))
        if b['gen_rc'] != 0:
            print(b['gen_out'])
        if b['rc'] != 0:
            print(b['out'])
            for e in b['errors']:
                print(e)
        sys.exit(0 if (b['rc'] == 0 and b['gen_rc'] == 0) else 1)
    pid = args.prop.upper()
    mod = importlib.import_module('harness.' + pid.lower())
    ctx = common.Ctx(pid, args.tier, seed)
    if args.replay:
        if hasattr(mod, 'replay'):
            sys.exit(mod.replay(ctx, args.replay))
        sys.exit(common.generic_replay(args.replay))
    # a check must end: when it runs out of its wall-clock budget (a code change can make whole input families slow without tripping
    # the per-case deadlines) it reports that the property is no longer shown to hold, instead of leaving the caller with a bare timeout
    budget = float(os.environ.get('VERIF_BUDGET_S') or (1500 if args.tier == 'quick' else 5 * 3600))

    def out_of_budget():
        path = common.write_replay(pid, 'broken-tie', {
            'property': pid, 'seed': seed, 'tier': args.tier, 'theorems_no_longer_checked': [], 'correspondences_broken': [],
            'note': 'the check did not finish within its wall-clock budget of %d s: the correspondence between model and implementation could not be '
                    're-established on this tree (some input family takes far longer than on the pinned commit); no concrete failing input was identified' % budget})
        sys.stdout.write('VIOLATION property=%s replay=%s no-failing-input-found\n' % (pid, path))
        sys.stdout.flush()
        for child in descendants(os.getpid()):
            try:
                os.kill(child, signal.SIGKILL)
            except OSError:
                pass
        os._exit(1)
    import signal
    import threading
    t = threading.Timer(budget, out_of_budget)
    t.daemon = True
    t.start()
    if args.tier == 'quick' and not os.environ.get('VERIF_NO_ESCALATION'):
        pre = common.coq_build()
        why = common.build_broken_for(pid, pre)
        if why:
            ctx.escalated = True
            ctx.notes.append('a proof obligation or generator of this property failed on this tree (%s): the search for a failing input was escalated to the thorough bounds' % '; '.join(why)[:400])
    try:
        rc = mod.check(ctx)
    except Exception:  # noqa
        # the harness completes on the pinned tree; if it cannot complete here, a function of the tool that it calls as an oracle or
        # runner behaves in a way it does not anticipate: the property is not shown to hold on this tree
        import traceback
        tb = traceback.format_exc()
        path = common.write_replay(pid, 'broken-tie', {
            'property': pid, 'seed': seed, 'tier': args.tier, 'theorems_no_longer_checked': [], 'correspondences_broken': [],
            'note': 'the check could not be completed on this tree: the harness itself failed while driving the implementation', 'traceback': tb[-3000:]})
        sys.stderr.write(tb)
        sys.stdout.write('VIOLATION property=%s replay=%s no-failing-input-found\n' % (pid, path))
        sys.stdout.flush()
        t.cancel()
        for child in descendants(os.getpid()):
            try:
                os.kill(child, signal.SIGKILL)
            except OSError:
                pass
        os._exit(1)
    t.cancel()
    sys.exit(rc)


if __name__ == '__main__':
    main()

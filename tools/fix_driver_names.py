"""After a merge, the single-file extraction renames clashing constructors / fields / functions (X -> X0, X1 …).
This helper rebuilds the driver repeatedly and applies the compiler's own hint ("Did you mean X0?") at the reported
line of ocaml/driver.ml until it compiles.  The numbering is stable as long as new roots are appended to Extract.v."""
import re
import subprocess
import sys
import os
ROOT = os.path.dirname(os.path.dirname(os.path.abspath(__file__)))
for it in range(60):
    subprocess.run([ROOT + '/tools/build.sh'], stdout=subprocess.DEVNULL, stderr=subprocess.DEVNULL)
    log = open(ROOT + '/.work/ocaml.log').read() if os.path.exists(ROOT + '/.work/ocaml.log') else ''
    m = re.search(r'File "driver.ml", line (\d+), characters (\d+)-(\d+):\n(?:.*\n)*?Error: (.*(?:\n .*)*)\n(?:Hint: Did you mean (\w+)\?)?', log)
    if 'Error' not in log or not m:
        print('driver builds after %d fixes' % it)
        sys.exit(0)
    ln, c0, c1, msg, hint = int(m.group(1)), int(m.group(2)), int(m.group(3)), m.group(4), m.group(5)
    lines = open(ROOT + '/ocaml/driver.ml').read().split('\n')
    old = lines[ln - 1][c0:c1]
    if not hint:
        hm = re.search(r'Did you mean (\w+)\?', log)
        hint = hm.group(1) if hm else None
    if not hint or not hint.startswith(old.rstrip('0123456789')[:max(3, len(old) - 2)]):
        print('cannot fix automatically: line %d %r: %s (hint %s)' % (ln, old, msg[:200], hint))
        sys.exit(1)
    lines[ln - 1] = lines[ln - 1][:c0] + hint + lines[ln - 1][c1:]
    open(ROOT + '/ocaml/driver.ml', 'w').write('\n'.join(lines))
    print('line %d: %s -> %s' % (ln, old, hint))
print('gave up')
sys.exit(1)

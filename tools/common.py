"""Shared machinery for the checks: build, audit, model driver, parallel comparison,
evidence, violations and known findings.  Runs under /venv/bin/python (the interpreter
the repository's own tests use) with /repo's working tree first on sys.path."""
import hashlib
import json
import multiprocessing
import os
import random
import re
import signal
import subprocess
import sys
import time

VERIF = os.environ.get('VERIF_ROOT') or os.path.dirname(os.path.dirname(os.path.abspath(__file__)))
REPO = os.environ.get('VERIF_REPO') or '/repo'   # VERIF_REPO: a scratch copy, used only when testing the checks against seeded changes
WORK = os.path.join(VERIF, '.work')
DRIVER = os.path.join(VERIF, 'ocaml', 'driver')
PY = '/venv/bin/python'
NPROC = min(16, os.cpu_count() or 4)


def ensure_env():
    """Pin hash randomisation, put /repo first on sys.path, give rply a private cache."""
    os.makedirs(WORK, exist_ok=True)
    want = {
        'PYTHONHASHSEED': '0',
        'PYTHONPATH': REPO,
        'XDG_CACHE_HOME': os.path.join(WORK, 'xdg-cache'),
        'PYTHONWARNINGS': 'ignore',
        'PYTHONDONTWRITEBYTECODE': '1',
    }
    if any(os.environ.get(k) != v for k, v in want.items()):
        env = dict(os.environ)
        env.update(want)
        os.execve(sys.executable, [sys.executable] + sys.argv, env)
    if sys.path[0] != REPO:
        sys.path.insert(0, REPO)


# ---------------------------------------------------------------- encoding of arguments
def enc_str(s):
    return 's' + ','.join(str(ord(c)) for c in s)


def enc_bytes(b):
    return 's' + ','.join(str(c) for c in b)


def dec_str(t):
    assert t.startswith('s')
    if t == 's':
        return ''
    return ''.join(chr(int(x)) for x in t[1:].split(','))


# ---------------------------------------------------------------- model driver
def run_driver(lines, timeout=900):
    """Feed request lines to the extracted model; return the list of result lines."""
    if not lines:
        return []
    data = ('\n'.join(lines) + '\n').encode('ascii')
    p = subprocess.run(['bash', '-c', 'ulimit -s unlimited 2>/dev/null; exec ' + DRIVER],
                       input=data, stdout=subprocess.PIPE, stderr=subprocess.PIPE, timeout=timeout)
    out = p.stdout.decode('ascii', 'replace').split('\n')
    if out and out[-1] == '':
        out.pop()
    if len(out) != len(lines):
        # the driver died (stack overflow, ...): mark the rest
        out += ['driver-died rc=%d %s' % (p.returncode, p.stderr.decode('ascii', 'replace')[-200:].replace('\n', ' '))] * (len(lines) - len(out))
    return out


MAX_TIMEOUTS_PER_SHARD = 3


class CaseTimeout(BaseException):
    """not an Exception: the generic handlers of harness code (and of the code under test) must not swallow a deadline"""
    pass


def _alarm(signum, frame):
    raise CaseTimeout()


class inner_deadline:
    """a shorter time limit for one step inside a case that already runs under call_with_timeout (the outer limit is restored)"""
    def __init__(self, seconds):
        self.seconds = seconds

    def __enter__(self):
        self.t0 = time.time()
        self.outer = signal.getitimer(signal.ITIMER_REAL)[0]
        signal.signal(signal.SIGALRM, _alarm)
        signal.setitimer(signal.ITIMER_REAL, self.seconds if not self.outer else min(self.seconds, self.outer))
        return self

    def __exit__(self, *exc):
        left = 0
        if self.outer:
            left = max(0.01, self.outer - (time.time() - self.t0))
        signal.setitimer(signal.ITIMER_REAL, left)
        return False


def call_with_timeout(fn, arg, seconds):
    signal.signal(signal.SIGALRM, _alarm)
    signal.setitimer(signal.ITIMER_REAL, seconds)
    try:
        return fn(arg)
    except CaseTimeout:
        return 'timeout'
    finally:
        signal.setitimer(signal.ITIMER_REAL, 0)


def _shard_worker(args):
    modname, fname, cases, per_case_timeout = args
    ensure_path()
    mod = __import__(modname, fromlist=['x'])
    fn = getattr(mod, fname)
    lines = [c[0] for c in cases]
    model = run_driver(lines)
    res = []
    ntimeouts = 0
    for (line, payload), m in zip(cases, model):
        if ntimeouts >= MAX_TIMEOUTS_PER_SHARD:
            res.append((line, payload, m, 'timeout'))
            continue
        try:
            r = call_with_timeout(fn, payload, per_case_timeout)
        except RecursionError:
            r = 'crash RecursionError'
        if r == 'timeout' or 'CaseTimeout' in repr(r)[:300]:
            ntimeouts += 1
        res.append((line, payload, m, r))
    return res


def ensure_path():
    if REPO not in sys.path[:1]:
        sys.path.insert(0, REPO)
    here = os.path.dirname(os.path.abspath(__file__))
    if here not in sys.path:
        sys.path.append(here)


def compare_parallel(modname, fname, cases, per_case_timeout=20.0, nproc=NPROC):
    """cases: list of (model_request_line, payload).  The implementation side is
    modname.fname(payload) -> canonical result line, executed in worker processes.
    Returns list of (line, payload, model_result, impl_result)."""
    if not cases:
        return []
    nshards = max(1, min(nproc * 4, len(cases) // 50 + 1))
    shards = [cases[i::nshards] for i in range(nshards)]
    work = [(modname, fname, sh, per_case_timeout) for sh in shards if sh]
    if nproc <= 1 or len(work) == 1:
        outs = [_shard_worker(w) for w in work]
    else:
        with multiprocessing.get_context('fork').Pool(min(nproc, len(work))) as pool:
            outs = pool.map(_shard_worker, work, chunksize=1)
    res = []
    for o in outs:
        res.extend(o)
    return res


def _pmap_worker(args):
    modname, fname, payloads, per_case_timeout = args
    ensure_path()
    mod = __import__(modname, fromlist=['x'])
    fn = getattr(mod, fname)
    out = []
    ntimeouts = 0
    for p in payloads:
        if ntimeouts >= MAX_TIMEOUTS_PER_SHARD:
            out.append('timeout')          # circuit breaker: a code change that makes a whole family hang must not make the check run for hours
            continue
        try:
            r = call_with_timeout(fn, p, per_case_timeout)
        except RecursionError:
            r = 'crash RecursionError'
        if r == 'timeout' or 'CaseTimeout' in repr(r)[:300]:
            ntimeouts += 1
        out.append(r)
    return out


def pmap(modname, fname, payloads, per_case_timeout=60.0, nproc=NPROC):
    """order-preserving parallel map of modname.fname over payloads (worker processes)"""
    if not payloads:
        return []
    n = len(payloads)
    nshards = max(1, min(nproc * 4, n // 20 + 1))
    bounds = [(i * n // nshards, (i + 1) * n // nshards) for i in range(nshards)]
    work = [(modname, fname, payloads[a:b], per_case_timeout) for a, b in bounds if b > a]
    if nproc <= 1 or len(work) == 1:
        outs = [_pmap_worker(w) for w in work]
    else:
        with multiprocessing.get_context('fork').Pool(min(nproc, len(work))) as pool:
            outs = pool.map(_pmap_worker, work, chunksize=1)
    res = []
    for o in outs:
        res.extend(o)
    return res


# ---------------------------------------------------------------- build and audit
def sh(cmd, timeout=3600, **kw):
    return subprocess.run(cmd, shell=True, stdout=subprocess.PIPE, stderr=subprocess.STDOUT,
                          timeout=timeout, text=True, **kw)


def regenerate():
    """Run the translators: /repo's data and source -> coq/Generated/*.v"""
    p = sh(f'{PY} {VERIF}/tools/gen/gen_tables.py', env=dict(os.environ, PYTHONPATH=REPO, PYTHONHASHSEED='0'))
    return p.returncode, p.stdout


def coq_build(clean=False):
    """Regenerate tables, make, extract, compile driver.  Returns dict."""
    t0 = time.time()
    grc, gout = regenerate()
    p = sh(f'{VERIF}/tools/build.sh' + (' clean' if clean else ''))
    log = ''
    try:
        log = open(os.path.join(WORK, 'make.log')).read()
    except OSError:
        pass
    failed = sorted(set(re.findall(r'\[Makefile[^\]]*: ([\w/]+)\.vo\] Error', log)))
    errors = re.findall(r'(File "[^"]+", line \d+, characters [\d-]+:\nError:[^\n]*(?:\n[^\n]+){0,6})', log)
    return {'gen_rc': grc, 'gen_out': gout[-4000:], 'rc': p.returncode, 'out': p.stdout[-4000:],
            'failed_files': failed, 'errors': errors[:10], 'wall_s': round(time.time() - t0, 1)}


def dep_closure(prop_id):
    """the .v files (without extension, relative to coq/) that Props/<id>.v transitively depends on, from coqdep's output"""
    deps = {}
    try:
        for line in open(os.path.join(VERIF, 'coq', '.Makefile.d')):
            if ':' not in line:
                continue
            lhs, rhs = line.split(':', 1)
            tg = [t[:-3] for t in lhs.split() if t.endswith('.vo')]
            if not tg:
                continue
            deps.setdefault(tg[0], set()).update(t[:-3] for t in rhs.split() if t.endswith('.vo'))
    except OSError:
        return None
    seen, todo = set(), ['Props/' + prop_id]
    while todo:
        x = todo.pop()
        if x in seen:
            continue
        seen.add(x)
        todo.extend(deps.get(x, ()))
    return seen


def build_broken_for(prop_id, build):
    """Which build problems concern this property: the driver (needed by every correspondence), a failed file the property's
    theorems depend on, a failed generator whose files they depend on.  A broken proof of ANOTHER property is that property's alarm."""
    if build is None:
        return []
    why = []
    clo = dep_closure(prop_id)
    if build['rc'] not in (0,):
        rel = [f for f in build['failed_files'] if clo is None or f in clo]
        if rel:
            why.append('files that do not compile: ' + ' '.join(rel))
        if build['rc'] == 3 or 'extraction failed' in build['out'] or 'driver build failed' in build['out']:
            why.append('extraction / driver build failed')
        elif not build['failed_files']:
            why.append('build failed (rc=%s)' % build['rc'])
    if build['gen_rc'] != 0:
        try:
            failed = json.load(open(os.path.join(VERIF, 'coq', 'Generated', '.failed.json')))
        except (OSError, ValueError):
            failed = None
        if not failed:
            why.append('a generator failed (no detail available)')
        else:
            for m, d in failed.items():
                files = ['Generated/' + f[:-2] for f in d.get('poisoned', []) + d.get('rewritten', [])]
                if d.get('first_run') or clo is None or any(f in clo for f in files):
                    why.append('generator %s failed: %s' % (m, d.get('error', '')[:300]))
    return why


def theorems_of(prop_id):
    path = os.path.join(VERIF, 'coq', 'Props', prop_id + '.v')
    if not os.path.exists(path):
        return []
    src = open(path).read()
    src = re.sub(r'\(\*.*?\*\)', '', src, flags=re.S)
    return re.findall(r'^\s*(?:Theorem|Corollary)\s+(\w+)', src, flags=re.M)


FORBIDDEN = re.compile(r'\b(Admitted|admit|Axiom|Axioms|Parameter|Parameters|Conjecture|Abort All|Unset Guard Checking|bypass_check|Admit Obligations|type-in-type|impredicative-set)\b')


def grep_forbidden():
    bad = []
    for root, _, files in os.walk(os.path.join(VERIF, 'coq')):
        for f in files:
            if f.endswith('.v') or f == '_CoqProject':
                p = os.path.join(root, f)
                src = open(p).read()
                src_nc = re.sub(r'\(\*.*?\*\)', '', src, flags=re.S)
                for m in FORBIDDEN.finditer(src_nc):
                    bad.append(f'{os.path.relpath(p, VERIF)}: {m.group(0)}')
    return bad


def audit(prop_id, coqchk=False):
    """Re-run Print Assumptions on every theorem of Props/<id>.v.  Returns dict with the
    list of theorems, those closed, and those not checkable (Props file not compiled)."""
    thms = theorems_of(prop_id)
    res = {'theorems': thms, 'closed': [], 'with_axioms': {}, 'unchecked': [], 'forbidden': grep_forbidden()}
    vo = os.path.join(VERIF, 'coq', 'Props', prop_id + '.vo')
    vsrc = os.path.join(VERIF, 'coq', 'Props', prop_id + '.v')
    if not thms or not os.path.exists(vo) or os.path.getmtime(vo) < os.path.getmtime(vsrc):
        res['unchecked'] = list(thms) or ['<no Props file>']
        return res
    adir = os.path.join(WORK, 'audit')
    os.makedirs(adir, exist_ok=True)
    apath = os.path.join(adir, f'Audit_{prop_id}.v')
    with open(apath, 'w') as f:
        f.write(f'From I18n Require Import Props.{prop_id}.\n')
        for t in thms:
            f.write(f'Goal True. idtac "@@THM {t}". exact I. Qed.\nPrint Assumptions {t}.\n')
    p = sh(f'cd {adir} && timeout 600 coqc -Q {VERIF}/coq I18n {apath}')
    out = p.stdout
    if p.returncode != 0:
        res['unchecked'] = list(thms)
        res['audit_error'] = out[-2000:]
        return res
    chunks = out.split('@@THM ')[1:]
    for ch in chunks:
        name, _, body = ch.partition('\n')
        name = name.strip()
        if 'Closed under the global context' in body:
            res['closed'].append(name)
        else:
            res['with_axioms'][name] = body.strip()[:1500]
    for t in thms:
        if t not in res['closed'] and t not in res['with_axioms']:
            res['unchecked'].append(t)
    if coqchk:
        p = sh(f'cd {VERIF}/coq && timeout 1800 coqchk -silent -o -Q . I18n I18n.Props.{prop_id}', timeout=2000)
        res['coqchk_rc'] = p.returncode
        res['coqchk_out'] = p.stdout[-3000:]
    return res


def generic_replay(path):
    """re-run the failing inputs recorded in a replay file against the current /repo"""
    ensure_path()
    obj = json.load(open(path))
    fails = obj.get('failing_inputs')
    if fails is None:
        print('this replay file names theorems / correspondences that no longer check (no concrete failing input):')
        print(json.dumps({k: obj.get(k) for k in ('theorems_no_longer_checked', 'n_disagreements', 'correspondences_broken')}, indent=1)[:3000])
        print('re-run the check itself to see whether they check again')
        return 2
    still = 0
    rerun = 0
    for f in fails:
        r = f.get('replay')
        if not r:
            continue
        rerun += 1
        mod = __import__(r['module'], fromlist=['x'])
        payload = r['payload']
        if isinstance(payload, list):
            payload = tuple(payload)
        v = getattr(mod, r['function'])(payload)
        if v is not None:
            still += 1
            print('STILL FAILS: %s: %s' % (json.dumps(f['input'])[:300], str(v)[:300]))
    if rerun == 0:
        print('the recorded failing inputs (kind %s) carry no re-runnable oracle; first input:' % obj.get('kind'))
        print(json.dumps(fails[0], indent=1)[:2000])
        return 2
    print('%d of %d recorded failing inputs still fail' % (still, rerun))
    return 1 if still else 0


# ---------------------------------------------------------------- findings, evidence, verdict
def load_known_findings():
    path = os.path.join(VERIF, 'KNOWN_FINDINGS.jsonl')
    out = []
    if os.path.exists(path):
        for line in open(path):
            line = line.strip()
            if line and not line.startswith('#'):
                out.append(json.loads(line))
    return out


class Ctx:
    def __init__(self, prop_id, tier, seed):
        self.id = prop_id
        self.tier = tier
        self.seed = seed
        self.rng = random.Random(f'{prop_id}/{seed}')
        self.t0 = time.time()
        self.failures = []       # property failures on the implementation: dict(kind, input, what, finding)
        self.disagreements = []  # model/implementation differences: dict(op, input, model, impl)
        self.stats = {}
        self.samples = []
        self.evaluations = 0
        self.nontrivial = set()
        self.notes = []

    def quick(self):
        # escalated: a proof obligation of this property no longer checks on this tree, so the search for a concrete failing
        # input runs with the thorough tier's bounds even in a quick run
        return self.tier == 'quick' and not getattr(self, 'escalated', False)

    def count(self, key, n=1):
        self.stats[key] = self.stats.get(key, 0) + n

    def nontriv(self, key):
        """register a distinct non-trivial case (hashed to keep memory small)"""
        self.nontrivial.add(hashlib.blake2b(repr(key).encode('utf-8', 'surrogatepass'), digest_size=8).digest())

    def fail(self, kind, inp, what, finding=None, replay=None):
        """replay = (module, function, payload): calling module.function(payload) on the current /repo returns None when the
        property holds on that input again, a description otherwise (used by `check.py <id> --replay <file>`)"""
        f = {'kind': kind, 'input': inp, 'what': what, 'finding': finding}
        if replay is not None:
            f['replay'] = {'module': replay[0], 'function': replay[1], 'payload': replay[2]}
        self.failures.append(f)

    def disagree(self, op, inp, model, impl):
        self.disagreements.append({'op': op, 'input': inp, 'model': model, 'impl': impl})


def write_replay(prop_id, name, obj):
    d = os.path.join(VERIF, 'replays', prop_id)
    os.makedirs(d, exist_ok=True)
    path = os.path.join(d, name + '.json')
    with open(path, 'w') as f:
        json.dump(obj, f, indent=1, ensure_ascii=True, default=repr)
    return path


def finish(ctx, level, build, aud, trusted_base, assumptions, checker_cmd, rule, explanation=None,
           extra_obligations=0, extra_discharged=0):
    """Apply the verdict logic of DESIGN.md 2.6, write evidence, print lines, return rc."""
    known = [k for k in load_known_findings() if k.get('property') == ctx.id and k.get('status') == 'known']
    lines = []
    violations = 0
    seen_known = set()
    unlisted = []
    for f in ctx.failures:
        kid = f.get('finding')
        match = next((k for k in known if k['id'] == kid), None) if kid else None
        if match:
            if kid not in seen_known:
                seen_known.add(kid)
                lines.append(f"KNOWN-FINDING: property={ctx.id} {match['id']} {match['what']}")
        else:
            unlisted.append(f)
    # one VIOLATION per distinct kind of failure
    by_kind = {}
    for f in unlisted:
        by_kind.setdefault(f['kind'], []).append(f)
    for kind, fs in by_kind.items():
        path = write_replay(ctx.id, f'violation-{kind}', {'property': ctx.id, 'seed': ctx.seed, 'tier': ctx.tier,
                            'kind': kind, 'failing_inputs': fs[:20], 'count': len(fs)})
        lines.append(f'VIOLATION property={ctx.id} replay={path}')
        violations += 1
    proof_broken = []
    if aud is not None:
        proof_broken = list(aud['unchecked']) + list(aud['with_axioms']) + list(aud['forbidden'])
    build_why = build_broken_for(ctx.id, build)
    tie_broken = bool(ctx.disagreements) or bool(build_why)
    if (proof_broken or tie_broken) and not unlisted:
        obj = {'property': ctx.id, 'seed': ctx.seed, 'tier': ctx.tier,
               'theorems_no_longer_checked': proof_broken,
               'correspondences_broken': ctx.disagreements[:20],
               'n_disagreements': len(ctx.disagreements),
               'build': dict({k: build[k] for k in ('gen_rc', 'rc', 'failed_files', 'errors')}, concerns_this_property=build_why) if build else None,
               'note': 'no concrete input was found on which the property itself fails on the implementation'}
        if build and build['gen_rc'] != 0:
            obj['build']['gen_out'] = build['gen_out']
        path = write_replay(ctx.id, 'broken-tie', obj)
        lines.append(f'VIOLATION property={ctx.id} replay={path} no-failing-input-found')
        violations += 1
    nthm = len(aud['theorems']) if aud else 0
    obligations = nthm + extra_obligations
    discharged = (len(aud['closed']) if aud else 0) + extra_discharged
    cov = {
        'evaluations': ctx.evaluations,
        'distinct_nontrivial': len(ctx.nontrivial),
        'rule': rule,
        'samples': ctx.samples[:12] or ['<none>'],
        'obligations': obligations,
        'discharged': discharged,
        'checker_cmd': checker_cmd,
        'trusted_base': trusted_base,
        'theorems': aud['theorems'] if aud else [],
        'theorems_closed_under_global_context': aud['closed'] if aud else [],
        'theorems_with_axioms': aud['with_axioms'] if aud else {},
        'theorems_unchecked': aud['unchecked'] if aud else [],
        'forbidden_tokens_found': aud['forbidden'] if aud else [],
        'correspondence_disagreements': len(ctx.disagreements),
        'property_failures_on_impl': len(ctx.failures),
        'known_findings_seen': sorted(seen_known),
        'distribution': ctx.stats,
        'build': {'wall_s': build['wall_s'], 'failed_files': build['failed_files']} if build else None,
        'notes': ctx.notes,
    }
    if aud and 'coqchk_out' in aud:
        cov['coqchk'] = {'rc': aud['coqchk_rc'], 'out': aud['coqchk_out']}
    if explanation:
        cov['explanation'] = explanation
    ev = {'property_id': ctx.id, 'tier': ctx.tier, 'seed': ctx.seed, 'level': level, 'coverage': cov,
          'assumptions': assumptions, 'wall_s': round(time.time() - ctx.t0, 2), 'violations': violations}
    os.makedirs(os.path.join(VERIF, 'evidence'), exist_ok=True)
    with open(os.path.join(VERIF, 'evidence', ctx.id + '.json'), 'w') as f:
        json.dump(ev, f, indent=1, ensure_ascii=True, default=repr)
    for ln in lines:
        print(ln)
    print(f'[{ctx.id}] tier={ctx.tier} seed={ctx.seed} theorems={discharged}/{obligations} '
          f'evaluations={ctx.evaluations} nontrivial={len(ctx.nontrivial)} disagreements={len(ctx.disagreements)} '
          f'failures={len(ctx.failures)} violations={violations} wall={ev["wall_s"]}s')
    return 1 if violations else 0

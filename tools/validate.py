"""Consistency of the interface files: MANIFEST.json and every evidence file against their schemas, evidence level == claimed
level, every property claimed or listed as not applicable, known findings well-formed, no forbidden token in the Coq sources.
Run with python3-vt (jsonschema):  python3-vt tools/validate.py"""
import json
import os
import re
import sys

import jsonschema

V = os.path.dirname(os.path.dirname(os.path.abspath(__file__)))


def main():
    bad = []
    man = json.load(open(os.path.join(V, 'MANIFEST.json')))
    jsonschema.validate(man, json.load(open('/root/.vp/MANIFEST.schema.json')))
    props = [json.loads(l)['id'] for l in open(os.path.join(V, 'properties.jsonl')) if l.strip()]
    claimed = {c['property_id']: c for c in man['checks']}
    na = {x['property_id'] if isinstance(x, dict) else x for x in man.get('not_applicable', [])}
    for p in props:
        if p not in claimed and p not in na:
            bad.append('%s neither claimed nor not_applicable' % p)
    es = json.load(open('/root/.vp/EVIDENCE.schema.json'))
    for p, c in claimed.items():
        path = os.path.join(V, c['evidence_file']) if not os.path.isabs(c['evidence_file']) else c['evidence_file']
        if not os.path.exists(path):
            bad.append('%s: evidence file missing' % p)
            continue
        e = json.load(open(path))
        try:
            jsonschema.validate(e, es)
        except jsonschema.ValidationError as x:
            bad.append('%s: evidence schema: %s' % (p, str(x)[:200]))
        lc = c['level_claimed']['category'] if isinstance(c['level_claimed'], dict) else c['level_claimed']
        if e.get('level') != lc:
            bad.append('%s: evidence level %r != claimed %r' % (p, e.get('level'), lc))
        if e.get('violations'):
            bad.append('%s: evidence records violations: %r' % (p, e['violations']))
        if e.get('tier') != 'quick' or e.get('seed') not in (0, '0'):
            bad.append('%s: evidence is from tier=%r seed=%r (commit the quick seed-0 run on the unchanged tree)' % (p, e.get('tier'), e.get('seed')))
    for i, line in enumerate(open(os.path.join(V, 'KNOWN_FINDINGS.jsonl'))):
        line = line.strip()
        if line and not line.startswith('#'):
            k = json.loads(line)
            if k.get('status') not in ('known', 'fixed') or 'property' not in k or 'what' not in k:
                bad.append('KNOWN_FINDINGS line %d malformed' % (i + 1))
    forb = re.compile(r'\b(Admitted|admit|Axiom|Parameter|Conjecture|Unset Guard|bypass_check|type-in-type|impredicative-set)\b')
    for root, _, files in os.walk(os.path.join(V, 'coq')):
        for f in files:
            if f.endswith('.v'):
                txt = open(os.path.join(root, f)).read()
                txt = re.sub(r'\(\*.*?\*\)', '', txt, flags=re.S)
                m = forb.search(txt)
                if m:
                    bad.append('%s: forbidden token %s' % (os.path.join(root, f), m.group(0)))
    for b in bad:
        print('BAD', b)
    print('validate: %d problems; %d claimed, %d not applicable, %d properties' % (len(bad), len(claimed), len(na), len(props)))
    return 1 if bad else 0


if __name__ == '__main__':
    sys.exit(main())

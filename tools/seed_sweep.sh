#!/bin/bash
# run every registered quick check under several seeds on the unchanged tree; print only alarms and summaries
cd "$(dirname "$0")/.."
/venv/bin/python tools/check.py --setup | tail -1
for s in ${SEEDS:-1 2 3}; do
  for p in $(python3 -c "import json; print(' '.join(c['property_id'] for c in json.load(open('MANIFEST.json'))['checks']))"); do
    VERIF_SEED=$s timeout 1800 /venv/bin/python tools/check.py $p --tier quick 2>&1 | grep -E "^VIOLATION|^\[" | sed "s/^/seed=$s /"
  done
done

"""resolve git conflict markers in the given files by keeping both sides (ours first)"""
import sys
for p in sys.argv[1:]:
    out = []
    for line in open(p):
        if line.startswith('<<<<<<< ') or line.startswith('=======') and line.strip() == '=======' or line.startswith('>>>>>>> '):
            continue
        out.append(line)
    open(p, 'w').write(''.join(out))

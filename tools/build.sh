#!/bin/bash
# Build the Coq development, extract the models and compile the OCaml driver.
# Serialised by a lock so concurrent checks do not trample each other; incremental.
#   build.sh           incremental build
#   build.sh clean     remove build output first
set -u
V=${VERIF_ROOT:-$(cd "$(dirname "$0")/.." && pwd)}
mkdir -p $V/.work
exec 9>$V/.work/build.lock
flock 9
cd $V/coq || exit 2
if [ "${1:-}" = "clean" ]; then
  [ -f Makefile ] && make clean >/dev/null 2>&1
  rm -f Makefile Makefile.conf .Makefile.d
  find . -name '*.vo' -o -name '*.vok' -o -name '*.vos' -o -name '*.glob' -o -name '.*.aux' | xargs rm -f
  rm -rf $V/ocaml/_build $V/ocaml/extracted $V/ocaml/driver
fi
# _CoqProject is regenerated: every .v under the source directories, Extract handled apart
{
  echo "-Q . I18n"
  echo "-arg -w -arg -notation-overridden,-ambiguous-paths,-deprecated-instance-without-locality,-deprecated-hint-without-locality"
  find Lib Model Spec Generated Proofs Props -name '*.v' | LC_ALL=C sort
} > _CoqProject.new
if ! cmp -s _CoqProject.new _CoqProject; then mv _CoqProject.new _CoqProject; rm -f Makefile; else rm -f _CoqProject.new; fi
if [ ! -f Makefile ]; then coq_makefile -f _CoqProject -o Makefile >/dev/null || exit 2; fi
# -k: keep going so that one broken proof does not hide the state of the others
timeout 3000 make -k -j16 > $V/.work/make.log 2>&1
MAKE_RC=$?
echo "make rc=$MAKE_RC" >> $V/.work/make.log
# extraction + driver (only needs Lib/ and Model/)
mkdir -p $V/ocaml/extracted $V/ocaml/_build
cd $V/ocaml/extracted || exit 2
NEED=0
[ -x $V/ocaml/driver ] || NEED=1
for f in $V/coq/Model/*.vo $V/coq/Spec/*.vo $V/coq/Lib/*.vo $V/coq/Generated/*.vo $V/coq/Extract/Extract.v $V/ocaml/driver.ml; do
  [ -e "$f" ] && [ "$f" -nt $V/ocaml/driver ] && NEED=1
done
if [ $NEED = 1 ]; then
  timeout 600 coqc -Q $V/coq I18n $V/coq/Extract/Extract.v > $V/.work/extract.log 2>&1 || { echo "extraction failed"; cat $V/.work/extract.log; exit 3; }
  cp model.ml model.mli $V/ocaml/driver.ml $V/ocaml/_build/
  ( cd $V/ocaml/_build && timeout 600 ocamlfind ocamlopt -O2 -package zarith -linkpkg -w -a model.mli model.ml driver.ml -o $V/ocaml/driver.new ) > $V/.work/ocaml.log 2>&1 \
     || { echo "driver build failed"; cat $V/.work/ocaml.log; exit 3; }
  mv $V/ocaml/driver.new $V/ocaml/driver
fi
exit $MAKE_RC

"""(re)writes section 10.5 of DESIGN.md from seeded/*/meta.json"""
import glob, json, os, re
ROOT = os.path.dirname(os.path.dirname(os.path.abspath(__file__)))
rows = []
for p in sorted(glob.glob(ROOT + '/seeded/*/meta.json')):
    m = json.load(open(p))
    need = ' '.join(m.get('needs_to_manifest', '').split())[:230]
    caught = []
    for c, v in m['checks_run'].items():
        kinds = sorted({l.split('replay=')[1].split('/')[-1].split('.json')[0] for l in v['lines'] if l.startswith('VIOLATION')})
        if kinds:
            caught.append('%s: %s' % (c, ', '.join(kinds)))
        else:
            caught.append('%s: **not reported**' % c)
    rows.append('| %s | %s | %s | %s |' % (m['name'], m['property'], need.replace('|', '\\|'), '; '.join(caught)))
text = ('### 10.5 Seeded changes and the checks that report them\n\n'
        'Every change was produced by a fresh sub-agent that saw only the property text and a scratch worktree of /repo; each was confirmed here '
        '(`tools/seeded_eval.py`: full test suite passes with the change, the agent\'s demonstration fails with it and passes without it) and the registered '
        'quick checks were run against /repo with the patch applied (then undone). `broken-tie` = reported as VIOLATION … no-failing-input-found; every other '
        'kind is a VIOLATION with a concrete failing input in the replay file.\n\n'
        '| seeded change | property | what it needs to manifest (from the agent\'s README) | reported by (replay kinds) |\n|---|---|---|---|\n' + '\n'.join(rows) + '\n')
d = open(ROOT + '/DESIGN.md').read()
i = d.find('### 10.5 Seeded changes and the checks that report them')
d = (d[:i] if i >= 0 else d.rstrip('\n') + '\n\n') + text
open(ROOT + '/DESIGN.md', 'w').write(d)
print(len(rows), 'rows')

"""Evaluate one seeded change: confirm it independently in a scratch worktree (test suite passes, demonstration fails with
the change and passes without), run the registered checks against it on /repo, undo, and file it under /verif/seeded/."""
import json
import os
import shutil
import subprocess
import sys
import time

VERIF = os.path.dirname(os.path.dirname(os.path.abspath(__file__)))


def sh(cmd, **kw):
    return subprocess.run(cmd, shell=True, stdout=subprocess.PIPE, stderr=subprocess.STDOUT, text=True, **kw)


def main():
    prop, src, name = sys.argv[1], sys.argv[2], sys.argv[3]        # e.g. C05 /tmp/mut_C05_out/change1 C05-mod-bound
    checks = sys.argv[4:] or [prop]
    patch = os.path.join(src, 'patch.diff')
    demo = os.path.join(src, 'demo.py')
    lane = os.environ.get('SEED_LANE', '')
    w = '/tmp/seed_eval_w' + lane
    sh(f'git -C /repo worktree remove --force {w}; rm -rf {w}')
    assert sh(f'git -C /repo worktree add -q {w} HEAD').returncode == 0
    res = {'property': prop, 'name': name}
    try:
        r = sh(f'cd {w} && timeout 600 /venv/bin/python {demo} {w}')
        res['demo_without_change_rc'] = r.returncode
        a = sh(f'git -C {w} apply {patch}')
        res['patch_applies'] = a.returncode == 0
        if a.returncode != 0:
            res['apply_error'] = a.stdout[-500:]
        else:
            t = sh(f'cd {w} && timeout 1200 /venv/bin/python -m pytest -q -p no:cacheprovider --timeout=900 2>&1 | tail -1')
            res['test_suite'] = t.stdout.strip()
            r = sh(f'cd {w} && timeout 600 /venv/bin/python {demo} {w}')
            res['demo_with_change_rc'] = r.returncode
            res['demo_with_change_tail'] = r.stdout[-600:]
    finally:
        sh(f'git -C /repo worktree remove --force {w}; rm -rf {w}')
    confirmed = res.get('patch_applies') and res.get('demo_without_change_rc') == 0 and res.get('demo_with_change_rc', 0) != 0 and ' passed' in res.get('test_suite', '') and 'failed' not in res.get('test_suite', '')
    res['confirmed'] = bool(confirmed)
    if confirmed:
        # the checks run against a scratch worktree of /repo carrying the patch (VERIF_REPO), never against /repo itself
        sr = '/tmp/seed_eval_repo' + lane
        sh(f'git -C /repo worktree remove --force {sr}; rm -rf {sr}')
        assert sh(f'git -C /repo worktree add -q {sr} HEAD').returncode == 0
        try:
            assert sh(f'git -C {sr} apply {patch}').returncode == 0
            res['checks'] = {}
            for c in checks:
                t0 = time.time()
                r = sh(f'cd {VERIF} && VERIF_REPO={sr} timeout 2400 /venv/bin/python tools/check.py {c} --tier quick')
                lines = [l for l in r.stdout.split('\n') if l.startswith('VIOLATION') or l.startswith('[')]
                res['checks'][c] = {'rc': r.returncode, 'lines': lines, 'wall_s': round(time.time() - t0, 1)}
                for l in lines:
                    if l.startswith('VIOLATION') and 'replay=' in l:
                        rp = l.split('replay=')[1].split()[0]
                        try:
                            res['checks'][c].setdefault('replays', []).append(json.dumps(json.load(open(rp)))[:600])
                        except Exception:  # noqa
                            pass
        finally:
            sh(f'git -C /repo worktree remove --force {sr}; rm -rf {sr}')
        d = os.path.join(VERIF, 'seeded', name)
        os.makedirs(d, exist_ok=True)
        shutil.copy(patch, os.path.join(d, 'patch.diff'))
        shutil.copy(demo, os.path.join(d, 'demo.py'))
        readme = os.path.join(src, 'README.txt')
        needs = open(readme).read()[:1500] if os.path.exists(readme) else ''
        meta = {'property': prop, 'name': name, 'needs_to_manifest': needs,
                'confirmed_by': 'tools/seeded_eval.py: patch applied in a scratch worktree of /repo; full test suite: %s; demo rc without change %s, with change %s' % (
                    res['test_suite'], res['demo_without_change_rc'], res['demo_with_change_rc']),
                'checks_run': res['checks'],
                'caught': {c: any(l.startswith('VIOLATION') for l in v['lines']) for c, v in res['checks'].items()},
                'caught_with_failing_input': {c: any(l.startswith('VIOLATION') and 'no-failing-input-found' not in l for l in v['lines']) for c, v in res['checks'].items()}}
        json.dump(meta, open(os.path.join(d, 'meta.json'), 'w'), indent=1)
    print(json.dumps({k: v for k, v in res.items() if k != 'demo_with_change_tail'}, indent=1)[:3000])
    # restore generated tables / evidence to the unchanged tree's state
    sh(f'cd {VERIF} && /venv/bin/python tools/gen/gen_tables.py && tools/build.sh')


if __name__ == '__main__':
    main()

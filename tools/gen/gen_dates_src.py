"""Source translator for C18:  lib/gettext.py `boilerplate_date`, `epoch`, `fix_date_format`, `parse_date` and
lib/check/__init__.py `Checker.check_dates`  ->  coq/Generated/DatesSrc.v   (python `ast` -> Gallina text).

Proofs/DatesSrc.v proves every generated definition equal to the hand-written model (Model/Dates.v) for all arguments;
Props/C18.v restates that (C18_source_tie_*).  An edit of the Python code changes the generated text and breaks those proofs.
FAIL CLOSED: any construct not listed here raises Unsupported; a definition-free DatesSrc.v is then written (no stale
translation survives, no tie lemma compiles) and the error is re-raised (gen_rc != 0).
The target vocabulary (pres, pbind, ptag, pseq, exn_isa, the oracle record `pydates`, `pyctx`, str_*, py_*) is
hand-written in coq/Lib/PyDates.v; the generated file imports nothing else.

Results.  Every function body becomes a term of type `pres R`: `PRet v` (it returned v) or `PRaise x` (exception x left it).
  fix_date_format: R = pystr; parse_date: R = DT; check_dates: R = list tagline = the tags emitted, in order.
  All generated functions take the oracle record `O : pydates DT`; check_dates also `C : pyctx` (the attributes of ctx).
Values.  A translated value is (Gallina text, kind); kinds: str, optstr (str or None), none, bool, nat (len, int literals),
  strs (list of str), dt (aware datetime), optgroups / groups (result of _parse_date / its .groups()), exn, unit.
  A PURE assignment `v = e` is a SUBSTITUTION: later reads of v are replaced by the translation of e (expressions of the
  subset have no effects; Python variable names never reach the output, binder names are r1, e2, p3, x4 ...).
Oracles (not translated; fields of O):  s.strip() -> o_strip;  _search_for_date_boilerplate(s) in a test -> o_search_boilerplate
  (bool: a match object is truthy);  _parse_date(s) -> o_parse_date (option groups);  datetime.datetime.strptime(x, '%z')
  -> o_strptime_z,  strptime(x, '%Y-%m-%d %H:%M%z') -> o_strptime_date (any other format: Unsupported);  _timezones ->
  o_timezones;  misc.utc_now() -> o_utc_now;  datetime.datetime(Y, M, D, tzinfo=datetime.timezone.utc) -> o_datetime_utc Y M D;
  a < b, a > b on datetimes -> o_dt_lt a b, o_dt_gt a b.
  ctx.is_template, ctx.is_binary -> fields of C (bool);  ctx.metadata[k] -> ctx_metadata C k (a defaultdict(list): total).
Pure expressions.  'text' -> its code points;  None;  n >= 0 -> nat;  a + b, f'{a} {b}' on str -> ++;  len(x) -> length x;
  x.startswith(p) -> str_startswith x p;  'c' in x (one character) -> str_has c x;  sorted(set(l)) -> py_sorted_set l;
  == != on str -> str_eqb, on nat -> Nat.eqb;  < <= > >= on nat -> Nat.ltb / Nat.leb;  not / and / or on bool -> negb && ||;
  x is None / x is not None on an Optional -> negb (is_some x) / is_some x;
  an Optional NAME used where a str is needed (or m.groups()) -> oget_str x (oget_groups m), ONLY if a dominating test
  established `x is not None` (true branch of `x is not None`, of an `and` containing it; false branch of `x is None`, of an
  `or` containing it; through `not`) and x was not reassigned since; otherwise Unsupported (Python would raise TypeError);
  (a, b, c, d, e) = m.groups() -> the five projections g_date g_time (kind str: groups 1, 2 always take part in a match of
  the untranslated pattern) g_zhour g_zminute g_zabbr (kind optstr);  a str / None passed for an Optional parameter -> Some / None;
  gettext.boilerplate_date, gettext.epoch -> the translated constants.
Raising expressions (type pres T), allowed only as the whole right-hand side of `v = E`, `[v] = E`, as an expression
  statement, or in `return E`:  l[0] -> py_index0 l (IndexError);  _timezones[k] -> py_getitem (KeyError);  [v] = l ->
  py_unpack1 (ValueError unless len 1);  strptime (the oracle's result);  calls of the translated fix_date_format(s, tz_hint=h)
  / parse_date(s) (with the `gettext.` prefix in check_dates, without it inside lib/gettext.py).
Statements (rest = the statements that follow; duplicated into every branch that reaches them).
  v = E (raising) ; rest -> pbind E (fun r => rest);  E ; rest -> pbind E (fun _ => rest);  return e -> PRet e
  if c: A else: B ; rest -> if c then (A; rest) else (B; rest)
  assert c, msg -> if negb c then PRaise (XCrash CAssertion) else rest (msg only decorates the error: dropped; it must be a
      constant or an f-string of local names)
  raise X / raise X(args), X in BoilerplateDate, DateSyntaxError -> PRaise X.. (args must be pure expressions; dropped)
  try: S except K1 [as n]: H1 except K2: H2 else: L ; rest, S ONE statement `v = E`, `[v] = E` or `return E`  ->
      match E with PRet r => (L; rest)  [PRet r for return]
                 | PRaise e => if exn_isa e K1 then (H1; rest) else if exn_isa e K2 then (H2; rest) else PRaise e end
      (handlers in source order; K in ValueError IndexError KeyError [gettext.]DateSyntaxError [gettext.]BoilerplateDate;
      the class statements of the two date exceptions must read exactly `class DateSyntaxError(Exception): pass`,
      `class BoilerplateDate(DateSyntaxError): pass`, which is what exn_isa encodes)
  self.tag('name', args...) ; rest -> ptag (name, [args]) rest;  tags.safestr(e) -> ASafe e, any other str -> AStr e
  for v in L: B ; rest  (check_dates only; L a strs value or a tuple of str constants; no else / break / return) ->
      pseq (LOOP params L) rest  with  Fixpoint LOOP O C params l_ := match l_ with [] => PRet [] | x :: l_ => B end,
      where `continue` and the end of B are the recursive call on l_; params = the local variables read in the loop and not
      assigned in it, in order of their first assignment in the function; a variable assigned in the loop cannot be read
      before its assignment in the same iteration, nor after the loop (Unsupported)
  continue (see for);  pass, docstrings -> nothing.
Module level, checked but not translated: `_timezones = _read_timezones()`, `_parse_date = re.compile(..).match`,
  `_search_for_date_boilerplate = re.compile(..).search` each assigned once; `from lib import gettext / misc / tags` in
  lib/check/__init__.py; the decorator of check_dates must be `checks_header_fields(<str constants>)` (it returns the
  function unchanged); every translated name is defined exactly once in its module.
"""
import ast
import os

REPO = os.environ.get('VERIF_REPO') or '/repo'
TYPES = {'str': 'pystr', 'optstr': 'option pystr', 'bool': 'bool', 'nat': 'nat', 'strs': 'list pystr', 'dt': 'DT',
         'unit': 'unit', 'tags': 'list tagline'}
RAISE = {'BoilerplateDate': 'XBoilerplateDate', 'DateSyntaxError': 'XDateSyntaxError'}
CATCH = {'BoilerplateDate': 'KBoilerplateDate', 'DateSyntaxError': 'KDateSyntaxError', 'ValueError': 'KValueError',
         'IndexError': 'KIndexError', 'KeyError': 'KKeyError'}
STRPTIME = {'%z': ('o_strptime_z', 'unit'), '%Y-%m-%d %H:%M%z': ('o_strptime_date', 'dt')}
# python name -> (Gallina name, positional parameters, keyword-only Optional parameters (default None), kind returned)
FUNCS = {'fix_date_format': ('src_fix_date_format', [('s', 'str')], [('tz_hint', 'optstr')], 'str'),
         'parse_date': ('src_parse_date', [('s', 'str')], [], 'dt')}
GROUPS = [('g_date', 'str'), ('g_time', 'str'), ('g_zhour', 'optstr'), ('g_zminute', 'optstr'), ('g_zabbr', 'optstr')]
NN = '!not-none'     # key of the env entry holding the names known not to be None
BUILTINS = ['len', 'sorted', 'set', 'Exception', 'ValueError', 'IndexError', 'KeyError']
# global names the rules above interpret: a translated function may not bind any of them locally
RESERVED = set(BUILTINS) | set(RAISE) | set(FUNCS) | {'datetime', 're', 'gettext', 'misc', 'tags', 'self', 'ctx', '_timezones', '_parse_date',
                                                       '_search_for_date_boilerplate', 'boilerplate_date', 'epoch'}


class Unsupported(Exception):
    pass


def bad(node, why):
    raise Unsupported('%s: line %s: %s' % (why, getattr(node, 'lineno', '?'), ast.unparse(node)[:100]))


def ind(t):
    return '\n'.join('  ' + ln for ln in t.split('\n'))


def lit(s):
    note = s.replace('(*', '( *').replace('*)', '* )').replace('"', "'")
    return ('[%s]%%N (* %s *)' % ('; '.join(str(ord(c)) for c in s), note)) if s else '(@nil N)'


def strconst(e):
    return isinstance(e, ast.Constant) and type(e.value) is str


def facts(t, truth):
    """names known `is not None` when test t evaluates to `truth`"""
    if isinstance(t, ast.Compare) and len(t.ops) == 1 and isinstance(t.left, ast.Name) \
            and isinstance(t.comparators[0], ast.Constant) and t.comparators[0].value is None:
        return {t.left.id} if isinstance(t.ops[0], ast.IsNot if truth else ast.Is) else set()
    if isinstance(t, ast.BoolOp) and isinstance(t.op, ast.And if truth else ast.Or):
        return set().union(*[facts(v, truth) for v in t.values])
    if isinstance(t, ast.UnaryOp) and isinstance(t.op, ast.Not):
        return facts(t.operand, not truth)
    return set()


class Fn:
    def __init__(self, name, fdef, mod, rkind, selfname=None, ctxname=None):
        self.name, self.fdef, self.mod, self.rkind, self.selfname, self.ctxname = name, fdef, mod, rkind, selfname, ctxname
        self.n, self.loops, self.loopdefs = 0, {}, []

    def fresh(self, p):
        self.n += 1
        return '%s%d' % (p, self.n)

    def head(self, name):
        return '%s O%s' % (name, ' C' if self.rkind == 'tags' else '')

    def sig(self):
        return '{DT : Type} (O : pydates DT)' + (' (C : pyctx)' if self.rkind == 'tags' else '')

    def modname(self, e, name):
        """is e the module-level name `name` of lib/gettext.py, as this module spells it?"""
        if self.mod == 'gettext':
            return isinstance(e, ast.Name) and e.id == name
        return isinstance(e, ast.Attribute) and e.attr == name and isinstance(e.value, ast.Name) and e.value.id == 'gettext'

    # ------------------------------------------------------------ pure expressions -> (text, kind)
    def ex(self, e, env):
        if isinstance(e, ast.Constant):
            if e.value is None:
                return ('None', 'none')
            if strconst(e):
                return (lit(e.value), 'str')
            if type(e.value) is int and e.value >= 0:
                return ('%d%%nat' % e.value, 'nat')
        elif isinstance(e, ast.Name) and e.id in env:
            return env[e.id]
        elif isinstance(e, ast.Attribute):
            if self.mod == 'check' and self.modname(e, 'boilerplate_date'):
                return ('src_boilerplate_date', 'str')
            if self.mod == 'check' and self.modname(e, 'epoch'):
                return ('(src_epoch O)', 'dt')
            if isinstance(e.value, ast.Name) and e.value.id == self.ctxname and e.attr in ('is_template', 'is_binary'):
                return ('(ctx_%s C)' % e.attr, 'bool')
        elif isinstance(e, ast.Subscript) and ast.unparse(e.value) == '%s.metadata' % self.ctxname:
            return ('(ctx_metadata C %s)' % self.want(e.slice, env, 'str'), 'strs')
        elif isinstance(e, ast.BinOp) and isinstance(e.op, ast.Add):
            return ('(%s ++ %s)' % (self.want(e.left, env, 'str'), self.want(e.right, env, 'str')), 'str')
        elif isinstance(e, ast.JoinedStr):
            parts = []
            for v in e.values:
                if isinstance(v, ast.FormattedValue) and v.conversion == -1 and v.format_spec is None:
                    parts.append(self.want(v.value, env, 'str'))
                elif strconst(v):
                    parts.append(lit(v.value))
                else:
                    bad(e, 'f-string part')
            return ('(%s)' % ' ++ '.join(parts), 'str')
        elif isinstance(e, ast.UnaryOp) and isinstance(e.op, ast.Not):
            return ('(negb %s)' % self.want(e.operand, env, 'bool'), 'bool')
        elif isinstance(e, ast.BoolOp):
            return ('(%s)' % (' && ' if isinstance(e.op, ast.And) else ' || ').join(self.want(v, env, 'bool') for v in e.values), 'bool')
        elif isinstance(e, ast.Compare) and len(e.ops) == 1:
            return self.compare(e, e.left, e.ops[0], e.comparators[0], env)
        elif isinstance(e, ast.Call) and not e.keywords:
            f, a = e.func, e.args
            if isinstance(f, ast.Name):
                if f.id == 'len' and len(a) == 1:
                    t, k = self.ex(a[0], env)
                    if k in ('str', 'strs'):
                        return ('(length %s)' % t, 'nat')
                if f.id == 'sorted' and len(a) == 1 and isinstance(a[0], ast.Call) and isinstance(a[0].func, ast.Name) \
                        and a[0].func.id == 'set' and len(a[0].args) == 1 and not a[0].keywords:
                    return ('(py_sorted_set %s)' % self.want(a[0].args[0], env, 'strs'), 'strs')
                if self.mod == 'gettext' and f.id == '_search_for_date_boilerplate' and len(a) == 1:
                    return ('(o_search_boilerplate O %s)' % self.want(a[0], env, 'str'), 'bool')
                if self.mod == 'gettext' and f.id == '_parse_date' and len(a) == 1:
                    return ('(o_parse_date O %s)' % self.want(a[0], env, 'str'), 'optgroups')
            if isinstance(f, ast.Attribute):
                if f.attr == 'strip' and not a:
                    return ('(o_strip O %s)' % self.want(f.value, env, 'str'), 'str')
                if f.attr == 'startswith' and len(a) == 1:
                    return ('(str_startswith %s %s)' % (self.want(f.value, env, 'str'), self.want(a[0], env, 'str')), 'bool')
                if f.attr == 'groups' and not a and isinstance(f.value, ast.Name) and f.value.id in env[NN] \
                        and self.ex(f.value, env)[1] == 'optgroups':
                    return ('(oget_groups %s)' % self.ex(f.value, env)[0], 'groups')
                if self.mod == 'check' and ast.unparse(f) == 'misc.utc_now' and not a:
                    return ('(o_utc_now O)', 'dt')
        bad(e, 'expression')

    def want(self, e, env, kind):
        t, k = self.ex(e, env)
        if k == kind:
            return t
        if kind == 'str' and k == 'optstr' and isinstance(e, ast.Name) and e.id in env[NN]:
            return '(oget_str %s)' % t
        if kind == 'optstr' and k == 'str':
            return '(Some %s)' % t
        if kind == 'optstr' and k == 'none':
            return 'None'
        bad(e, 'expected %s, got %s' % (kind, k))

    def compare(self, e, a, op, b, env):
        if isinstance(op, (ast.Is, ast.IsNot)) and isinstance(b, ast.Constant) and b.value is None:
            t, k = self.ex(a, env)
            if k in ('optstr', 'optgroups'):
                return ('(is_some %s)' % t if isinstance(op, ast.IsNot) else '(negb (is_some %s))' % t, 'bool')
        elif isinstance(op, ast.In) and strconst(a) and len(a.value) == 1:
            return ('(str_has %d %s)' % (ord(a.value), self.want(b, env, 'str')), 'bool')
        elif isinstance(op, (ast.Eq, ast.NotEq, ast.Lt, ast.LtE, ast.Gt, ast.GtE)):
            ka = self.ex(a, env)[1]
            ka = 'str' if ka == 'optstr' else ka          # want() demands the not-None fact
            x, y = self.want(a, env, ka), self.want(b, env, ka)
            if isinstance(op, (ast.Eq, ast.NotEq)) and ka in ('str', 'nat'):
                c = '(%s %s %s)' % ('str_eqb' if ka == 'str' else 'Nat.eqb', x, y)
                return (c if isinstance(op, ast.Eq) else '(negb %s)' % c, 'bool')
            if ka == 'nat' and not isinstance(op, (ast.Eq, ast.NotEq)):
                f, x, y = {ast.Lt: ('Nat.ltb', x, y), ast.LtE: ('Nat.leb', x, y), ast.Gt: ('Nat.ltb', y, x), ast.GtE: ('Nat.leb', y, x)}[type(op)]
                return ('(%s %s %s)' % (f, x, y), 'bool')
            if ka == 'dt' and isinstance(op, (ast.Lt, ast.Gt)):
                return ('(%s O %s %s)' % ('o_dt_lt' if isinstance(op, ast.Lt) else 'o_dt_gt', x, y), 'bool')
        bad(e, 'comparison')

    # ------------------------------------------------------------ raising expressions -> (text : pres T, kind T) | None
    def rex(self, e, env):
        if isinstance(e, ast.Subscript):
            if self.mod == 'gettext' and isinstance(e.value, ast.Name) and e.value.id == '_timezones':
                return ('py_getitem (o_timezones O) %s' % self.want(e.slice, env, 'str'), 'strs')
            if isinstance(e.slice, ast.Constant) and type(e.slice.value) is int and e.slice.value == 0:
                return ('py_index0 %s' % self.want(e.value, env, 'strs'), 'str')
        if isinstance(e, ast.Call):
            if ast.unparse(e.func) == 'datetime.datetime.strptime' and len(e.args) == 2 \
                    and not e.keywords and strconst(e.args[1]) and e.args[1].value in STRPTIME:
                o, k = STRPTIME[e.args[1].value]
                return ('%s O %s' % (o, self.want(e.args[0], env, 'str')), k)
            for py, (name, pos, kwonly, rk) in FUNCS.items():
                if self.modname(e.func, py):
                    if len(e.args) != len(pos) or any(isinstance(a, ast.Starred) for a in e.args):
                        bad(e, 'arguments')
                    kw = {k.arg: k.value for k in e.keywords}
                    if len(kw) != len(e.keywords) or not set(kw) <= {n for n, _ in kwonly}:
                        bad(e, 'keyword arguments')
                    ts = [self.want(a, env, k) for a, (_, k) in zip(e.args, pos)]
                    ts += [self.want(kw[n], env, k) if n in kw else 'None' for n, k in kwonly]
                    return ('%s O %s' % (name, ' '.join(ts)), rk)
        return None

    def rstmt(self, s, env):
        """`v = E` / `[v] = E` / `E` / `return E` with E raising -> (text : pres T, kind T, name bound or None, is return) | None"""
        if isinstance(s, ast.Assign) and len(s.targets) == 1:
            tg = s.targets[0]
            if isinstance(tg, ast.Name):
                r = self.rex(s.value, env)
                return r and r + (tg.id, False)
            if isinstance(tg, ast.List) and len(tg.elts) == 1 and isinstance(tg.elts[0], ast.Name):
                r = self.rex(s.value, env)
                if r and r[1] == 'strs':
                    return ('pbind (%s) py_unpack1' % r[0], 'str', tg.elts[0].id, False)
                return ('py_unpack1 %s' % self.want(s.value, env, 'strs'), 'str', tg.elts[0].id, False)
        if isinstance(s, (ast.Expr, ast.Return)) and s.value is not None:
            r = self.rex(s.value, env)
            return r and r + (None, isinstance(s, ast.Return))
        return None

    @staticmethod
    def bind(env, name, val):
        env = dict(env)
        env[name] = val
        env[NN] = env[NN] - {name}
        return env

    # ------------------------------------------------------------ statements -> text
    def tr(self, stmts, env, k):
        if not stmts:
            return k['end'](stmts)
        s, rest = stmts[0], stmts[1:]
        if isinstance(s, ast.Pass) or (isinstance(s, ast.Expr) and strconst(s.value)):
            return self.tr(rest, env, k)
        if isinstance(s, ast.Continue) and k['cont']:
            return k['cont'](s)
        if isinstance(s, ast.Raise) and s.cause is None and s.exc is not None:
            x, args = (s.exc.func, s.exc.args) if isinstance(s.exc, ast.Call) else (s.exc, [])
            if isinstance(x, ast.Name) and x.id in RAISE and self.mod == 'gettext' \
                    and not getattr(s.exc, 'keywords', None):
                for a in args:
                    if not (isinstance(a, ast.Name) and env.get(a.id, ('', ''))[1] == 'exn'):
                        self.ex(a, env)          # dropped, but must be a pure expression of the subset
                return 'PRaise ' + RAISE[x.id]
        if isinstance(s, ast.Assert):
            m = s.msg
            if m is not None and not strconst(m) and not (isinstance(m, ast.JoinedStr) and all(
                    strconst(v) or (isinstance(v, ast.FormattedValue) and isinstance(v.value, ast.Name) and v.value.id in env
                                    and v.format_spec is None) for v in m.values)):
                bad(s, 'assert message')
            return 'if negb %s then PRaise (XCrash CAssertion) else\n%s' % (self.want(s.test, env, 'bool'), self.tr(rest, env, k))
        if isinstance(s, ast.If):
            c = self.want(s.test, env, 'bool')
            yes = dict(env, **{NN: env[NN] | (facts(s.test, True) & set(env))})
            no = dict(env, **{NN: env[NN] | (facts(s.test, False) & set(env))})
            return 'if %s then\n%s\nelse\n%s' % (c, ind(self.tr(s.body + rest, yes, k)), ind(self.tr(s.orelse + rest, no, k)))
        if isinstance(s, ast.Try):
            return self.trytr(s, rest, env, k)
        if isinstance(s, ast.For):
            return self.loop(s, rest, env, k)
        r = self.rstmt(s, env)
        if r:
            text, kind, name, isret = r
            if isret:
                if kind != self.rkind:
                    bad(s, 'return of kind ' + kind)
                return text
            v = self.fresh('r')
            return 'pbind (%s) (fun %s =>\n%s)' % (text, v if name else '_', ind(self.tr(rest, self.bind(env, name, (v, kind)) if name else env, k)))
        if isinstance(s, ast.Return) and s.value is not None and self.rkind != 'tags':
            return 'PRet %s' % self.want(s.value, env, self.rkind)
        if isinstance(s, ast.Expr) and isinstance(s.value, ast.Call) and self.rkind == 'tags' \
                and ast.unparse(s.value.func) == '%s.tag' % self.selfname and not s.value.keywords \
                and s.value.args and strconst(s.value.args[0]):
            args = []
            for a in s.value.args[1:]:
                if isinstance(a, ast.Call) and ast.unparse(a.func) == 'tags.safestr' and len(a.args) == 1 and not a.keywords:
                    args.append('ASafe %s' % self.want(a.args[0], env, 'str'))
                else:
                    args.append('AStr %s' % self.want(a, env, 'str'))
            return 'ptag (%s, [%s])\n(%s)' % (lit(s.value.args[0].value), '; '.join(args), self.tr(rest, env, k))
        if isinstance(s, ast.Assign) and len(s.targets) == 1:
            tg = s.targets[0]
            if isinstance(tg, ast.Name):
                val = self.ex(s.value, env)
                if val[1] == 'optstr' and isinstance(s.value, ast.Name) and s.value.id in env[NN]:
                    val = (self.want(s.value, env, 'str'), 'str')          # a copy of an Optional known not to be None
                return self.tr(rest, self.bind(env, tg.id, val), k)
            if isinstance(tg, ast.Tuple) and all(isinstance(x, ast.Name) for x in tg.elts) and len({x.id for x in tg.elts}) == len(GROUPS):
                t, kd = self.ex(s.value, env)
                if kd == 'groups':
                    for x, (proj, pk) in zip(tg.elts, GROUPS):
                        env = self.bind(env, x.id, ('(%s %s)' % (proj, t), pk))
                    return self.tr(rest, env, k)
        bad(s, 'statement')

    def trytr(self, s, rest, env, k):
        if s.finalbody or len(s.body) != 1 or not s.handlers:
            bad(s, 'try')
        r = self.rstmt(s.body[0], env)
        if not r:
            bad(s, 'try body')
        text, kind, name, isret = r
        v, x = self.fresh('r'), self.fresh('e')
        if isret:
            if kind != self.rkind or s.orelse:
                bad(s, 'return in try')
            ok = 'PRet %s' % v
        else:
            ok = self.tr(s.orelse + rest, self.bind(env, name, (v, kind)) if name else env, k)
        out = 'PRaise %s' % x
        for h in reversed(s.handlers):
            c = h.type
            cname = c.id if isinstance(c, ast.Name) and (c.id not in RAISE or self.mod == 'gettext') else \
                c.attr if isinstance(c, ast.Attribute) and c.attr in RAISE and self.modname(c, c.attr) else None
            if cname not in CATCH:
                bad(h, 'except clause')
            henv = self.bind(env, h.name, (x, 'exn')) if h.name else env
            out = 'if exn_isa %s %s then\n%s\nelse %s' % (x, CATCH[cname], ind(self.tr(h.body + rest, henv, k)), out)
        return 'match %s with\n| PRet %s =>\n%s\n| PRaise %s =>\n%s\nend' % (text, v, ind(ok), x, ind(out))

    def loop(self, s, rest, env, k):
        if self.rkind != 'tags' or s.orelse or not isinstance(s.target, ast.Name):
            bad(s, 'for')
        if isinstance(s.iter, ast.Tuple) and s.iter.elts and all(strconst(x) for x in s.iter.elts):
            it = '[%s]' % '; '.join(lit(x.value) for x in s.iter.elts)
        else:
            it = self.want(s.iter, env, 'strs')
        names = [n for n in ast.walk(s) if isinstance(n, ast.Name)]
        stored = {n.id for n in names if not isinstance(n.ctx, ast.Load)}
        stored |= {h.name for h in ast.walk(s) if isinstance(h, ast.ExceptHandler) and h.name}
        loaded = {n.id for b in s.body for n in ast.walk(b) if isinstance(n, ast.Name) and isinstance(n.ctx, ast.Load)}
        live = [(n, env[n][1]) for n in env if n != NN and n in loaded and n not in stored]
        if any(kd not in TYPES for _, kd in live):
            bad(s, 'kind of a variable read in the loop')
        if id(s) not in self.loops:
            name = '%s_loop%d' % (self.name, len(self.loops) + 1)
            self.loops[id(s)] = (name, live)
            ps = [self.fresh('p') for _ in live]
            x = self.fresh('x')
            benv = {n: (p, kd) for (n, kd), p in zip(live, ps)}
            benv[s.target.id] = (x, 'str')
            benv[NN] = frozenset()
            again = lambda _: '%s %s' % (self.head(name), ' '.join(ps + ['l_']))
            body = self.tr(s.body, benv, {'end': again, 'cont': again})
            self.loopdefs.append('Fixpoint %s %s%s (l_ : list pystr) {struct l_} : pres (list tagline) :=\n  match l_ with\n  | [] => PRet []\n  | %s :: l_ =>\n%s\n  end.\n' % (
                name, self.sig(), ''.join(' (%s : %s)' % (p, TYPES[kd]) for p, (_, kd) in zip(ps, live)), x, ind(ind(body))))
        name, live0 = self.loops[id(s)]
        if live0 != live:
            bad(s, 'the loop is reached with different variables on different paths')
        after = {n: v for n, v in env.items() if n == NN or n not in stored}
        after[NN] = env[NN] - stored
        return 'pseq (%s)\n(%s)' % (' '.join([self.head(name)] + [env[n][0] for n, _ in live] + [it]), self.tr(rest, after, k))

    # ------------------------------------------------------------ whole function
    def run(self, params):
        env = {n: ('a_' + n, kd) for n, kd in params}
        env[NN] = frozenset()
        # the parameter names are fixed by plain_def; no other binding (assignment, `as`, nested def) of an interpreted name
        local = {n.id for n in ast.walk(self.fdef) if isinstance(n, ast.Name) and not isinstance(n.ctx, ast.Load)}
        local |= {getattr(n, 'name', None) for n in ast.walk(self.fdef) if n is not self.fdef}
        if local & RESERVED or any(isinstance(n, (ast.Global, ast.Nonlocal)) for n in ast.walk(self.fdef)):
            bad(self.fdef, 'a name the translator interprets is bound locally')

        def end(_):
            if self.rkind != 'tags':
                bad(self.fdef, 'the end of the body is reached (returns None)')
            return 'PRet []'
        text = self.tr(self.fdef.body, env, {'end': end, 'cont': None})
        return '\n'.join(self.loopdefs + ['Definition %s %s%s : pres (%s) :=\n%s.\n' % (
            self.name, self.sig(), ''.join(' (a_%s : %s)' % (n, TYPES[kd]) for n, kd in params), TYPES[self.rkind], ind(text))])


def bindings(tree, name):
    """module-scope bindings of `name` (def / class / assignment / import / for / with / except target, nested blocks included);
    a `global name` anywhere counts as a second one"""
    tops, n = [], 0
    def walk(node, top):
        nonlocal n
        for ch in ast.iter_child_nodes(node):
            scope = isinstance(ch, (ast.FunctionDef, ast.AsyncFunctionDef, ast.ClassDef, ast.Lambda))
            if top and ((scope and getattr(ch, 'name', None) == name)
                        or (isinstance(ch, ast.Name) and ch.id == name and not isinstance(ch.ctx, ast.Load))
                        or (isinstance(ch, ast.alias) and (ch.asname or ch.name).split('.')[0] == name)
                        or (isinstance(ch, ast.ExceptHandler) and ch.name == name)):
                n += 1
                tops.append(node if isinstance(ch, (ast.Name, ast.alias)) else ch)
            if isinstance(ch, (ast.Global, ast.Nonlocal)) and name in ch.names:
                n += 2
            walk(ch, top and not scope)
    walk(tree, True)
    return n, tops


def once(tree, name):
    """the module-level statement binding `name`; it must be its only binding at module scope"""
    n, tops = bindings(tree, name)
    if n != 1 or tops[0] not in tree.body or (isinstance(tops[0], ast.Assign) and not (len(tops[0].targets) == 1 and isinstance(tops[0].targets[0], ast.Name))):
        raise Unsupported('%s must be bound exactly once, by a plain statement at module level (found %d)' % (name, n))
    return tops[0]


def unshadowed(tree, where):
    for b in BUILTINS:
        if bindings(tree, b)[0]:
            raise Unsupported('%s: the builtin %s is rebound' % (where, b))


def plain_def(f, args, kwonly=()):
    a = f.args
    if not isinstance(f, ast.FunctionDef) or a.posonlyargs or a.vararg or a.kwarg or a.defaults or f.returns \
            or [x.arg for x in a.args] != list(args) or [x.arg for x in a.kwonlyargs] != list(kwonly) \
            or any(not (isinstance(d, ast.Constant) and d.value is None) for d in a.kw_defaults):
        bad(f, 'signature')


def generate():
    out = ['(* generated by tools/gen/gen_dates_src.py from lib/gettext.py and lib/check/__init__.py; rules in that file - do not edit *)',
           'From Coq Require Import List NArith ZArith Bool.', 'From I18n Require Import Lib.Outcome Lib.PyDates.',
           'Import ListNotations.', 'Local Open Scope bool_scope.', '']
    g = ast.parse(open(os.path.join(REPO, 'lib', 'gettext.py'), encoding='utf-8').read())
    for cls, base in (('DateSyntaxError', 'Exception'), ('BoilerplateDate', 'DateSyntaxError')):
        c = once(g, cls)
        if ast.unparse(c) != 'class %s(%s):\n    pass' % (cls, base):
            bad(c, 'exception class')
    unshadowed(g, 'lib/gettext.py')
    v = once(g, '_timezones').value
    if ast.unparse(v) != '_read_timezones()':
        bad(v, '_timezones')
    for name, attr in (('_parse_date', 'match'), ('_search_for_date_boilerplate', 'search')):
        v = once(g, name).value
        if not (isinstance(v, ast.Attribute) and v.attr == attr and isinstance(v.value, ast.Call) and ast.unparse(v.value.func) == 're.compile'):
            bad(v, name)
    for m in ('datetime', 're'):
        if not any(isinstance(s, ast.Import) and [a.name for a in s.names] == [m] and s.names[0].asname is None for s in g.body):
            raise Unsupported('lib/gettext.py: import ' + m)
        once(g, m)
    v = once(g, 'boilerplate_date').value
    if not strconst(v):
        bad(v, 'boilerplate_date')
    out.append('Definition src_boilerplate_date : pystr := %s.\n' % lit(v.value))
    v = once(g, 'epoch').value
    kw = {k.arg: ast.unparse(k.value) for k in v.keywords} if isinstance(v, ast.Call) else None
    if kw != {'tzinfo': 'datetime.timezone.utc'} or ast.unparse(v.func) != 'datetime.datetime' or len(v.args) != 3 \
            or not all(isinstance(a, ast.Constant) and type(a.value) is int and a.value >= 0 for a in v.args):
        bad(v, 'epoch')
    out.append('Definition src_epoch {DT : Type} (O : pydates DT) : DT := o_datetime_utc O %s.\n' % ' '.join(str(a.value) for a in v.args))
    for py in ('parse_date', 'fix_date_format'):
        name, pos, kwonly, rk = FUNCS[py]
        f = once(g, py)
        plain_def(f, [n for n, _ in pos], [n for n, _ in kwonly])
        if f.decorator_list:
            bad(f, 'decorator')
        out += ['(* lib/gettext.py %s *)' % py, Fn(name, f, 'gettext', rk).run(pos + kwonly)]
    c = ast.parse(open(os.path.join(REPO, 'lib', 'check', '__init__.py'), encoding='utf-8').read())
    unshadowed(c, 'lib/check/__init__.py')
    for m in ('gettext', 'misc', 'tags'):
        if not any(isinstance(s, ast.ImportFrom) and s.module == 'lib' and s.level == 0 and [(a.name, a.asname) for a in s.names] == [(m, None)] for s in c.body):
            raise Unsupported('lib/check/__init__.py: from lib import ' + m)
        once(c, m)
    cls = once(c, 'Checker')
    fs = [s for s in ast.walk(c) if isinstance(s, (ast.FunctionDef, ast.AsyncFunctionDef)) and s.name == 'check_dates']
    if len(fs) != 1 or fs[0] not in cls.body:
        raise Unsupported('Checker.check_dates must be defined exactly once')
    f = fs[0]
    plain_def(f, ['self', 'ctx'])
    if len(f.decorator_list) != 1 or not (isinstance(f.decorator_list[0], ast.Call) and ast.unparse(f.decorator_list[0].func) == 'checks_header_fields'
                                          and not f.decorator_list[0].keywords and all(strconst(a) for a in f.decorator_list[0].args)):
        bad(f, 'decorator')
    out += ['(* lib/check/__init__.py Checker.check_dates *)', Fn('src_check_dates', f, 'check', 'tags', 'self', 'ctx').run([])]
    return '\n'.join(out)


def main(emit):
    try:
        text = generate()
    except Exception as exc:
        # fail closed: the file below compiles (so its .vo is replaced) but defines none of the functions
        why = ('%s: %s' % (type(exc).__name__, exc)).replace('(*', '( *').replace('*)', '* )')
        emit('DatesSrc.v', '(* TRANSLATION FAILED: %s *)\nDefinition dates_source_translation_failed := tt.\n' % why)
        raise
    emit('DatesSrc.v', text)


if __name__ == '__main__':
    main(lambda name, text: print(text))

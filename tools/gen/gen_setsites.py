"""Translator for C03: every place in /repo's checker code where a set / frozenset / dict-key algebra
is consumed in an order-sensitive way (for loop, str.join, list(), tuple(), star expansion, unpacking of more
than one element, next(iter())) without going through an order-insensitive consumer (sorted, min, max, len,
any, all, sum, set, frozenset, membership).  -> coq/Generated/SetSites.v

Set-typed expressions are recognised syntactically (set displays and comprehensions, set()/frozenset() calls,
& | - ^ with such an operand or with .keys(), names assigned only such expressions in the same function or at
module level, and a list of known set-valued attributes).  This is a conservative pattern matcher, not a
type checker; it is part of the trusted base and complemented by runs under different hash seeds."""
import ast
import os

REPO = os.environ.get('VERIF_REPO') or '/repo'
FILES = ['lib/cli.py', 'lib/check/__init__.py', 'lib/check/msgrepr.py', 'lib/check/msgformat/__init__.py',
         'lib/check/msgformat/c.py', 'lib/check/msgformat/python.py', 'lib/check/msgformat/pybrace.py',
         'lib/check/msgformat/perlbrace.py', 'lib/strformat/c.py', 'lib/strformat/python.py', 'lib/strformat/pybrace.py',
         'lib/strformat/perlbrace.py', 'lib/gettext.py', 'lib/ling.py', 'lib/encodings.py', 'lib/polib4us.py',
         'lib/moparser.py', 'lib/intexpr.py', 'lib/misc.py', 'lib/tags.py', 'lib/domains.py', 'lib/xml.py', 'lib/iconv.py']
SET_ATTRS = {'types', 'formats', 'ignore_tags'}          # attributes known to hold sets
SET_ATTRS_BY_FILE = {'lib/check/msgformat/perlbrace.py': {'arguments'}, 'lib/strformat/perlbrace.py': {'arguments'}}
INSENSITIVE = {'sorted', 'min', 'max', 'len', 'any', 'all', 'sum', 'set', 'frozenset', 'bool', 'isinstance', 'dict'}

# order-sensitive sites that are harmless, with the reason (reviewed by hand; keyed on file and source text)
BENIGN = {
    ('lib/check/__init__.py', "str.join('|', regexs)"): 'alternation of regexes: whether re.search finds a match does not depend on the order of alternatives',
    ('lib/encodings.py', 'for _key in set(_portable_encodings) | set(_extra_encodings)'): 'module initialisation filling a dict keyed by _key; no output, no order-dependent state',
}


def coq_str(s):
    return '[' + '; '.join(str(ord(c)) for c in s) + ']%N'


class Scan(ast.NodeVisitor):
    def __init__(self, rel):
        self.rel = rel
        self.sites = []
        self.setnames = [set()]
        self.parents = {}

    # ---- which expressions are sets
    def is_set(self, n):
        if isinstance(n, (ast.Set, ast.SetComp)):
            return True
        if isinstance(n, ast.Call):
            f = n.func
            if isinstance(f, ast.Name) and f.id in ('set', 'frozenset'):
                return True
            if isinstance(f, ast.Attribute) and f.attr in ('keys',) and False:
                return True
            if isinstance(f, ast.Attribute) and f.attr in ('union', 'intersection', 'difference', 'symmetric_difference', 'copy') and self.is_set(f.value):
                return True
        if isinstance(n, ast.BinOp) and isinstance(n.op, (ast.BitAnd, ast.BitOr, ast.Sub, ast.BitXor)):
            if self.is_set(n.left) or self.is_set(n.right) or self.is_keys(n.left) or self.is_keys(n.right):
                return True
        if isinstance(n, ast.Name) and any(n.id in s for s in self.setnames):
            return True
        if isinstance(n, ast.Attribute) and (n.attr in SET_ATTRS or n.attr in SET_ATTRS_BY_FILE.get(self.rel, ())):
            return True
        if isinstance(n, ast.IfExp):
            return self.is_set(n.body) or self.is_set(n.orelse)
        return False

    @staticmethod
    def is_keys(n):
        return isinstance(n, ast.Call) and isinstance(n.func, ast.Attribute) and n.func.attr == 'keys'

    def derived(self, n):
        """an ordered sequence whose order comes from a set: generator / list comprehension over a set, list(set), tuple(set)"""
        if isinstance(n, (ast.GeneratorExp, ast.ListComp)):
            return any(self.is_set(g.iter) or self.derived(g.iter) for g in n.generators)
        if isinstance(n, ast.Call) and isinstance(n.func, ast.Name) and n.func.id in ('list', 'tuple', 'iter', 'reversed') and n.args:
            return self.is_set(n.args[0]) or self.derived(n.args[0])
        if isinstance(n, ast.Starred):
            return self.is_set(n.value) or self.derived(n.value)
        return False

    def collect_names(self, body):
        """names that are assigned a set-typed expression somewhere in this scope (iterated to a fixpoint)"""
        assigns = {}
        for node in ast.walk(ast.Module(body=body, type_ignores=[])):
            if isinstance(node, ast.Assign):
                for t in node.targets:
                    if isinstance(t, ast.Name):
                        assigns.setdefault(t.id, []).append(node.value)
            elif isinstance(node, ast.AugAssign) and isinstance(node.target, ast.Name):
                assigns.setdefault(node.target.id, []).append(node.value if isinstance(node.op, (ast.BitOr, ast.BitAnd, ast.Sub, ast.BitXor)) else ast.Constant(0))
            elif isinstance(node, (ast.For, ast.comprehension)):
                t = node.target
                for nm in ast.walk(t):
                    if isinstance(nm, ast.Name):
                        assigns.setdefault(nm.id, []).append(ast.Constant(0))
        names = set()
        changed = True
        while changed:
            changed = False
            self.setnames.append(names)
            for nm, vals in assigns.items():
                if nm not in names and any(self.is_set(v) for v in vals):
                    names.add(nm)
                    changed = True
            self.setnames.pop()
        return names

    # ---- sites
    def add(self, node, what, expr):
        src = ast.unparse(expr)
        self.sites.append((self.rel, node.lineno, what, src))

    def consumer_insensitive(self, node):
        """is this expression (directly) an argument of an order-insensitive consumer?"""
        p = self.parents.get(node)
        while isinstance(p, (ast.GeneratorExp, ast.ListComp, ast.comprehension, ast.Starred)):
            node = p
            p = self.parents.get(p)
        if isinstance(p, ast.Call):
            f = p.func
            if isinstance(f, ast.Name) and f.id in INSENSITIVE:
                return True
            if isinstance(f, ast.Attribute) and f.attr in ('nsmallest', 'nlargest', 'update', 'issubset', 'issuperset', 'isdisjoint', 'get_close_matches'):
                return True
        if isinstance(p, ast.Compare):
            return True
        return False

    def scan_scope(self, body):
        self.setnames.append(self.collect_names(body))
        for stmt in body:
            for node in ast.walk(stmt):
                if isinstance(node, (ast.FunctionDef, ast.ClassDef)) and node is not stmt:
                    continue
                if isinstance(node, ast.For) and (self.is_set(node.iter) or self.derived(node.iter)):
                    self.sites.append((self.rel, node.lineno, 'for', 'for %s in %s' % (ast.unparse(node.target), ast.unparse(node.iter))))
                elif isinstance(node, (ast.GeneratorExp, ast.ListComp)) and self.derived(node) and not self.consumer_insensitive(node):
                    p = self.parents.get(node)
                    if isinstance(p, ast.Call) and isinstance(p.func, ast.Attribute) and p.func.attr == 'join':
                        self.add(node, 'join', p)
                    elif isinstance(p, ast.Call):
                        self.add(node, 'call-arg', p)
                    else:
                        self.add(node, 'sequence', node)
                elif isinstance(node, ast.Call):
                    f = node.func
                    if isinstance(f, ast.Attribute) and f.attr == 'join' and node.args and (self.is_set(node.args[-1])):
                        self.add(node, 'join', node)
                    elif isinstance(f, ast.Name) and f.id in ('list', 'tuple', 'next', 'iter', 'enumerate', 'zip', 'map', 'reversed') and node.args and \
                            any(self.is_set(a) for a in node.args) and not self.consumer_insensitive(node):
                        self.add(node, f.id, node)
                    else:
                        for a in node.args:
                            if isinstance(a, ast.Starred) and self.is_set(a.value):
                                self.add(node, 'star', node)
                elif isinstance(node, ast.Assign) and isinstance(node.targets[0], (ast.Tuple, ast.List)) and self.is_set(node.value):
                    if len(node.targets[0].elts) > 1 or any(isinstance(e, ast.Starred) for e in node.targets[0].elts):
                        self.add(node, 'unpack', node)
        self.setnames.pop()

    def run(self, tree):
        for p in ast.walk(tree):
            for c in ast.iter_child_nodes(p):
                self.parents[c] = p
        mod_names = self.collect_names(tree.body)
        self.setnames.append(mod_names)
        scopes = [tree.body]
        for node in ast.walk(tree):
            if isinstance(node, (ast.FunctionDef, ast.AsyncFunctionDef)):
                scopes.append(node.body)
        for b in scopes:
            self.scan_scope(b)
        self.setnames.pop()


def main(emit):
    sites = []
    for rel in FILES:
        path = os.path.join(REPO, rel)
        if not os.path.exists(path):
            raise SystemExit('missing ' + rel)
        tree = ast.parse(open(path, encoding='utf-8').read())
        sc = Scan(rel)
        sc.run(tree)
        sites += sc.sites
    sites = sorted(set(sites))
    rows = []
    for rel, ln, what, src in sites:
        benign = BENIGN.get((rel, src))
        rows.append('  (%s, %d%%N, %s, %s)  (* %s *)' % (coq_str(rel), ln, coq_str(src), 'true' if benign else 'false',
                                                        (benign or 'ORDER-SENSITIVE').replace('*)', '* )')))
    emit('SetSites.v', '(* generated by tools/gen/gen_setsites.py from the python ast of /repo/lib:\n'
         '   order-sensitive consumptions of set-typed expressions; (file, line, source, reviewed-benign) *)\n'
         'From Coq Require Import NArith List Bool.\nImport ListNotations.\n\n'
         'Definition order_sensitive_sites : list (list N * N * list N * bool) := [\n' + ';\n'.join(rows) + '\n].\n')

"""Source translator for C07 (and C01):  lib/gettext.py `parse_plural_expression`, `parse_plural_forms` and lib/check/__init__.py
`Checker.check_plurals` (the whole method)  ->  coq/Generated/PluralsSrc.v  (python `ast` -> Gallina text).

Proofs/PluralsSrc.v proves the generated definitions equal to the hand-written model (Model/PluralForms.v, PluralFormsHead.v);
Props/C07.v and Props/C01.v restate that (C07_source_tie_*, C01_source_tie_check_plurals_total).  An edit of the Python code
changes the generated text and those proofs stop compiling.  FAIL CLOSED: anything outside the subset below raises
Unsupported; the function concerned is then emitted as `Definition <name> : unit := tt.` (no tie lemma compiles) and main()
raises.  The Gallina helpers used below are hand-written in coq/Model/PluralFormsPy.v and coq/Lib/PySrc.v.

Result of a function body: `sres T` (SRet v = return v; SAssert = failing assert; SRaise x = exception x).  check_plurals
returns nothing but has two effects, which are threaded as variables: out_ (the tags emitted so far, in order) and
ctx_plural_preimage; its every `return` / end of body is `SRet (out_, ctx_plural_preimage)`.
Everything external is a field of the record W : pl_world (tables ATOMS / ATTRS / METHODS and call()): the compiled regex's
.search (its pattern is emitted as the constant src_plural_forms_regex; parse_plural_forms is translated twice, with the
keyword-only `strict` statically True / False), match.group / start / end, int(x, 10), intexpr.Parser().parse, expr(n),
expr.codomain(), expr.period(), ctx.metadata['Plural-Forms'], ctx.language, .get_plural_forms(), ctx.is_template, ctx.file
and the four message attributes read.  Names are assumed to have their usual meaning (builtins, the imported modules); the
names of table RESERVED are never accepted as assignment targets.

Kinds (static types): Z, bool, str, E (Expression), M (match), L, G (message), zinf (int or float inf), smsg, rtext, range,
targ; none (statically None), deco (text that only decorates a diagnostic: no Gallina value), nil ([] / {} of unknown element
kind), parser, keys; opt K, list K, tup K.., dict V (int keys; a finite map as its key-sorted association list: dicts are
never iterated directly).  Where control paths meet, kinds are joined: none + K = opt K, Z + zinf = zinf, nil + list K =
list K, componentwise on tuples; a variable whose kinds do not join, or that is not assigned on every path, is unusable
afterwards.  Python variable x is the Gallina binder v_x (rebinding = shadowing).
Lists and dicts are values: `l += [..]`, `d[k] = v`, `d[k] += [i]` are accepted only on a variable that holds a list / dict
created by a literal or collections.defaultdict(list) in this function and not shared since (no `y = x`, no container inside
a tuple / list / dict value; dict(x) ends it for x).

Control.  Statements are translated in continuation-passing style: tr(stmts, env, K) where K says where `end of list`,
break, continue and each exception class caught by an enclosing `except` go.
  S; rest   when S can complete normally at several places and rest is not empty: rest becomes a continuation, a top-level
            `Definition <f>_k<i> W <the variables it reads>`, and each place calls it with the current values (not inside
            a loop body).  With one such place rest is translated there; with none -> reject.  (The places and the kinds
            of the variables there are found by a dry run of the translation of S.)
  if c: A else: B   when A and B only assign / tag (no call that can raise, no assert, no control transfer):
            `let '(x, y) := if c then (A; (x, y)) else (B; (x, y)) in rest` over the variables stored in A or B
            (nothing at all when these are all `deco`).  Otherwise `if c then A' else B'` with continuations as above.
  if x is None / is not None (x a variable or an input field of kind opt K)  -> `match x with Some v_x => .. | None => .. end`;
  `if a and b:` without else, where a conjunct is such a test or contains a CALL -> nested ifs;  `if e cmp CALL:` binds
  CALL first (e must be pure);  a statically known test keeps one branch.
  for T in L: B [else: C] ; rest -> top-level `Fixpoint <f>_loop<i> W <variables> (l_ : list _)`: `[]` => C then rest;
            `T :: l_` => B where end of B / continue = the recursive call on l_ with the current values, break = rest.
            L: a list, range(n) (zrange_list), sorted(<dict>), sorted(<dict>.items()).  No loop inside a loop body.
  try: B except X1: H1 except X2: H2 ; rest -> B with the handlers added to K; every raise site in B whose exception is
            in Xi continues with Hi (then rest).  Classes: table EXN (PluralExpressionSyntaxError is checked to be a
            subclass of PluralFormsSyntaxError and both are XPluralForms).  No else / finally / `as` / bare except.
  v = CALL / (a, b) = CALL / return CALL / if e cmp CALL -> `scall CALL (fun v => rest) <dispatch>` where <dispatch> sends an
            exception raised by CALL to the enclosing handlers, else SRaise.  CALL (can raise; call()): expr(i) for a variable
            of kind E or opt E (None(i) is a TypeError), x.codomain() / x.period() (may return None: sopt), int(x, 10),
            parser.parse(s), misc.format_range(r, max=N), the translated functions, and
            [(a, b) for a, b in map(gettext.parse_plural_forms, L) if c] -> smap then filter.
  return / return e; raise C; assert c -> `if negb c then SAssert else rest`; pass; break; continue.
  [x] = e, [[a, b]] = e -> `match e with [x] => rest | _ => <ValueError> end`;  x = y = None;  d[k] = v -> dict_set;
  d[k] += [i] on collections.defaultdict(list) -> dd_append;  l += [a, ..] -> l ++ [a; ..];  ctx.plural_preimage = e.
  self.tag(NAME, args..) -> `out_ ++ [T..]` (table TAGS): deco / constant arguments are dropped, the rest must have
            exactly the kinds recorded for NAME; the -unused- variants carry `false`.  Messages (table MSGS):
            f'f({i}) = {fi} >= {n}', safe_format('f({}): integer overflow', i), .. are matched by their constant parts.
Expressions (pure, cannot raise): int / None / True / False / 1e999 (PInf); names; + - *; < <= > >= == != on ints (int ==
  opt int; zinf only <); x is None; not; and / or (on bools, or as a test); truth of int, str, list, dict, opt list; len;
  k in d / not in d; tuples; s[:a], s[a:] (str_to, str_from); l[:-1] (removelast); sum((a, b)); range(a) / range(a, b) as the
  pair (lo, hi); sorted(set(l)) on strings; sorted(d), sorted(d.items()), d.keys() (only unpacked), dict(d);
  collections.defaultdict(list); m.group(i), m.start(), m.end(); the inputs and attributes of tables ATOMS / ATTRS / METHODS.
Decoration (no value, assumed not to raise): string constants, f-strings / tags.safe_format / tags.safestr / str.join /
  message_repr over values of kind Z, str, deco, list str, G.
"""
import ast
import os
import re

REPO = os.environ.get('VERIF_REPO') or '/repo'
BASE = {'Z': 'Z', 'bool': 'bool', 'str': 'str', 'E': 'E', 'M': 'M', 'L': 'L', 'G': 'G', 'zinf': 'zinf', 'smsg': 'smsg',
        'rtext': '(Z * Z * Z)', 'range': '(Z * Z)', 'targ': 'targ', 'stag': 'stag'}
NOVALUE = ('none', 'deco', 'nil', 'parser', 'strconst', 'fresh')
# names whose usual meaning the tables below rely on: never assignment targets
RESERVED = {'self', 'ctx', 'len', 'sorted', 'set', 'range', 'sum', 'dict', 'int', 'map', 'str', 'tags', 'misc', 'gettext', 'intexpr', 'collections', 're',
            'message_repr', '_parse_plural_forms', 'parse_plural_expression', 'PluralFormsSyntaxError', 'PluralExpressionSyntaxError',
            'OverflowError', 'ZeroDivisionError'}
ZZ = ('tup', 'Z', 'Z')
ATOMS = {"ctx.metadata['Plural-Forms']": ('(w_values W)', ('list', 'str')), 'ctx.language': ('(w_language W)', ('opt', 'L')),
         'ctx.is_template': ('(w_is_template W)', 'bool'), 'ctx.file': ('(w_file W)', ('list', 'G'))}
ATTRS = {('G', 'obsolete'): ('(w_obsolete W %s)', 'bool'), ('G', 'msgid_plural'): ('(w_msgid_plural W %s)', ('opt', 'str')),
         ('G', 'msgstr_plural'): ('(w_msgstr_plural W %s)', ('dict', 'str'))}
METHODS = {('M', 'group', ('Z',)): ('(w_group W %s %s)', 'str'), ('M', 'start', ()): ('(w_start W %s)', 'Z'),
           ('M', 'end', ()): ('(w_end W %s)', 'Z'), ('G', 'translated', ()): ('(w_translated W %s)', 'bool'),
           ('L', 'get_plural_forms', ()): ('(w_get_plural_forms W %s)', ('opt', ('list', 'str')))}
EXN = {'OverflowError': 'XOverflow', 'ZeroDivisionError': 'XZeroDiv', 'intexpr.LexingError': 'XLexing', 'intexpr.ParsingError': 'XParsing',
       'PluralFormsSyntaxError': 'XPluralForms', 'PluralExpressionSyntaxError': 'XPluralForms', 'gettext.PluralFormsSyntaxError': 'XPluralForms'}
U = {True: 'true', False: 'false'}
TAGS = {'duplicate-header-field-plural-forms': ('TDuplicate', []), 'inconsistent-number-of-plural-forms': ('TInconsistent', [('list', 'targ')]),
        'no-required-plural-forms-header-field': ('TNoRequired', []), 'no-plural-forms-header-field': ('TNoField', []),
        'leading-junk-in-plural-forms': ('TLeadingJunk', ['str']), 'trailing-junk-in-plural-forms': ('TTrailingJunk', ['str']),
        'incorrect-number-of-plural-forms': ('TIncorrectN', ['Z', 'Z'])}
for _n, _c, _k in (('syntax-error-in-%splural-forms', 'TSyntax', 'str'), ('unusual-%splural-forms', 'TUnusual', 'str'),
                   ('codomain-error-in-%splural-forms', 'TCodomain', 'smsg'), ('arithmetic-error-in-%splural-forms', 'TArith', 'smsg')):
    for _u in (True, False):
        TAGS[_n % ('' if _u else 'unused-')] = ('%s %s' % (_c, U[_u]), [_k])
MSGS = {('f(', 'Z', ') = ', 'Z', ' >= ', 'Z'): 'MAt', ('f(', 'Z', '): integer overflow'): 'MOverflow',
        ('f(', 'Z', '): division by zero'): 'MDivZero', ('f(x) != ', 'rtext'): 'MNever'}
DECO_OK = ('Z', 'str', 'deco', 'strconst', 'G', ('list', 'str'), ('opt', ('list', 'str')))
REGEX_ASSIGN = re.compile(r"_parse_plural_forms = re\.compile\((.*)\)\.search", re.S)
FUNCS = {}     # python call text -> (coq name, result kind), filled as the functions are translated


class Unsupported(Exception):
    pass


def bad(node, why):
    raise Unsupported('%s: line %s: %s' % (why, getattr(node, 'lineno', '?'), ast.unparse(node)[:100] if isinstance(node, ast.AST) else node))


def ind(t):
    return '\n'.join('  ' + ln for ln in t.split('\n'))


def loc(new, old):
    return ast.fix_missing_locations(ast.copy_location(new, old))


# ------------------------------------------------------------------ kinds
def ty(k):
    if isinstance(k, str):
        return BASE[k]
    if k[0] == 'opt':
        return '(option %s)' % ty(k[1])
    if k[0] == 'list':
        return '(list %s)' % ty(k[1])
    if k[0] == 'dict':
        return '(list (Z * %s))' % ty(k[1])
    return '(%s)' % ' * '.join(ty(x) for x in k[1:])


def valued(k):
    return k not in NOVALUE


def join(a, b):
    """the kind of a variable that has kind a on one path and b on another; None when they do not join"""
    if a == b:
        return a
    for x, y in ((a, b), (b, a)):
        if x == 'none' and valued(y):
            return y if y[0] == 'opt' else ('opt', y)
        if x == 'nil' and y[0] in ('list', 'dict'):
            return y
        if x == 'Z' and y == 'zinf':
            return 'zinf'
        if isinstance(x, tuple) and x[0] == 'opt' and valued(y) and y[0] != 'opt':
            j = join(x[1], y)
            return j and ('opt', j)
    if isinstance(a, tuple) and isinstance(b, tuple) and a[0] == b[0] and len(a) == len(b) and a[0] in ('opt', 'tup'):
        js = [join(x, y) for x, y in zip(a[1:], b[1:])]
        return None if None in js else (a[0],) + tuple(js)
    return None


def coerce(t, a, b):
    """the value t of kind a as a value of kind b = join(a, ..)"""
    if a == b:
        return t
    if a == 'none':
        return 'None'
    if a == 'nil':
        return '[]'
    if a == 'Z' and b == 'zinf':
        return '(Fin %s)' % t
    if b[0] == 'opt':
        return '(option_map (fun c_ => %s) %s)' % (coerce('c_', a[1], b[1]), t) if a[0] == 'opt' else '(Some %s)' % coerce(t, a, b[1])
    if a[0] == b[0] == 'tup' and len(a) == 3:
        return '(%s, %s)' % (coerce('(fst %s)' % t, a[1], b[1]), coerce('(snd %s)' % t, a[2], b[2]))
    raise Unsupported('no coercion from %s to %s' % (a, b))


def container(k):
    return k == 'nil' or isinstance(k, tuple) and (k[0] in ('list', 'dict') or any(container(x) for x in k[1:] if x))


def extend(env, upd, fresh=()):
    """env after binding the names of upd; '#x' marks a list / dict created here and not shared (so that x += .., x[k] = .. are local)"""
    new = dict(env, **upd)
    for n in upd:
        new.pop('#' + n, None)
        if n in RESERVED:
            raise Unsupported('assignment to the reserved name %s' % n)
    new.update({'#' + n: 'fresh' for n in fresh})
    return new


def join_envs(envs):
    out = {}
    for v in envs[0]:
        k = envs[0][v]
        for e in envs[1:]:
            k = join(k, e[v]) if k is not None and v in e else None
        if k is not None:
            out[v] = k
    return out


def cn(key):
    """the Gallina binder of a Python variable / refined input field / internal temporary"""
    if key.startswith('$'):
        return key[1:] + '_'
    return 'v_' + key if key.isidentifier() else re.sub(r'\W+', '_', key).strip('_')


def occurs(name, text):
    return re.search(r'(?<![\w.])%s(?!\w)' % re.escape(name), text) is not None


class K:
    """where control goes: nxt (end of the statement list), brk, cnt, handlers [(exception constructors, jump)] innermost first"""
    def __init__(self, nxt, brk=None, cnt=None, handlers=(), inloop=False):
        self.nxt, self.brk, self.cnt, self.handlers, self.inloop = nxt, brk, cnt, tuple(handlers), inloop

    def but(self, **kw):
        k = K(self.nxt, self.brk, self.cnt, self.handlers, self.inloop)
        k.__dict__.update(kw)
        return k


class Fn:
    def __init__(self, name, fdef, params, static=None, effects=False, regex=False, decorators=()):
        self.name, self.fdef, self.params, self.static, self.effects = name, fdef, params, static or {}, effects
        self.regex, self.decorators = regex, list(decorators)
        self.defs, self.n, self.trail, self.rkind, self.pure = [], 0, [], None, True

    def fresh(self, stem):
        self.n += 1
        return '%s%d' % (stem, self.n)

    # ------------------------------------------------------------ dry runs: learn where a construct ends, and with which kinds
    def recorder(self):
        sites = []

        def rec(env):
            sites.append(dict(env))
            self.trail.append(sites)
            return 'DRY'
        return rec, sites

    def dry(self, f):
        cp = (len(self.defs), self.n, len(self.trail), self.pure)
        self.pure = True
        f()
        pure = self.pure
        del self.defs[cp[0]:]
        self.n = cp[1]
        while len(self.trail) > cp[2]:
            self.trail.pop().pop()
        self.pure = cp[3]
        return pure

    def var(self, key, env, node):
        k = env[key]
        if k == 'nil':
            return ('[]', k)
        if not valued(k):
            bad(node, 'value of a %s variable' % k)
        return (cn(key), k)

    # ------------------------------------------------------------ expressions (pure) -> (text, kind)
    def ex(self, e, env):
        key = ast.unparse(e)
        if isinstance(e, ast.Constant):
            v = e.value
            if v is None:
                return ('', 'none')
            if v is True or v is False:
                return (U[v], 'bool')
            if type(v) is int:
                return (str(v) if v >= 0 else '(%d)' % v, 'Z')
            if type(v) is float and v == float('inf'):
                return ('PInf', 'zinf')
            if type(v) is str:
                return (v, 'strconst')
        elif isinstance(e, (ast.Name, ast.Attribute, ast.Subscript)) and key in env:
            if key in self.static:
                return (U[self.static[key]], 'bool')
            return (cn(key), env[key]) if env[key] in NOVALUE and env[key] != 'nil' else self.var(key, env, e)
        elif key in ATOMS:
            return ATOMS[key]
        elif isinstance(e, ast.Attribute):
            t, k = self.ex(e.value, env)
            if (k, e.attr) in ATTRS:
                f, rk = ATTRS[(k, e.attr)]
                return (f % t, rk)
        elif isinstance(e, ast.Subscript) and isinstance(e.slice, ast.Slice) and e.slice.step is None:
            t, k = self.ex(e.value, env)
            lo, hi = e.slice.lower, e.slice.upper
            if k == 'str' and (lo is None) != (hi is None):
                return ('(%s %s %s)' % ('str_to' if lo is None else 'str_from', t, self.z(hi or lo, env)), 'str')
            if k[0] == 'list' and lo is None and ast.unparse(hi) == '-1':
                return ('(removelast %s)' % t, k)
        elif isinstance(e, ast.Tuple) and len(e.elts) >= 2:
            vs = [self.ex(x, env) for x in e.elts]
            if all(valued(k) and not container(k) for _, k in vs):
                return ('(%s)' % ', '.join(t for t, _ in vs), ('tup',) + tuple(k for _, k in vs))
        elif isinstance(e, ast.List):
            return self.lst([self.ex(x, env) for x in e.elts], e)
        elif isinstance(e, ast.Dict) and not e.keys:
            return ('[]', 'nil')
        elif isinstance(e, ast.BinOp) and isinstance(e.op, (ast.Add, ast.Sub, ast.Mult)):
            return ('(%s %s %s)' % (self.z(e.left, env), {ast.Add: '+', ast.Sub: '-', ast.Mult: '*'}[type(e.op)], self.z(e.right, env)), 'Z')
        elif isinstance(e, ast.UnaryOp) and isinstance(e.op, ast.Not):
            return ('(negb %s)' % self.truth(e.operand, env), 'bool')
        elif isinstance(e, ast.BoolOp) and all(self.ex(v, env)[1] == 'bool' for v in e.values):      # on bools `and` / `or` return a bool
            return ('(%s)' % (' && ' if isinstance(e.op, ast.And) else ' || ').join(self.ex(v, env)[0] for v in e.values), 'bool')
        elif isinstance(e, ast.Compare) and len(e.ops) == 1:
            return self.compare(e, env)
        elif isinstance(e, ast.JoinedStr):
            return self.message(e, env)
        elif isinstance(e, ast.Call) and not self.call(e, env):
            return self.purecall(e, env)
        bad(e, 'expression')

    def lst(self, vs, node):
        if not vs:
            return ('[]', 'nil')
        ks = {k for _, k in vs}
        if len(ks) == 1 and valued(vs[0][1]) and not container(vs[0][1]):
            return ('[%s]' % '; '.join(t for t, _ in vs), ('list', vs[0][1]))
        if ks <= {'Z', 'deco', 'strconst'}:          # the arguments collected for inconsistent-number-of-plural-forms
            return ('[%s]' % '; '.join({'Z': 'AInt %s' % t, 'deco': 'ADeco', 'strconst': 'AConst'}[k] for t, k in vs), ('list', 'targ'))
        bad(node, 'list of %s' % sorted(map(str, ks)))

    def z(self, e, env):
        t, k = self.ex(e, env)
        if k != 'Z':
            bad(e, 'int expected, got %s' % (k,))
        return t

    def truth(self, e, env):
        if isinstance(e, ast.BoolOp):
            return '(%s)' % (' && ' if isinstance(e.op, ast.And) else ' || ').join(self.truth(v, env) for v in e.values)
        t, k = self.ex(e, env)
        if k == 'bool':
            return t
        if k == 'Z':
            return '(negb (%s =? 0))' % t
        if k == 'none':
            return 'false'
        if k == 'nil':
            return 'false'
        if k == 'str' or k[0] in ('list', 'dict'):
            return '(nonempty %s)' % t
        if k[0] == 'opt' and k[1][0] == 'list':
            return '(match %s with Some t_ => nonempty t_ | None => false end)' % t
        bad(e, 'truth value of %s' % (k,))

    def compare(self, e, env):
        op, (a, ka), (b, kb) = type(e.ops[0]), self.ex(e.left, env), self.ex(e.comparators[0], env)
        neg = lambda c, yes: '(negb %s)' % c if yes else c
        if op in (ast.Is, ast.IsNot) and kb == 'none':
            if ka == 'none' or (valued(ka) and ka[0] != 'opt'):
                return (U[(ka == 'none') == (op is ast.Is)], 'bool')
            if ka[0] == 'opt':
                return ('(match %s with Some _ => %s | None => %s end)' % (a, U[op is ast.IsNot], U[op is ast.Is]), 'bool')
        if op in (ast.In, ast.NotIn) and ka == 'Z' and kb[0] == 'dict':
            return (neg('(dict_has %s %s)' % (b, a), op is ast.NotIn), 'bool')
        cmp = {ast.Lt: '<?', ast.LtE: '<=?', ast.Gt: '>?', ast.GtE: '>=?', ast.Eq: '=?', ast.NotEq: '=?'}.get(op)
        if cmp and ka == kb == 'Z':
            return (neg('(%s %s %s)' % (a, cmp, b), op is ast.NotEq), 'bool')
        if op is ast.Lt and {ka, kb} <= {'Z', 'zinf'}:
            return ('(zinf_ltb %s %s)' % (coerce(a, ka, 'zinf'), coerce(b, kb, 'zinf')), 'bool')
        if op in (ast.Eq, ast.NotEq) and ka == 'Z' and kb in ('none', ('opt', 'Z')):      # an int never equals None
            c = 'false' if kb == 'none' else '(match %s with Some c_ => %s =? c_ | None => false end)' % (b, a)
            return (neg(c, op is ast.NotEq), 'bool')
        bad(e, 'comparison of %s with %s' % (ka, kb))

    def purecall(self, e, env):
        f, args, kw = ast.unparse(e.func), e.args, {k.arg: k.value for k in e.keywords}
        if f in ('tags.safe_format', 'tags.safestr', 'str.join', 'message_repr'):
            return self.message(e, env)
        if kw or any(isinstance(a, ast.Starred) for a in args):
            bad(e, 'call with keyword / star arguments')
        if isinstance(e.func, ast.Attribute) and f not in ('collections.defaultdict', 'intexpr.Parser'):
            t, k = self.ex(e.func.value, env)
            vs = [self.ex(a, env) for a in args]
            m = METHODS.get((k, e.func.attr, tuple(kk for _, kk in vs)))
            if m:
                return (m[0] % ((t,) + tuple(x for x, _ in vs)), m[1])
            if k[0] == 'dict' and e.func.attr == 'keys' and not args:
                return ('(dict_keys %s)' % t, 'keys')
            bad(e, 'method %s of %s' % (e.func.attr, k))
        if f == '_parse_plural_forms' and len(args) == 1 and self.ex(args[0], env)[1] == 'str' and self.regex:
            return ('(w_search W %s)' % self.ex(args[0], env)[0], ('opt', 'M'))
        if f == 'intexpr.Parser' and not args:
            return ('', 'parser')
        if f == 'collections.defaultdict' and [ast.unparse(a) for a in args] == ['list']:
            return ('[]', ('dict', ('list', 'Z'), 'default'))
        if f == 'sorted' and len(args) == 1 and isinstance(args[0], ast.Call) and isinstance(args[0].func, ast.Attribute) \
                and args[0].func.attr == 'items' and not args[0].args:
            t, k = self.ex(args[0].func.value, env)
            if k[0] == 'dict':              # the representation is sorted by key, and the keys are distinct
                return (t, ('list', ('tup', 'Z', k[1])))
        if f == 'sorted' and len(args) == 1 and isinstance(args[0], ast.Call) and ast.unparse(args[0].func) == 'set' and len(args[0].args) == 1 \
                and self.ex(args[0].args[0], env)[1] == ('list', 'str'):
            return ('(str_sorted_set %s)' % self.ex(args[0].args[0], env)[0], ('list', 'str'))
        vs = [self.ex(a, env) for a in args]
        ks = [k for _, k in vs]
        if f == 'len' and len(vs) == 1 and (ks[0] in ('str', 'keys', 'nil') or ks[0][0] in ('list', 'dict')):
            return ('0', 'Z') if ks[0] == 'nil' else ('(zlen %s)' % vs[0][0], 'Z')
        if f == 'range' and ks in (['Z'], ['Z', 'Z']):
            return ('(%s, %s)' % (('0', vs[0][0]) if len(vs) == 1 else (vs[0][0], vs[1][0])), 'range')
        if f == 'sum' and len(ks) == 1 and ks[0][0] == 'tup' and len(ks[0]) == 3 and set(ks[0][1:]) <= {'Z', 'zinf'}:
            k, t = ks[0], vs[0][0]
            if k == ZZ:
                return ('(fst %s + snd %s)' % (t, t), 'Z')
            return ('(zinf_add %s %s)' % (coerce('(fst %s)' % t, k[1], 'zinf'), coerce('(snd %s)' % t, k[2], 'zinf')), 'zinf')
        if f == 'dict' and len(ks) == 1 and ks[0][0] == 'dict':
            return (vs[0][0], ks[0][:2])
        if f == 'sorted' and len(ks) == 1 and ks[0][0] == 'dict':          # the representation is sorted by key
            return ('(dict_keys %s)' % vs[0][0], ('list', 'Z'))
        bad(e, 'call')

    def message(self, e, env):
        """a message of table MSGS (kind smsg), else decoration"""
        parts = self.parts(e, env)
        if parts is not None:
            shape = tuple(p if isinstance(p, str) else p[1] for p in parts)
            if shape in MSGS:
                return ('(%s %s)' % (MSGS[shape], ' '.join(p[0] for p in parts if not isinstance(p, str))), 'smsg')
        self.deco(e, env)
        return ('', 'deco')

    def parts(self, e, env):
        """constant text and values of a formatted string, in order; None when it is not one of the recognised forms"""
        if isinstance(e, ast.JoinedStr):
            out = []
            for p in e.values:
                if isinstance(p, ast.Constant):
                    out.append(p.value)
                elif p.conversion == -1 and p.format_spec is None:
                    out.append(self.ex(p.value, env))
                else:
                    return None
            return [p for p in out if p != '']
        if isinstance(e, ast.Call) and not e.keywords and ast.unparse(e.func) == 'tags.safestr' and len(e.args) == 1:
            return self.parts(e.args[0], env)
        if isinstance(e, ast.Call) and not e.keywords and ast.unparse(e.func) == 'tags.safe_format' and e.args \
                and not any(isinstance(a, ast.Starred) for a in e.args):
            t = e.args[0]
            if isinstance(t, ast.JoinedStr) and len(e.args) == 1:       # .format() of a text without braces
                ps = self.parts(t, env)
                return ps if ps is not None and all(isinstance(p, str) and not set(p) & set('{}') or p[1] == 'Z' for p in ps) else None
            if isinstance(t, ast.Constant) and isinstance(t.value, str):
                cs = t.value.split('{}')
                if len(cs) == len(e.args) and not set(''.join(cs)) & set('{}'):
                    out = [cs[0]]
                    for a, c in zip(e.args[1:], cs[1:]):
                        out += [self.ex(a, env), c]
                    return [p for p in out if p != '']
        return None

    def deco(self, e, env):
        """accept e as decoration: text built from constants and values that cannot fail to format"""
        if isinstance(e, ast.Constant) and isinstance(e.value, str):
            return
        if isinstance(e, ast.JoinedStr):
            for p in e.values:
                if isinstance(p, ast.FormattedValue):
                    if p.conversion != -1 or p.format_spec is not None:
                        bad(e, 'f-string conversion')
                    self.deco(p.value, env)
            return
        if isinstance(e, ast.Starred):
            return self.deco(e.value, env)
        if isinstance(e, ast.GeneratorExp) and len(e.generators) == 1 and not e.generators[0].ifs and isinstance(e.elt, ast.Constant):
            return self.deco(e.generators[0].iter, env)
        if isinstance(e, ast.Call):
            f = ast.unparse(e.func)
            if f in ('tags.safe_format', 'tags.safestr', 'str.join') and not e.keywords or \
                    f == 'message_repr' and len(e.args) == 1 and [k.arg for k in e.keywords] == ['template'] and isinstance(e.keywords[0].value, ast.Constant):
                for a in e.args:
                    self.deco(a, env)
                return
        if isinstance(e, (ast.Name, ast.Attribute)) and self.ex(e, env)[1] in DECO_OK:
            return
        bad(e, 'not a decoration')

    # ------------------------------------------------------------ calls that can raise -> (text : sres T, kind T) or None
    def call(self, e, env):
        if isinstance(e, ast.ListComp):
            return self.comprehension(e, env)
        if not isinstance(e, ast.Call):
            return None
        f, kw = ast.unparse(e.func), {k.arg: k.value for k in e.keywords}
        if any(isinstance(a, ast.Starred) for a in e.args):
            return None
        if isinstance(e.func, ast.Name) and f in env and env[f] in ('E', ('opt', 'E')) and len(e.args) == 1 and not kw:
            self.pure = False
            a = self.z(e.args[0], env)
            if env[f] == 'E':
                return ('(w_call W %s %s)' % (cn(f), a), 'Z')
            return ('(match %s with Some c_ => w_call W c_ %s | None => SRaise (XCrash CTypeError) end)' % (cn(f), a), 'Z')
        if isinstance(e.func, ast.Attribute) and not e.args and not kw and e.func.attr in ('codomain', 'period') and self.ex(e.func.value, env)[1] == 'E':
            self.pure = False
            return ('(sopt (w_%s W %s))' % (e.func.attr, self.ex(e.func.value, env)[0]), ('opt', ZZ))
        if isinstance(e.func, ast.Attribute) and e.func.attr == 'parse' and len(e.args) == 1 and not kw and self.ex(e.func.value, env)[1] == 'parser' \
                and self.ex(e.args[0], env)[1] == 'str':
            self.pure = False
            return ('(w_parse W %s)' % self.ex(e.args[0], env)[0], 'E')
        if f == 'int' and len(e.args) == 2 and not kw and ast.unparse(e.args[1]) == '10' and self.ex(e.args[0], env)[1] == 'str':
            self.pure = False
            return ('(w_int10 W %s)' % self.ex(e.args[0], env)[0], 'Z')
        if f == 'misc.format_range' and len(e.args) == 1 and set(kw) == {'max'} and self.ex(e.args[0], env)[1] == 'range':
            self.pure = False
            return ('(format_range %s %s)' % (self.ex(e.args[0], env)[0], self.z(kw['max'], env)), 'rtext')
        key = f + ''.join(', %s=%s' % (k, ast.unparse(v)) for k, v in sorted(kw.items()))
        if key in FUNCS and len(e.args) == 1 and self.ex(e.args[0], env)[1] == 'str':
            self.pure = False
            return ('(%s W %s)' % (FUNCS[key][0], self.ex(e.args[0], env)[0]), FUNCS[key][1])
        return None

    def comprehension(self, e, env):
        g = e.generators[0]
        if len(e.generators) == 1 and not g.is_async and isinstance(g.iter, ast.Call) and ast.unparse(g.iter.func) == 'map' and len(g.iter.args) == 2 \
                and not g.iter.keywords and ast.unparse(g.iter.args[0]) in FUNCS and isinstance(g.target, ast.Tuple) and len(g.ifs) <= 1 \
                and all(isinstance(x, ast.Name) for x in g.target.elts) and ast.dump(e.elt) == ast.dump(g.target).replace('Store()', 'Load()'):
            name, rk = FUNCS[ast.unparse(g.iter.args[0])]
            t, k = self.ex(g.iter.args[1], env)
            names = [x.id for x in g.target.elts]
            if k == ('list', 'str') and rk[0] == 'tup' and len(rk) == len(names) + 1 and len(set(names)) == len(names):
                self.pure = False
                pat = "'(%s)" % ', '.join(cn(x) for x in names)
                c = self.truth(g.ifs[0], extend(env, dict(zip(names, rk[1:])))) if g.ifs else 'true'
                return ('(scall (smap (%s W) %s) (fun r_ => SRet (filter (fun %s => %s) r_)) SRaise)' % (name, t, pat, c), ('list', rk))
        bad(e, 'list comprehension')

    def dispatch(self, env, K):
        """the exc argument of scall: send an exception to the enclosing handlers"""
        seen, cases = set(), []
        for xs, jump in K.handlers:
            for x in sorted(xs - seen):
                cases.append('| %s => %s' % (x, jump(env)))
            seen |= xs
        return 'SRaise' if not cases else '(fun x_ => match x_ with\n%s\n| _ => SRaise x_ end)' % ind('\n'.join(cases))

    def raise_(self, x, env, K):
        self.pure = False
        for xs, jump in K.handlers:
            if x in xs:
                return jump(env)
        return 'SRaise %s' % ('(%s)' % x if ' ' in x else x)

    # ------------------------------------------------------------ statements
    def tr(self, stmts, env, k):
        if not stmts:
            return k.nxt(env)
        s, rest = stmts[0], stmts[1:]
        m = getattr(self, 'st_' + type(s).__name__, None)
        if m is None:
            bad(s, 'statement')
        return m(s, rest, env, k)

    def end(self, s, rest):
        self.pure = False
        if rest:
            bad(rest[0], 'unreachable statement after ' + type(s).__name__)

    def st_Pass(self, s, rest, env, k):
        return self.tr(rest, env, k)

    def st_Break(self, s, rest, env, k):
        self.end(s, rest)
        return (k.brk or bad(s, 'break outside a loop'))(env)

    def st_Continue(self, s, rest, env, k):
        self.end(s, rest)
        return (k.cnt or bad(s, 'continue outside a loop'))(env)

    def ret(self, t, kind, env, node):
        if self.effects:
            if kind != 'none':
                bad(node, 'return with a value')
            t, kind = '(out_, %s)' % coerce(cn('ctx.plural_preimage'), env['ctx.plural_preimage'], PRE), ('tup', ('list', 'stag'), PRE)
        if self.rkind not in (None, kind):
            bad(node, 'return of kind %s, elsewhere %s' % (kind, self.rkind))
        self.rkind = kind
        return 'SRet %s' % t

    def st_Return(self, s, rest, env, k):
        self.end(s, rest)
        c = s.value is not None and self.call(s.value, env)
        if c:
            return 'scall %s (fun r_ => %s) %s' % (c[0], self.ret('r_', c[1], env, s), self.dispatch(env, k))
        t, kind = self.ex(s.value, env) if s.value is not None else ('', 'none')
        return self.ret(t, kind, env, s)

    def st_Raise(self, s, rest, env, k):
        self.end(s, rest)
        x = ast.unparse(s.exc) if s.exc is not None and s.cause is None else None
        if x not in EXN:
            bad(s, 'raise')
        return self.raise_(EXN[x], env, k)

    def st_Assert(self, s, rest, env, k):
        if s.msg is not None:
            bad(s, 'assert with a message')
        self.pure = False
        return 'if negb %s then SAssert else\n%s' % (self.truth(s.test, env), self.tr(rest, env, k))

    def st_Expr(self, s, rest, env, k):
        v = s.value
        if isinstance(v, ast.Constant) and isinstance(v.value, str):
            return self.tr(rest, env, k)
        if not (isinstance(v, ast.Call) and ast.unparse(v.func) == 'self.tag' and self.effects and not v.keywords and v.args
                and isinstance(v.args[0], ast.Constant) and v.args[0].value in TAGS):
            bad(s, 'expression statement')
        ctor, slots = TAGS[v.args[0].value]
        data = []
        for a in v.args[1:]:
            t, kd = self.ex(a.value, env) if isinstance(a, ast.Starred) else self.ex(a, env)
            if isinstance(a, ast.Starred) and kd != ('list', 'targ'):
                self.deco(a, env)
            elif kd not in ('deco', 'strconst'):
                data.append((t, kd))
        if [kd for _, kd in data] != slots:
            bad(s, 'arguments of the tag: %s, recorded %s' % ([kd for _, kd in data], slots))
        return 'let out_ := out_ ++ [%s] in\n%s' % (' '.join([ctor] + [t for t, _ in data]), self.tr(rest, env, k))

    def bind(self, target, kind, node):
        """pattern and environment update for `target = <value of kind kind>`"""
        if isinstance(target, ast.Name):
            return cn(target.id), {target.id: kind}
        if isinstance(target, ast.Tuple) and kind[0] == 'tup' and len(target.elts) == len(kind) - 1:
            ps = [self.bind(t, kk, node) for t, kk in zip(target.elts, kind[1:])]
            upd = {}
            for _, u in ps:
                if set(u) & set(upd):
                    bad(node, 'name bound twice')
                upd.update(u)
            return "(%s)" % ', '.join(p for p, _ in ps), upd
        bad(node, 'assignment target for a value of kind %s' % (kind,))

    def st_Assign(self, s, rest, env, k):
        tg, v = s.targets[0], s.value
        c = self.call(v, env)
        if len(s.targets) > 1:
            if not (all(isinstance(t, ast.Name) for t in s.targets) and ast.unparse(v) == 'None'):
                bad(s, 'chained assignment')
            return self.tr(rest, extend(env, {t.id: 'none' for t in s.targets}), k)
        if c:
            pat, upd = self.bind(tg, c[1], s)
            return 'scall %s (fun %s%s =>\n%s)\n  %s' % (c[0], "'" if pat[0] == '(' else '', pat, ind(self.tr(rest, extend(env, upd), k)),
                                                     ind(self.dispatch(env, k)).lstrip())
        t, kind = self.ex(v, env)
        if isinstance(tg, ast.List) and len(tg.elts) == 1 and (kind == 'keys' or kind[0] == 'list'):     # [x] = e
            self.pure = False
            ek = 'Z' if kind == 'keys' else kind[1]
            inner = tg.elts[0]
            if isinstance(inner, ast.List):
                inner = ast.Tuple(inner.elts, ast.Store())
            pat, upd = self.bind(inner, ek, s)
            return 'match %s with\n| [%s] =>\n%s\n| _ => %s\nend' % (t, pat, ind(self.tr(rest, extend(env, upd), k)), self.raise_('XValue', env, k))
        if isinstance(tg, ast.Subscript) and isinstance(tg.value, ast.Name) and '#' + tg.value.id in env and valued(kind) and not container(kind) \
                and join(env[tg.value.id], ('dict', kind)) == ('dict', kind):
            d = tg.value.id
            return 'let %s := dict_set %s %s %s in\n%s' % (cn(d), self.var(d, env, s)[0], self.z(tg.slice, env), t,
                                                           self.tr(rest, extend(env, {d: ('dict', kind)}, [d]), k))
        key = ast.unparse(tg)
        if isinstance(tg, ast.Name) or key == 'ctx.plural_preimage' and self.effects:
            if kind == 'strconst':
                kind = 'deco'
            if kind == 'keys' or container(kind) and isinstance(v, (ast.Name, ast.Attribute)):
                bad(s, 'a second name for a key view / list / dict')
            fresh = [key] if isinstance(v, (ast.List, ast.Dict)) or ast.unparse(v).startswith('collections.defaultdict(') else []
            new = extend(env, {key: kind}, fresh)
            if isinstance(v, ast.Call) and ast.unparse(v.func) == 'dict':       # a shallow copy: its argument is shared from now on
                new.pop('#' + ast.unparse(v.args[0]), None)
            return self.tr(rest, new, k) if not valued(kind) else 'let %s := %s in\n%s' % (cn(key), t, self.tr(rest, new, k))
        if isinstance(tg, ast.Tuple) and kind[0] == 'tup':
            pat, upd = self.bind(tg, kind, s)
            return "let '%s := %s in\n%s" % (pat, t, self.tr(rest, extend(env, upd), k))
        bad(s, 'assignment')

    def st_AugAssign(self, s, rest, env, k):
        tg = s.target
        if isinstance(s.op, ast.Add) and isinstance(tg, ast.Name) and '#' + tg.id in env and isinstance(s.value, ast.List) and s.value.elts:
            t, kind = self.ex(s.value, env)
            j = join(env[tg.id], kind)
            if j is not None and j[0] == 'list':
                return 'let %s := %s ++ %s in\n%s' % (cn(tg.id), self.var(tg.id, env, s)[0], t, self.tr(rest, extend(env, {tg.id: j}, [tg.id]), k))
        if isinstance(s.op, ast.Add) and isinstance(tg, ast.Subscript) and isinstance(tg.value, ast.Name) \
                and env.get(tg.value.id) == ('dict', ('list', 'Z'), 'default') and '#' + tg.value.id in env and isinstance(s.value, ast.List) \
                and len(s.value.elts) == 1:
            d = cn(tg.value.id)
            return 'let %s := dd_append %s %s %s in\n%s' % (d, d, self.z(tg.slice, env), self.z(s.value.elts[0], env), self.tr(rest, env, k))
        bad(s, 'augmented assignment')

    # ---- sequencing a construct with what follows it
    def seq(self, rest, env0, k, build):
        """build(nxt) = text of the construct, nxt(env) being used wherever it completes normally; then rest"""
        if not rest:
            return build(k.nxt)
        rec, sites = self.recorder()
        got = []
        self.dry(lambda: (build(rec), got.extend(sites)))
        if not got:
            bad(rest[0], 'unreachable statement')
        if len(got) == 1:
            return build(lambda e: self.tr(rest, e, k))
        prefix, jump = self.continuation(lambda je: self.tr(rest, je, k), got, k)
        return prefix + build(jump)

    def continuation(self, body_of, sites, k):
        """a named continuation for code reached from several places -> (text to put in front, jump)"""
        jenv = join_envs(sites)
        if k.inloop:
            bad('', 'code reached from several places inside a loop body')
        body = body_of(jenv)
        name = '%s_%s' % (self.name, self.fresh('k'))
        ps = [v for v in jenv if valued(jenv[v]) and occurs(cn(v), body)]      # the variables the continuation reads
        self.define('Definition', name, [(cn(v), ty(jenv[v])) for v in ps], body)
        return '', lambda e: ' '.join([name, 'W'] + [coerce(cn(v), e[v], jenv[v]) if e[v] != 'nil' else '[]' for v in ps])

    def define(self, kw, name, params, body, extra=''):
        sig = ' '.join('(%s : %s)' % p for p in params)
        self.defs.append((name, '%s %s {E M L G : Type} (W : pl_world E M L G)%s%s%s : \0R\0 :=\n%s.\n'
                          % (kw, name, ' ' if sig else '', sig, extra, ind(body))))

    def stores(self, stmts):
        out = []
        for n in (x for s in stmts for x in ast.walk(s)):
            key = None
            if isinstance(n, (ast.Name, ast.Attribute)) and isinstance(n.ctx, ast.Store):
                key = ast.unparse(n)
            elif isinstance(n, ast.Subscript) and isinstance(n.ctx, ast.Store):
                key = ast.unparse(n.value)
            elif isinstance(n, ast.Call) and ast.unparse(n.func) == 'self.tag':
                key = '$out'
            if key and key not in out:
                out.append(key)
        return out

    def st_If(self, s, rest, env, k):
        t = s.test
        if isinstance(t, ast.BoolOp) and isinstance(t.op, ast.And) and not s.orelse and any(self.refines(v, env) or self.impure(v, env) for v in t.values):
            body = s.body
            for v in reversed(t.values[1:]):
                body = [loc(ast.If(v, body, []), s)]
            return self.st_If(loc(ast.If(t.values[0], body, []), s), rest, env, k)
        if isinstance(t, ast.Compare) and len(t.ops) == 1:
            for side, other in ((t.comparators[0], t.left), (t.left, t.comparators[0])):
                if self.call(side, env) and not self.call(other, env):
                    self.ex(other, env)                      # pure, so the order of evaluation does not matter
                    tmp = ast.Name('$' + self.fresh('tmp'), ast.Load())
                    new = ast.Compare(tmp, t.ops, [other]) if side is t.left else ast.Compare(other, t.ops, [tmp])
                    assign = loc(ast.Assign([ast.Name(tmp.id, ast.Store())], side), s)
                    return self.st_Assign(assign, [loc(ast.If(new, s.body, s.orelse), s)] + rest, env, k)
        # `x is None` / `x is not None` on a variable or input field that may be None: match
        if self.refines(t, env):
            key = ast.unparse(t.left)
            kind = env.get(key) or ATOMS[key][1]
            some, none = (s.orelse, s.body) if isinstance(t.ops[0], ast.Is) else (s.body, s.orelse)
            head = 'match %s with\n| Some %s =>\n' % (self.ex(t.left, env)[0], cn(key))
            branches = [(some, dict(env, **{key: kind[1]})), (none, dict(env, **{key: 'none'}))]
            fmt = head + '%s\n| None =>\n%s\nend'
        else:
            c = self.truth(t, env)
            if c in ('true', 'false'):
                return self.tr((s.body if c == 'true' else s.orelse) + rest, env, k)
            branches, fmt = [(s.body, env), (s.orelse, env)], 'if %s then\n%%s\nelse\n%%s' % c
        build = lambda nxt: fmt % tuple(ind(self.tr(b, e, k.but(nxt=nxt))) for b, e in branches)
        rec, sites = self.recorder()
        ends = []
        if self.dry(lambda: (build(rec), ends.extend(sites))) and len(ends) == 2:
            if True:
                # both branches only assign / tag: the if computes the new values of the variables they store
                je = join_envs(ends)
                vs = [v for v in self.stores(s.body + s.orelse) if v in je and valued(je[v])]
                new = dict(env)
                for v in [x for y in self.stores(s.body + s.orelse) for x in (y, '#' + y)]:
                    if v in je:
                        new[v] = je[v]          # (an existing variable keeps its position: the parameter order is stable)
                    else:
                        new.pop(v, None)
                if not vs:
                    return self.tr(rest, new, k)
                tup = lambda e: '(%s)' % ', '.join(coerce(cn(v), e[v], je[v]) if e[v] != 'nil' else '[]' for v in vs) if len(vs) > 1 \
                    else (coerce(cn(vs[0]), e[vs[0]], je[vs[0]]) if e[vs[0]] != 'nil' else '[]')
                pat = "'(%s)" % ', '.join(cn(v) for v in vs) if len(vs) > 1 else cn(vs[0])
                return 'let %s :=\n%s in\n%s' % (pat, ind(build(tup)), self.tr(rest, new, k))
        return self.seq(rest, env, k, build)

    def refines(self, t, env):
        """t is `x is None` / `x is not None` for a variable or input field x that may be None"""
        if not (isinstance(t, ast.Compare) and len(t.ops) == 1 and isinstance(t.ops[0], (ast.Is, ast.IsNot)) and ast.unparse(t.comparators[0]) == 'None'):
            return False
        key = ast.unparse(t.left)
        kind = env.get(key) or ATOMS.get(key, ('', None))[1]
        return bool(kind) and kind[0] == 'opt'

    def impure(self, e, env):
        return any(isinstance(n, (ast.Call, ast.ListComp)) and self.call(n, env) for n in ast.walk(e))

    def st_Try(self, s, rest, env, k):
        if s.orelse or s.finalbody or not s.handlers:
            bad(s, 'try with else / finally')
        hs = []
        for h in s.handlers:
            if h.name is not None or h.type is None or ast.unparse(h.type) not in EXN:
                bad(h, 'except clause')
            hs.append(frozenset([EXN[ast.unparse(h.type)]]))

        def build(nxt):
            """the try statement, completing normally at nxt"""
            recs = [self.recorder() for _ in hs]
            got = [[] for _ in hs]
            run = lambda jumps: self.tr(s.body, env, k.but(nxt=nxt, handlers=tuple(zip(hs, jumps)) + k.handlers))
            self.dry(lambda: (run([r for r, _ in recs]), [g.extend(ss) for g, (_, ss) in zip(got, recs)]))
            prefix, jumps = '', []
            for h, sites in zip(s.handlers, got):                       # the handlers run outside the try
                if not sites:
                    jumps.append(lambda e: bad(h, 'internal: handler believed unreachable'))
                elif len(sites) == 1:
                    jumps.append(lambda e, h=h: self.tr(h.body, e, k.but(nxt=nxt)))
                else:
                    p, j = self.continuation(lambda je, h=h: self.tr(h.body, je, k.but(nxt=nxt)), sites, k)
                    prefix += p
                    jumps.append(j)
            return prefix + run(jumps)
        return self.seq(rest, env, k, build)

    def st_For(self, s, rest, env, k):
        if k.inloop:
            bad(s, 'loop inside a loop body')
        it = s.iter
        if isinstance(it, ast.Call) and ast.unparse(it.func) == 'range':
            lt, ek = '(zrange_list %s)' % self.ex(it, env)[0], 'Z'
        else:
            lt, lk = self.ex(it, env)
            if lk[0] != 'list':
                bad(s, 'iteration over %s' % (lk,))
            ek = lk[1]
        pat, upd = self.bind(s.target, ek, s)
        name = '%s_%s' % (self.name, self.fresh('loop'))
        self.pure = False

        def build(nxt):
            after = k.but(nxt=nxt)
            lenv = dict(env)
            for _ in range(5):                          # the kinds of the variables at the loop head
                rec, sites = self.recorder()
                back = []
                kb = k.but(nxt=rec, cnt=rec, brk=lambda e: 'DRY', inloop=True)
                self.dry(lambda: (self.tr(s.body, extend(lenv, upd), kb), back.extend(sites)))
                new = join_envs([lenv] + back)
                if new == lenv:
                    break
                lenv = new
            else:
                bad(s, 'the kinds of the loop variables do not settle')
            sites = []

            def again(e):
                sites.append(dict(e))
                return '\0REC%d\0' % (len(sites) - 1)
            done = self.tr(s.orelse, lenv, after)
            body = self.tr(s.body, extend(lenv, upd), k.but(nxt=again, cnt=again, brk=nxt, inloop=True))
            ps = [v for v in lenv if valued(lenv[v]) and (occurs(cn(v), body) or occurs(cn(v), done))]
            args = lambda e: ' '.join([name, 'W'] + [coerce(cn(v), e[v], lenv[v]) if e[v] != 'nil' else '[]' for v in ps])
            body = re.sub('\0REC(\\d+)\0', lambda m: args(sites[int(m.group(1))]) + ' l_', body)
            self.define('Fixpoint', name, [(cn(v), ty(lenv[v])) for v in ps] + [('l_', '(list %s)' % ty(ek))],
                        'match l_ with\n| [] =>\n%s\n| %s :: l_ =>\n%s\nend' % (ind(done), pat, ind(body)), ' {struct l_}')
            return '%s %s' % (args(env), lt)
        return self.seq(rest, env, k, build)

    # ------------------------------------------------------------ whole function
    def run(self):
        a = self.fdef.args
        if a.posonlyargs or a.vararg or a.kwarg or a.defaults or [ast.unparse(d) for d in self.fdef.decorator_list] != self.decorators \
                or [x.arg for x in a.args] + [x.arg for x in a.kwonlyargs] != [p for p, _ in self.params] \
                or [ast.unparse(d) for d in a.kw_defaults] != ['True'] * len(a.kwonlyargs):
            bad(self.fdef, 'signature')
        env = {p: kd for p, kd in self.params if kd is not None}
        RESERVED.update(self.static)
        head = ''
        if self.effects:
            env['$out'] = ('list', 'stag')
            head = 'let out_ := [] in\n'
        end = K(lambda e: self.ret('', 'none', e, self.fdef) if self.effects else bad(self.fdef, 'end of the body without return'))
        text = head + self.tr(self.fdef.body, env, end)
        self.define('Definition', self.name, [(cn(p), ty(kd)) for p, kd in self.params if kd is not None and valued(kd) and p not in self.static], text)
        R = 'sres %s' % ty(self.rkind)
        return '\n'.join(d.replace('\0R\0', R) for _, d in self.defs)


PRE = ('opt', ('dict', ('list', 'Z')))


def find(tree, cls, name):
    body = tree.body
    if cls:
        found = [c for c in tree.body if isinstance(c, ast.ClassDef) and c.name == cls]
        if len(found) != 1:
            raise Unsupported('expected exactly one class %s' % cls)
        body = found[0].body
    found = [f for f in body if isinstance(f, ast.FunctionDef) and f.name == name]
    if len(found) != 1:
        raise Unsupported('expected exactly one definition of %s' % name)
    return found[0]


def gettext_module():
    tree = ast.parse(open(os.path.join(REPO, 'lib', 'gettext.py'), encoding='utf-8').read())
    classes = {c.name: [ast.unparse(b) for b in c.bases] for c in tree.body if isinstance(c, ast.ClassDef) and c.name.startswith('Plural')}
    if classes != {'PluralFormsSyntaxError': ['Exception'], 'PluralExpressionSyntaxError': ['PluralFormsSyntaxError']}:
        raise Unsupported('exception classes of lib/gettext.py: %s' % classes)
    assigns = [s for s in tree.body if isinstance(s, ast.Assign) and ast.unparse(s.targets[0]) == '_parse_plural_forms']
    m = len(assigns) == 1 and len(assigns[0].targets) == 1 and REGEX_ASSIGN.fullmatch(ast.unparse(assigns[0]))
    pattern = m and ast.literal_eval(m.group(1))
    if not isinstance(pattern, str):
        raise Unsupported('_parse_plural_forms is not re.compile(<string literal>).search')
    if [n for n in ast.walk(tree) if isinstance(n, (ast.Global, ast.Nonlocal))] or len([n for n in ast.walk(tree) if isinstance(n, ast.Name)
                                                                                       and n.id == '_parse_plural_forms' and isinstance(n.ctx, ast.Store)]) != 1:
        raise Unsupported('_parse_plural_forms may be rebound')
    return tree, pattern


def main(emit):
    out = ['(* generated by tools/gen/gen_plurals_src.py from lib/gettext.py and lib/check/__init__.py - do not edit; rules in that file *)',
           'From Coq Require Import List ZArith NArith Bool.', 'From I18n Require Import Lib.Outcome Lib.PySrc Model.PluralFormsPy.',
           'Import ListNotations.', 'Local Open Scope Z_scope.', '']
    errors = []
    FUNCS.clear()

    def job(name, make, register):
        try:
            fn = make()
            out.append(fn.run())
            for key in register:
                FUNCS[key] = (name, fn.rkind)
        except (Unsupported, KeyError, ValueError, IndexError, AttributeError, TypeError, OSError, SyntaxError, RecursionError) as e:
            msg = '%s: %s: %s' % (name, type(e).__name__, e)
            errors.append(msg)
            out.append('(* NOT TRANSLATABLE - %s *)\nDefinition %s : unit := tt.\n' % (msg.replace('*)', '* )').replace('(*', '( *').replace('"', "'"), name))
    try:
        tree, pattern = gettext_module()
        out.append('(* the pattern of _parse_plural_forms = re.compile(...).search *)\nDefinition src_plural_forms_regex : list N := [%s]%%N.\n'
                   % '; '.join(str(ord(c)) for c in pattern))
    except (Unsupported, OSError, SyntaxError, ValueError) as e:
        errors.append('lib/gettext.py: %s' % e)
        tree = None
    if tree is not None:
        job('src_parse_plural_expression', lambda: Fn('src_parse_plural_expression', find(tree, None, 'parse_plural_expression'), [('s', 'str')]),
            ['parse_plural_expression'])
        for strict in (True, False):
            name = 'src_parse_plural_forms_' + ('strict' if strict else 'nonstrict')
            job(name, lambda: Fn(name, find(tree, None, 'parse_plural_forms'), [('s', 'str'), ('strict', 'bool')], static={'strict': strict}, regex=True),
                ['gettext.parse_plural_forms'] if strict else ['gettext.parse_plural_forms, strict=False'])
    check = lambda: ast.parse(open(os.path.join(REPO, 'lib', 'check', '__init__.py'), encoding='utf-8').read())
    job('src_check_plurals', lambda: Fn('src_check_plurals', find(check(), 'Checker', 'check_plurals'), [('self', None), ('ctx', None)], effects=True,
                                         decorators=["checks_header_fields('Plural-Forms')"]), [])
    emit('PluralsSrc.v', '\n'.join(out))
    if errors:
        raise SystemExit('gen_plurals_src: the source left the supported subset (tie broken):\n  ' + '\n  '.join(errors))


if __name__ == '__main__':
    main(lambda name, text: print(text))

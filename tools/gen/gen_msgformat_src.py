"""Source translator for C14:  lib/check/msgformat/{c,python,pybrace,perlbrace}.py `check_args` and the tail of
lib/check/msgformat/__init__.py `check_message`  ->  coq/Generated/MsgFormatSrc.v  (python `ast` -> Gallina text).

Proofs/MsgFormatSrc.v proves every generated definition equal to the hand-written model (Model/MsgFormat.v); Props/C14.v
restates that (C14_source_tie_*).  An edit of the Python code therefore changes the generated text and breaks those proofs.
FAIL CLOSED: any construct outside the subset below raises Unsupported; the definition of that function is then emitted
with type `unit` (its tie lemma cannot compile), and main() exits non-zero after writing the file (gen_rc != 0 = broken tie).

Values.  Every Python value is a pair (Gallina text, type).  Assignment is substitution (no `let`): `x = e` binds x to
the translation of e.  The Gallina helpers (ksort, kinter, kdiff, khd, mget, type_of, sinter, nonempty, zlist_eqb,
preimage_of, has_msgstr, msgstr_fmt_ok, pending) are hand-written in coq/Model/MsgFormatPy.v.

Interface (the model's representation of the two signatures; fixed per file in SPECS, everything else comes from the source):
  c          src_fmt.arguments -> `src : list str` (an element stands for a list of conversions, e[0] for its first
             conversion, e[0].type for the element itself);  src_fmt.get_last_integer_conversion(n=E) -> `lastint E` (truthiness)
  python     .seq_arguments -> `src_seq : list str` (element.type = the element);  .map_arguments -> `src_map : amap`
  pybrace    .argument_map -> `src : amap`;        perlbrace  .arguments -> `src : list key` (a set of keys)
  amap row = (key, types of the FIRST argument with that key, <is-int> holds for EVERY argument with that key):
             m[k] -> `mget m k`,  m[k][0] -> `fst (mget m k)`,  (python) .type -> `type_of (...)`,  (pybrace) .types -> itself,
             all(<is-int> for arg in m[k]) -> `snd (mget m k)` where <is-int> must be literally the predicate of SPECS
  omitted_int_conv_ok -> `omit_ok`;  message, prefix = message_repr(message, template='{}:'), src_loc, dst_loc -> decoration

Expressions.
  len(x) -> `length x` (lists, key sets);  a - b on lengths -> `(a - b)%nat`, only under an enclosing guard `b < a`
  a < b, a > b, a <= b, a >= b, a == b, a != b on numbers -> Nat.ltb / Nat.leb / Nat.eqb (Z.* on integers of check_message);
  a == b, a != b on type names -> str_eqb;  `not`, `and`, `or` -> negb, &&, ||;  truthiness of a type set -> `nonempty`
  m.keys() -> `keys m`;  a & b, a - b on key sets -> kinter, kdiff;  a & b on type sets -> sinter;  set(), () -> `[]`
  sorted(S, key=sort_key) -> `ksort S` where sort_key must be `def sort_key(item): return (isinstance(item, str), item)`;
  plain sorted(S) -> `ksort S` only in python.py / perlbrace.py (their keys are all str, so both orders coincide)
  zip(a, b) -> `combine a b`;  e[0] as above;  m[k] only if k is drawn from a set built from m.keys() (no KeyError)
  [k] = S -> `khd S`, only under an enclosing guard len(S) == 1 (no ValueError)
Statements.
  self.tag(NAME, args...) appends one constructor of `adiag` (table TAGS; NAME must start with the file's tag prefix).
     Decoration arguments are dropped: prefix, string constants, tags.safestr(<constant, f-string of src_loc/dst_loc, loc>).
     The remaining arguments are the data, in order; tags.safestr(e) -> e;  a type name t in a `list str` slot -> `[t]`;
     str.join(', ', sorted(T)) for a type set T -> T.
  if / elif / else -> `if c then A else B` on the emitted list; a variable assigned in a branch becomes `if c then a else b`
  for x in L: body -> `flat_map (fun x => body) L`; the body may only emit / append, not assign variables that live outside
  def sort_key (see above);  anything else raises.
check_message (from `if flags.fuzzy: return` to the end; the part before it - parsing msgid / msgid_plural, the POT-only
  comparison, check_msgids - is NOT translated and stays tied by the harness only).  Additionally:
  atoms (table ATOMS, matched on the unparsed text) map ctx / flags / message reads to fields of `msg_in`;
  `if c: return` / `if c: continue` as a statement of the function / loop body -> `if c then [] else <rest>`;
  `try: x = ctx.plural_preimage[i]  except KeyError: continue` -> `match assoc i p with Some x => <rest> | None => [] end`;
  d = types.SimpleNamespace(), d.f = e, strings += [d] -> a `pending` record (all five fields must be set);
  'msgid' / 'msgid_plural' / 'msgstr' / f'msgstr[{i}]' -> loc;  X is None / is not None on a format object -> its flag;
  len(msgid_fmt) == len(msgid_plural_fmt) -> `mi_lens_equal m`;  [x for x in L if a <= x <= b] -> filter;  L == [1] -> zlist_eqb;
  L[0] -> `nth 0 L 0%Z`, only after `len(L) == n and`;  self.check_args(message, sl, sf, dl, df, omitted_int_conv_ok=o)
  appends an `invocation`;  assert isinstance(i, int) / assert <loc> is not None are dead and dropped.
"""
import ast
import os

REPO = os.environ.get('VERIF_REPO') or '/repo'
ALL = None   # provenance of the empty set: subset of every map's keys


class Unsupported(Exception):
    pass


def bad(node, why):
    raise Unsupported('%s: line %s: %s' % (why, getattr(node, 'lineno', '?'), ast.unparse(node)[:100]))


class V:
    """a translated value: Gallina text + type (+ element type, key provenance, record fields)"""
    def __init__(self, text, ty, elem=None, prov=frozenset(), fields=None, tag=None):
        self.text, self.ty, self.elem, self.prov, self.fields, self.tag = text, ty, elem, prov, fields, tag

    def same(self, o):
        return (self.text, self.ty, self.elem, self.prov, self.tag) == (o.text, o.ty, o.elem, o.prov, o.tag) and self.fields is o.fields


class Acc:
    """an append-only list (the emitted tags, `strings`): Gallina segments, joined by ++"""
    def __init__(self, segs=()):
        self.segs = list(segs)

    def text(self):
        return '(' + ' ++ '.join(self.segs) + ')' if self.segs else '[]'


TAGS = {'excess-arguments': ('AExcess', 'Nat Nat'), 'missing-arguments': ('AMissingN', 'Nat Nat'),
        'argument-number-mismatch': ('ANumber', 'Nat Nat'), 'argument-type-mismatch': ('ATypeMismatch', 'Types Types'),
        'unknown-argument': ('AUnknown', 'Key'), 'missing-argument': ('AMissing', 'Key')}
SORT_KEY = "def sort_key(item):\n    return (isinstance(item, str), item)"
SPECS = {
    'c': dict(file='lib/check/msgformat/c.py', prefix='c-format-string-', plain_sorted=False, isint=None, argattr=None,
              lastint=True,
              params='(src dst : list str) (lastint : nat -> bool) (omit_ok : bool)',
              attrs={'arguments': lambda s: V(s, 'Seq', elem='ConvL')}),
    'py': dict(file='lib/check/msgformat/python.py', prefix='python-format-string-', plain_sorted=True,
               isint="{}.type == 'int'", argattr='type',
               params='(src_seq dst_seq : list str) (src_map dst_map : amap) (omit_ok : bool)',
               attrs={'seq_arguments': lambda s: V(s + '_seq', 'Seq', elem='Conv'), 'map_arguments': lambda s: V(s + '_map', 'Map')}),
    'brace': dict(file='lib/check/msgformat/pybrace.py', prefix='python-brace-format-string-', plain_sorted=False,
                  isint="'int' in {}.types", argattr='types', params='(src dst : amap) (omit_ok : bool)',
                  attrs={'argument_map': lambda s: V(s, 'Map')}),
    'perl': dict(file='lib/check/msgformat/perlbrace.py', prefix='perl-brace-format-string-', plain_sorted=True, isint=None,
                 argattr=None, params='(src dst : list key) (omit_ok : bool)', attrs={'arguments': lambda s: V(s, 'KeySet')}),
}
LOCS = {'msgid': 'LMsgid', 'msgid_plural': 'LMsgidPlural', 'msgstr': 'LMsgstr'}
ATOMS = {
    'flags.fuzzy': V('(mi_fuzzy m)', 'Bool'), 'ctx.encoding': V('(mi_encoding_known m)', 'Opt'),
    'bool(message.msgstr)': V('(has_msgstr m)', 'Bool'), 'any(message.msgstr_plural.values())': V('(mi_any_plural_nonempty m)', 'Bool'),
    'msgid_fmts.get(0)': V('(mi_msgid_ok m)', 'Opt', tag='fmt0'), 'msgid_fmts.get(1)': V('(mi_has_plural m && mi_plural_ok m)', 'Opt', tag='fmt1'),
    'self.check_string(ctx, message, message.msgstr)': V('(msgstr_fmt_ok m)', 'Opt'),
    'ctx.plural_preimage': V('(preimage_of m)', 'Preimage'), 'sorted(message.msgstr_plural.items())': V('(mi_plurals m)', 'PluralItems'),
    'flags.range_min': V('(mi_rmin m)', 'Z'), 'flags.range_max': V('(mi_rmax m)', 'Z'), 'types.SimpleNamespace()': V(None, 'Rec', fields={}),
}
FIELDS = {'src_loc': 'Loc', 'src_fmt': 'Opt', 'dst_loc': 'Loc', 'dst_fmt': 'Opt', 'omitted_int_conv_ok': 'Bool'}
PD = {'src_loc': 'pd_src_loc', 'src_fmt': 'pd_src_fmt', 'dst_loc': 'pd_dst_loc', 'dst_fmt': 'pd_dst_fmt', 'omitted_int_conv_ok': 'pd_omit'}
DECO = V(None, 'Deco')


class Tr:
    def __init__(self, spec, atoms=()):
        self.spec, self.atoms, self.n = spec, dict(atoms), 0

    def fresh(self, stem):
        self.n += 1
        return '%s%d' % (stem, self.n)

    # ------------------------------------------------------------ expressions
    def num(self, v, want, node):
        """coerce a number (or an integer literal) to Nat / Z"""
        if v.ty == 'Int':
            return v.text if want == 'Nat' else '%s%%Z' % v.text
        if v.ty != want:
            bad(node, 'expected %s, got %s' % (want, v.ty))
        return v.text

    def ev(self, n, env, g):
        key = ast.unparse(n)
        if key in self.atoms:
            return self.atoms[key]
        if isinstance(n, ast.Name):
            v = env.get(n.id)
            if not isinstance(v, V):
                bad(n, 'unknown or non-scalar name')
            return v
        if isinstance(n, ast.Constant):
            if n.value is True or n.value is False:
                return V('true' if n.value else 'false', 'Bool')
            if isinstance(n.value, int) and n.value >= 0:
                return V(str(n.value), 'Int')
            if isinstance(n.value, str):
                return V(n.value, 'StrConst')
            bad(n, 'constant')
        if isinstance(n, ast.JoinedStr):
            vals = [self.ev(p.value, env, g) for p in n.values if isinstance(p, ast.FormattedValue)]
            if any(p.conversion != -1 or p.format_spec for p in n.values if isinstance(p, ast.FormattedValue)):
                bad(n, 'f-string conversion')
            shape = [p.value if isinstance(p, ast.Constant) else None for p in n.values]
            if shape == ['msgstr[', None, ']'] and vals[0].ty == 'Z':
                return V('(LMsgstrN %s)' % vals[0].text, 'Loc')
            if all(v.ty == 'Deco' for v in vals):
                return DECO
            bad(n, 'f-string')
        if isinstance(n, ast.Tuple) and not n.elts:
            return V('[]', 'KeySet', prov=ALL)
        if isinstance(n, ast.List) and n.elts and all(isinstance(e, ast.Constant) and type(e.value) is int and e.value >= 0 for e in n.elts):
            return V('[' + '; '.join('%d%%Z' % e.value for e in n.elts) + ']', 'ZList')
        if isinstance(n, ast.Attribute):
            o = self.ev(n.value, env, g)
            if o.ty == 'Fmt' and n.attr in self.spec['attrs']:
                return self.spec['attrs'][n.attr](o.text)
            if o.ty == 'Conv' and n.attr == 'type':
                return V(o.text, 'Str')
            if o.ty == 'Arg' and n.attr == self.spec['argattr']:
                return V('(type_of %s)' % o.text, 'Str') if n.attr == 'type' else V(o.text, 'StrSet')
            if o.ty == 'Rec' and n.attr in o.fields:
                return o.fields[n.attr]
            if o.ty == 'Pending' and n.attr in PD:
                return V('(%s %s)' % (PD[n.attr], o.text), FIELDS[n.attr])
            bad(n, 'attribute of ' + o.ty)
        if isinstance(n, ast.Subscript):
            o = self.ev(n.value, env, g)
            if isinstance(n.slice, ast.Constant) and n.slice.value == 0 and type(n.slice.value) is int:
                if o.ty == 'ConvL':
                    return V(o.text, 'Conv')
                if o.ty == 'Row':
                    return V('(fst %s)' % o.text, 'Arg')
                if o.ty == 'ZList' and any(c.startswith('Nat.eqb (length %s) ' % o.text) and c.split()[-1] != '0' for c in g):
                    return V('(nth 0 %s 0%%Z)' % o.text, 'Z')
                bad(n, '[0] of %s (unguarded?)' % o.ty)
            if isinstance(n.slice, ast.Constant):
                bad(n, 'constant subscript other than [0]')
            k = self.ev(n.slice, env, g)
            if o.ty == 'Map' and k.ty == 'Key' and k.prov is not ALL and o.text in k.prov:
                return V('(mget %s %s)' % (o.text, k.text), 'Row')
            bad(n, 'subscript (key not known to be in the map?)')
        if isinstance(n, ast.BinOp):
            a, b = self.ev(n.left, env, g), self.ev(n.right, env, g)
            if isinstance(n.op, ast.Sub) and a.ty == b.ty == 'Nat':
                if 'Nat.ltb %s %s' % (b.text, a.text) not in g:
                    bad(n, 'subtraction of lengths without a guard b < a')
                return V('(%s - %s)%%nat' % (a.text, b.text), 'Nat')
            if a.ty == b.ty == 'KeySet' and isinstance(n.op, (ast.Sub, ast.BitAnd)):
                if isinstance(n.op, ast.Sub):
                    return V('(kdiff %s %s)' % (a.text, b.text), 'KeySet', prov=a.prov)
                return V('(kinter %s %s)' % (a.text, b.text), 'KeySet', prov=ALL if ALL in (a.prov, b.prov) else a.prov | b.prov)
            if a.ty == b.ty == 'StrSet' and isinstance(n.op, ast.BitAnd):
                return V('(sinter %s %s)' % (a.text, b.text), 'StrSet')
            bad(n, 'binary operator on %s, %s' % (a.ty, b.ty))
        if isinstance(n, (ast.BoolOp, ast.Compare)) or (isinstance(n, ast.UnaryOp) and isinstance(n.op, ast.Not)):
            return V(self.cond(n, env, g)[0], 'Bool')
        if isinstance(n, ast.ListComp):
            [gen] = n.generators
            src = self.ev(gen.iter, env, g)
            if src.ty != 'ZList' or not isinstance(gen.target, ast.Name) or ast.unparse(n.elt) != gen.target.id or len(gen.ifs) != 1 or gen.is_async:
                bad(n, 'list comprehension')
            x = self.fresh('x')
            c = self.cond(gen.ifs[0], dict(env, **{gen.target.id: V(x, 'Z')}), g)[0]
            return V('(filter (fun %s => %s) %s)' % (x, c, src.text), 'ZList')
        if isinstance(n, ast.Call):
            return self.call(n, env, g)
        bad(n, 'expression')

    def call(self, n, env, g):
        f = ast.unparse(n.func)
        kw = {k.arg: k.value for k in n.keywords}
        if None in kw or any(isinstance(a, ast.Starred) for a in n.args):
            bad(n, 'star arguments')
        if f == 'message_repr' and ast.unparse(n) == "message_repr(message, template='{}:')" and env.get('message') is DECO:
            return DECO
        if f == 'tags.safestr' and len(n.args) == 1 and not kw:
            return self.ev(n.args[0], env, g)        # decoration stays decoration, data stays data
        if f == 'len' and len(n.args) == 1 and not kw:
            a = self.ev(n.args[0], env, g)
            if a.ty in ('Seq', 'KeySet', 'ZList'):
                return V('(length %s)' % a.text, 'Nat')
            if a.ty == 'Opt' and a.tag:
                return V(a.tag, 'FmtLen')
            bad(n, 'len of ' + a.ty)
        if f == 'zip' and len(n.args) == 2 and not kw:
            a, b = self.ev(n.args[0], env, g), self.ev(n.args[1], env, g)
            if a.ty == b.ty == 'Seq':
                return V('(combine %s %s)' % (a.text, b.text), 'Zip', elem=(a.elem, b.elem))
        if f == 'set' and not n.args and not kw:
            return V('[]', 'KeySet', prov=ALL)
        if f == 'sorted' and len(n.args) == 1:
            a = self.ev(n.args[0], env, g)
            if a.ty == 'KeySet':
                if kw:
                    if set(kw) != {'key'} or not isinstance(kw['key'], ast.Name) or env.get(kw['key'].id) is not SORTKEY:
                        bad(n, 'sorted with an unknown key function')
                elif not self.spec['plain_sorted']:
                    bad(n, 'plain sorted() on keys that may mix int and str')
                return V('(ksort %s)' % a.text, 'KeyList', prov=a.prov)
        if f == 'str.join' and ast.unparse(n.args[0]) == "', '" and len(n.args) == 2 and not kw:
            s = n.args[1]
            if isinstance(s, ast.Call) and ast.unparse(s.func) == 'sorted' and len(s.args) == 1 and not s.keywords:
                a = self.ev(s.args[0], env, g)
                if a.ty == 'StrSet':
                    return V(a.text, 'Types')
        if isinstance(n.func, ast.Attribute) and n.func.attr == 'keys' and not n.args and not kw:
            m = self.ev(n.func.value, env, g)
            if m.ty == 'Map':
                return V('(keys %s)' % m.text, 'KeySet', prov=frozenset([m.text]))
        if f == 'src_fmt.get_last_integer_conversion' and self.spec.get('lastint') and not n.args and set(kw) == {'n'} \
                and env['src_fmt'].ty == 'Fmt' and env['src_fmt'].text == 'src':
            return V('(lastint %s)' % self.num(self.ev(kw['n'], env, g), 'Nat', n), 'Bool')
        if f == 'all' and len(n.args) == 1 and not kw and isinstance(n.args[0], ast.GeneratorExp):
            ge = n.args[0]
            [gen] = ge.generators
            row = self.ev(gen.iter, env, g)
            if row.ty == 'Row' and not gen.ifs and isinstance(gen.target, ast.Name) and self.spec['isint'] \
                    and ast.unparse(ge.elt) == self.spec['isint'].format(gen.target.id):
                return V('(snd %s)' % row.text, 'Bool')
        if f == 'self.check_string' and len(n.args) == 3 and not kw and [ast.unparse(a) for a in n.args[:2]] == ['ctx', 'message']:
            s = self.ev(n.args[2], env, g)
            if s.ty == 'PluralStr':
                return V(s.text, 'Opt')
        bad(n, 'call')

    def cond(self, n, env, g):
        """condition -> (Gallina bool text, conjuncts known true when it holds)"""
        if isinstance(n, ast.BoolOp):
            parts, conj = [], []
            for v in n.values:
                t, c = self.cond(v, env, g + conj if isinstance(n.op, ast.And) else g)
                parts.append(t)
                conj += c
            if isinstance(n.op, ast.And):
                return '(' + ' && '.join(parts) + ')', conj
            return '(' + ' || '.join(parts) + ')', []
        if isinstance(n, ast.UnaryOp) and isinstance(n.op, ast.Not):
            return '(negb %s)' % self.cond(n.operand, env, g)[0], []
        if isinstance(n, ast.Compare):
            if len(n.ops) == 2 and all(isinstance(o, ast.LtE) for o in n.ops):
                a, x, b = [self.num(self.ev(e, env, g), 'Z', n) for e in [n.left] + n.comparators]
                return '(Z.leb %s %s && Z.leb %s %s)' % (a, x, x, b), []
            if len(n.ops) != 1:
                bad(n, 'chained comparison')
            op, a, b = type(n.ops[0]), self.ev(n.left, env, g), None
            if op in (ast.Is, ast.IsNot) and ast.unparse(n.comparators[0]) == 'None':
                if a.ty == 'Loc' and op is ast.IsNot:
                    return 'true', []
                if a.ty != 'Opt':
                    bad(n, 'None test on ' + a.ty)
                return ('(negb %s)' % a.text if op is ast.Is else a.text), []
            b = self.ev(n.comparators[0], env, g)
            tys = {a.ty, b.ty} - {'Int'}
            if op in (ast.Eq, ast.NotEq) and tys in ({'Str'}, {'ZList'}, {'FmtLen'}):
                if tys == {'FmtLen'}:
                    if {a.text, b.text} != {'fmt0', 'fmt1'}:
                        bad(n, 'length comparison of format objects')
                    t = '(mi_lens_equal m)'
                else:
                    t = '%s %s %s' % ('str_eqb' if tys == {'Str'} else 'zlist_eqb', a.text, b.text)
            elif tys in ({'Nat'}, {'Z'}):
                [ty] = tys
                a, b = self.num(a, ty, n), self.num(b, ty, n)
                M = 'Nat' if ty == 'Nat' else 'Z'
                t = {ast.Lt: '%s.ltb %s %s' % (M, a, b), ast.Gt: '%s.ltb %s %s' % (M, b, a), ast.LtE: '%s.leb %s %s' % (M, a, b),
                     ast.GtE: '%s.leb %s %s' % (M, b, a), ast.Eq: '%s.eqb %s %s' % (M, a, b), ast.NotEq: '%s.eqb %s %s' % (M, a, b)}.get(op)
                if t is None:
                    bad(n, 'comparison operator')
            else:
                bad(n, 'comparison of %s with %s' % (a.ty, b.ty))
            if op is ast.NotEq:
                return '(negb (%s))' % t, []
            return '(%s)' % t, [t]
        v = self.ev(n, env, g)
        if v.ty == 'Bool':
            return v.text, [v.text]
        if v.ty in ('StrSet', 'Preimage'):
            return '(nonempty %s)' % v.text, []
        bad(n, 'truth value of ' + v.ty)

    # ------------------------------------------------------------ statements
    def merge(self, env, render, ea, eb):
        for name in list(env):
            if name not in ea or name not in eb:
                del env[name]
        for name in set(ea) & set(eb):
            a, b = ea[name], eb[name]
            if isinstance(a, Acc) and isinstance(b, Acc):
                k = len(env[name].segs) if isinstance(env.get(name), Acc) else 0
                if name not in env or a.segs[:k] != env[name].segs or b.segs[:k] != env[name].segs:
                    raise Unsupported('list %s is not append-only' % name)
                if a.segs[k:] or b.segs[k:]:
                    env[name] = Acc(a.segs[:k] + [render(Acc(a.segs[k:]).text(), Acc(b.segs[k:]).text())])
            elif isinstance(a, V) and isinstance(b, V):
                env[name] = self.merge_v(render, a, b, name)
            else:
                raise Unsupported('branches bind %s to different kinds of value' % name)

    def merge_v(self, render, a, b, name):
        if a is b or a.same(b):
            return a
        if a.ty != b.ty or a.elem != b.elem or a.ty in ('Deco', 'Fmt', 'SortKey'):
            raise Unsupported('branches bind %s to values of type %s / %s' % (name, a.ty, b.ty))
        if a.ty == 'Rec':
            return V(None, 'Rec', fields={f: self.merge_v(render, a.fields[f], b.fields[f], name + '.' + f) for f in a.fields if f in b.fields})
        prov = b.prov if a.prov is ALL else a.prov if b.prov is ALL else a.prov & b.prov
        return V(render(a.text, b.text), a.ty, prov=prov)

    @staticmethod
    def clone(env):
        return {k: (Acc(v.segs) if isinstance(v, Acc) else v) for k, v in env.items()}

    def branch(self, env, render, fa, fb):
        ea, eb = self.clone(env), self.clone(env)
        fa(ea)
        fb(eb)
        self.merge(env, render, ea, eb)

    def block(self, stmts, env, g, where):
        for i, s in enumerate(stmts):
            rest = stmts[i + 1:]
            exit_ = ast.Continue if where == 'loop' else ast.Return if where == 'func' else ()
            is_exit = lambda body: len(body) == 1 and isinstance(body[0], exit_) and getattr(body[0], 'value', None) is None
            if isinstance(s, ast.If) and is_exit(s.body) and not s.orelse:
                c, _ = self.cond(s.test, env, g)
                self.branch(env, lambda a, b: '(if %s then %s else %s)' % (c, a, b), lambda e: None, lambda e: self.block(rest, e, g, where))
                return
            if isinstance(s, ast.Try) and where == 'loop' and len(s.body) == 1 and len(s.handlers) == 1 and not s.orelse and not s.finalbody \
                    and ast.unparse(s.handlers[0].type) == 'KeyError' and s.handlers[0].name is None and is_exit(s.handlers[0].body) \
                    and isinstance(s.body[0], ast.Assign) and len(s.body[0].targets) == 1 and isinstance(s.body[0].targets[0], ast.Name) \
                    and isinstance(s.body[0].value, ast.Subscript):
                m, k = self.ev(s.body[0].value.value, env, g), self.ev(s.body[0].value.slice, env, g)
                if m.ty != 'Preimage' or k.ty != 'Z':
                    bad(s, 'try')
                x, name = self.fresh('pre'), s.body[0].targets[0].id

                def found(e):
                    e[name] = V(x, 'ZList')
                    self.block(rest, e, g, where)
                self.branch(env, lambda a, b: '(match assoc %s %s with Some %s => %s | None => %s end)' % (k.text, m.text, x, a, b), found, lambda e: None)
                return
            self.stmt(s, env, g)

    def stmt(self, s, env, g):
        if isinstance(s, ast.Pass):
            return
        if isinstance(s, ast.FunctionDef):
            if ast.unparse(s) != SORT_KEY:
                bad(s, 'local function other than the known sort_key')
            env[s.name] = SORTKEY
            return
        if isinstance(s, ast.Assert):
            t = s.test
            if s.msg is None and isinstance(t, ast.Call) and ast.unparse(t.func) == 'isinstance' and ast.unparse(t.args[1]) == 'int' \
                    and self.ev(t.args[0], env, g).ty == 'Z':
                return
            if s.msg is None and isinstance(t, ast.Compare) and self.cond(t, env, g)[0] == 'true':
                return
            bad(s, 'assert')
        if isinstance(s, ast.Assign) and len(s.targets) == 1:
            t = s.targets[0]
            if isinstance(t, ast.Name):
                if isinstance(s.value, ast.List) and not s.value.elts:
                    env[t.id] = Acc()
                    return
                v = self.ev(s.value, env, g)
                if v.ty in ('Int', 'StrConst', 'FmtLen'):
                    bad(s, 'assignment of a bare constant')
                env[t.id] = v
                return
            if isinstance(t, ast.List) and len(t.elts) == 1 and isinstance(t.elts[0], ast.Name):
                v = self.ev(s.value, env, g)
                if v.ty != 'KeySet' or 'Nat.eqb (length %s) 1' % v.text not in g:
                    bad(s, 'single-element unpacking without a guard len(...) == 1')
                env[t.elts[0].id] = V('(khd %s)' % v.text, 'Key', prov=v.prov)
                return
            if isinstance(t, ast.Attribute) and isinstance(t.value, ast.Name) and isinstance(env.get(t.value.id), V) \
                    and env[t.value.id].ty == 'Rec' and t.attr in FIELDS:
                v = self.ev(s.value, env, g)
                if FIELDS[t.attr] == 'Loc' and v.ty == 'StrConst' and v.text in LOCS:
                    v = V(LOCS[v.text], 'Loc')
                if v.ty != FIELDS[t.attr]:
                    bad(s, 'field %s expects %s, got %s' % (t.attr, FIELDS[t.attr], v.ty))
                env[t.value.id] = V(None, 'Rec', fields=dict(env[t.value.id].fields, **{t.attr: v}))
                return
        if isinstance(s, ast.AugAssign) and isinstance(s.op, ast.Add) and isinstance(s.target, ast.Name) and isinstance(env.get(s.target.id), Acc) \
                and isinstance(s.value, ast.List) and len(s.value.elts) == 1:
            d = self.ev(s.value.elts[0], env, g)
            if d.ty != 'Rec' or set(d.fields) != set(FIELDS):
                bad(s, 'appending an incomplete record')
            env[s.target.id].segs.append('[{| ' + '; '.join('%s := %s' % (PD[f], d.fields[f].text) for f in FIELDS) + ' |}]')
            return
        if isinstance(s, ast.If):
            c, conj = self.cond(s.test, env, g)
            self.branch(env, lambda a, b: '(if %s then %s else %s)' % (c, a, b),
                        lambda e: self.block(s.body, e, g + conj, 'branch'), lambda e: self.block(s.orelse, e, g, 'branch'))
            return
        if isinstance(s, ast.For) and not s.orelse:
            return self.loop(s, env, g)
        if isinstance(s, ast.Expr) and isinstance(s.value, ast.Call):
            f = ast.unparse(s.value.func)
            if f == 'self.tag':
                return self.tag(s.value, env, g)
            if f == 'self.check_args' and self.spec.get('message'):
                a, kw = s.value.args, {k.arg: k.value for k in s.value.keywords}
                if len(a) != 5 or ast.unparse(a[0]) != 'message' or set(kw) != {'omitted_int_conv_ok'}:
                    bad(s, 'check_args call')
                vs = [self.ev(x, env, g) for x in a[1:]] + [self.ev(kw['omitted_int_conv_ok'], env, g)]
                if [v.ty for v in vs] != ['Loc', 'Opt', 'Loc', 'Opt', 'Bool']:
                    bad(s, 'check_args argument types')
                env['$out'].segs.append('[{| iv_src := %s; iv_dst := %s; iv_omit_ok := %s |}]' % (vs[0].text, vs[2].text, vs[4].text))
                return
        bad(s, 'statement')

    def loop(self, s, env, g):
        x = self.fresh('x')
        names = [n.id for n in (s.target.elts if isinstance(s.target, ast.Tuple) else [s.target]) if isinstance(n, ast.Name)]
        if isinstance(s.iter, ast.Name) and isinstance(env.get(s.iter.id), Acc):
            it, binds = env[s.iter.id].text(), [V(x, 'Pending')]
        else:
            v = self.ev(s.iter, env, g)
            it = v.text
            if v.ty == 'Zip':
                binds = [V('(fst %s)' % x, v.elem[0]), V('(snd %s)' % x, v.elem[1])]
            elif v.ty == 'KeyList':
                binds = [V(x, 'Key', prov=v.prov)]
            elif v.ty == 'PluralItems':
                binds = [V('(fst %s)' % x, 'Z'), V('(snd %s)' % x, 'PluralStr')]
            else:
                bad(s, 'iteration over %s (unordered or unknown)' % v.ty)
        if len(names) != len(binds) or len(set(names)) != len(names) or not isinstance(s.target, (ast.Name, ast.Tuple)):
            bad(s, 'loop target')
        be = {k: (Acc() if isinstance(v, Acc) else v) for k, v in env.items()}
        be.update(zip(names, binds))
        self.block(s.body, be, g, 'loop')
        for k, v in list(env.items()):
            if isinstance(v, Acc):
                if not isinstance(be.get(k), Acc):
                    bad(s, 'loop body rebinds list ' + k)
                if be[k].segs:
                    v.segs.append('(flat_map (fun %s => %s) %s)' % (x, be[k].text(), it))
            elif k in names:
                del env[k]
            elif be.get(k) is not v:
                bad(s, 'loop body assigns %s, which lives outside the loop' % k)

    def tag(self, call, env, g):
        if call.keywords or not call.args or not isinstance(call.args[0], ast.Constant) or not str(call.args[0].value).startswith(self.spec['prefix']):
            bad(call, 'tag name')
        suffix = call.args[0].value[len(self.spec['prefix']):]
        if suffix not in TAGS:
            bad(call, 'unknown tag')
        ctor, slots = TAGS[suffix]
        data = [v for v in (self.ev(a, env, g) for a in call.args[1:]) if v.ty not in ('Deco', 'StrConst')]
        if len(data) != len(slots.split()):
            bad(call, 'number of data arguments of the tag')
        out = []
        for v, slot in zip(data, slots.split()):
            if slot == 'Types' and v.ty == 'Str':
                out.append('[%s]' % v.text)
            elif slot == v.ty and v.text is not None:
                out.append(v.text)
            else:
                bad(call, 'tag argument of type %s where %s is recorded' % (v.ty, slot))
        env['$out'].segs.append('[%s %s]' % (ctor, ' '.join(out)))


SORTKEY = V(None, 'SortKey')


def find_method(path, name):
    tree = ast.parse(open(os.path.join(REPO, path), encoding='utf-8').read())
    found = [f for c in tree.body if isinstance(c, ast.ClassDef) and c.name == 'Checker' for f in c.body if isinstance(f, ast.FunctionDef) and f.name == name]
    if len(found) != 1 or found[0].decorator_list:
        raise Unsupported('%s: expected exactly one undecorated Checker.%s' % (path, name))
    return found[0]


def translate_check_args(kind):
    spec = SPECS[kind]
    fn = find_method(spec['file'], 'check_args')
    if ast.unparse(fn.args) != 'self, message, src_loc, src_fmt, dst_loc, dst_fmt, *, omitted_int_conv_ok=False':
        bad(fn, 'signature of check_args')
    env = {'message': DECO, 'src_loc': DECO, 'dst_loc': DECO, 'src_fmt': V('src', 'Fmt'), 'dst_fmt': V('dst', 'Fmt'),
           'omitted_int_conv_ok': V('omit_ok', 'Bool'), '$out': Acc()}
    Tr(spec).block(fn.body, env, [], 'args')
    return '%s : list adiag :=\n  %s' % (spec['params'], '\n  ++ '.join(env['$out'].segs) or '[]')


def translate_check_message_tail():
    fn = find_method('lib/check/msgformat/__init__.py', 'check_message')
    if ast.unparse(fn.args) != 'self, ctx, message, flags':
        bad(fn, 'signature of check_message')
    starts = [i for i, s in enumerate(fn.body) if isinstance(s, ast.If) and ast.unparse(s.test) == 'flags.fuzzy']
    if len(starts) != 1:
        bad(fn, 'cannot find the statement `if flags.fuzzy:`')
    env = {'message': DECO, '$out': Acc()}
    Tr(dict(message=True, attrs={}, argattr=None, isint=None, plain_sorted=False, prefix='\0'), ATOMS).block(fn.body[starts[0]:], env, [], 'func')
    return '(m : msg_in) : list invocation :=\n  %s' % env['$out'].text()


def main(emit):
    out = ['(* generated by tools/gen/gen_msgformat_src.py from the python ast of lib/check/msgformat/*.py - do not edit *)',
           'From Coq Require Import List ZArith NArith Bool.', 'From I18n Require Import Model.MsgFormat Model.MsgFormatPy.',
           'Import ListNotations.', 'Local Open Scope bool_scope.', '']
    errors = []
    jobs = [('src_c_check_args', lambda: translate_check_args('c')), ('src_py_check_args', lambda: translate_check_args('py')),
            ('src_brace_check_args', lambda: translate_check_args('brace')), ('src_perl_check_args', lambda: translate_check_args('perl')),
            ('src_check_message_tail', translate_check_message_tail)]
    for name, job in jobs:
        try:
            out.append('Definition %s %s.\n' % (name, job()))
        except (Unsupported, KeyError, ValueError, IndexError, AttributeError, TypeError, OSError, SyntaxError) as e:
            msg = '%s: %s: %s' % (name, type(e).__name__, e)
            errors.append(msg)
            out.append('(* NOT TRANSLATABLE - %s *)\nDefinition %s : unit := tt.\n' % (msg.replace('*)', '* )').replace('(*', '( *').replace('"', "'"), name))
    emit('MsgFormatSrc.v', '\n'.join(out))
    if errors:
        raise SystemExit('gen_msgformat_src: the source left the supported subset (tie broken):\n  ' + '\n  '.join(errors))


if __name__ == '__main__':
    import gen_tables
    main(gen_tables.emit)

"""Source translator: lib/moparser.py (module byte constants, Parser._read_ints, Parser._parse_entry, Parser._parse)
-> coq/Generated/MoParserSrc.v.  Proofs/MoParserSrc.v proves every generated function equal to the hand-written model
Model/MoParser.v.  The generated text applies only the vocabulary of Model/MoParserPy.v and the byte primitives of
Model/MoParser.v (len slice index bytes_eqb bytes_ltb splitn split_all).  FAIL CLOSED: anything not listed raises Unsupported.

Results.  Every statement sequence becomes a term of type `mres T`: MRet v (completed), MAssert (failed assert), MRaise x.
A method returns MRet (value, (attributes of self it assigns, in ATTRS order)); value is tt for `return None`/end of body
(all returns of a method must have one kind).  Attributes of self read before being assigned are parameters self_<x>
(_view, _encoding are set by the untranslated __init__); self.instance is represented by two of them: .possible_hidden_strings
(bool) and the list of appended entries.  Method parameters are non-negative ints (every call site is checked).  Oracles
(parameters, added when used): asc = encodings.is_ascii_compatible_encoding, dec cs s = "s.decode(cs) succeeds",
re_search pattern s = re.search (None | Some match), re_group m k = m.group(k).

Kinds.  N (int >= 0: literals, struct.unpack results, range variables, + and * of those), bool, bytes, str, view (memoryview
cast to 'c': indexing gives bytes of length 1), blist / nlist / tlist (lists of bytes / ints / decoded texts), obytes / ostr /
omatch (value or None), match, text (a decoded string, represented by the bytes it came from), kwargs, entry, none.

Expressions.  int, bytes, str literals (as code lists); True False None; locals v_<name>; module constants src_<name>;
a + b, a * b on N; literal << literal (folded); len(x); v[a:b], v[:b] on a view -> slice (clipping, as Python for
non-negative bounds); v.tobytes(); v[i] on a view -> match index v i: None => MRaise XIndex, Some t => [t];
l[k] (k literal) -> nth_error, None => XIndex; b.split(sep, k) / b.split(sep) with a 1-byte literal sep -> splitn k / split_all;
[a, b] of bytes -> list; comparisons (one operator): > >= < <= == != on N, == != < on bytes (bytes_eqb, bytes_ltb),
bytes < obytes -> match: None => MRaise XType; == != of lists of bytes (blist_eqb); list == bytes-or-None -> false (different
builtin types never compare equal); x is None / is not None -> is_none; and or not on bools; truth of a list -> negb (is_nil l);
re.search(literal, s); m.group(literal); encodings.is_ascii_compatible_encoding(s) -> asc s; s.decode('ASCII') ->
py_decode_ascii (kind str); s.decode(cs) -> py_decode dec cs s (kind text); dict(key=v) / polib.MOEntry(**kw) -> kw_set_<key> /
MOEntry; {i: E for i, s in enumerate(L)} with E not mentioning i -> mmap (fun s => E) L (the dict is its value list);
struct.unpack(e + 'I' * n, data) -> py_unpack_I e n data; 'text' / f'text{int}' as exception argument -> [FText ..; FNum ..].
An operation that can raise is bound in front of the statement it occurs in, in evaluation order (rejected in the second
operand of and/or, where evaluation is conditional).

Statements (rest = what follows).
  v = e -> let v_v := e in rest;  self.x = e -> let self_x := e in rest (coerced to the attribute's kind: Some e / None)
  [a, b] = e, [a] = e (e a list or a method call) -> match e with [a; b] => rest | _ => MRaise XValue end
  a, b = divmod(e, c) (c a positive literal) -> let a := e / c in let b := e mod c
  *a, b = e -> match unsnoc e with None => MRaise XValue | Some (a, b) => rest end
  v = self.m(..) / [..] = self.m(..) -> mbind (src_m oracles attributes args) (fun '(v, (assigned attributes)) => rest)
  kw.update(key=e) -> let kw := kw_set_<key> e kw;  self.instance.append(e) -> let self_instance_entries := .. ++ [e]
  self.instance.possible_hidden_strings = e;  entry.attr = None | () | lambda: True -> entry_setattr "attr" const entry
  raise SyntaxError(msg) -> MRaise (XSyntax msg)  (the module's own class, checked to derive from Exception only)
  assert c -> if c then rest else MAssert;  assert v is not None -> match v with None => MAssert | Some v => rest (v refined)
  return e -> MRet (e, attributes);  pass -> rest
  if c: A else: B.  `if v is None` / `if v is not None` on an optional local -> match v with None => .. | Some v => .. (refined).
      When at most one branch can complete (the others end in raise/return) or nothing follows: `if c then A;rest else B;rest`.
      Otherwise JOIN: mbind (if c then A' else B') (fun '(outs) => rest) where outs = the variables assigned in a branch that
      exist at the end of every completing branch with compatible kinds (str and ostr join to ostr by Some ..) and
      A' ends in MRet (outs); a variable assigned in some branches only, or with incompatible kinds, cannot be read afterwards.
  try: S except K: H (one statement S, K = IndexError | UnicodeError, no else/finally/as) -> JOIN with mcatch S' K H'
  for i in range(e): B (no break/continue/else) -> Fixpoint <f>_loop<k> .. fuel v_i state: O => MRet state, S fuel => B then the
      recursive call with v_i + 1; called with (N.to_nat e) 0; state = variables existing before the loop that B assigns;
      its other parameters are the variables B mentions.
Module level: only imports, the two byte constants (a literal; NAME[::-1] -> rev), class SyntaxError(Exception): pass, class
Parser (no bases, methods only), main and the `if __name__ == '__main__'` tail; re struct polib encodings SyntaxError Parser and
the builtins used must not be rebound.
Not translated: Parser.__init__ (reads the file, cast('c'), creates self.instance, `del self._view`), Parser.parse, main.
On failure a definition-free MoParserSrc.v is written (no stale translation survives) and the error is re-raised.
"""
import ast
import os
import re

REPO = os.environ.get('VERIF_REPO') or '/repo'
ORDER = ['_read_ints', '_parse_entry', '_parse']
TYPES = {'N': 'N', 'bool': 'bool', 'bytes': 'bytes', 'str': 'bytes', 'view': 'bytes', 'blist': 'list bytes', 'nlist': 'list N',
         'tlist': 'list bytes', 'obytes': 'option bytes', 'ostr': 'option bytes', 'omatch': 'option M', 'match': 'M',
         'text': 'bytes', 'kwargs': 'kwargs', 'entry': 'pentry', 'entries': 'list pentry', 'unit': 'unit'}
ATTRS = {'_view': ('self_view', 'view'), '_endian': ('self_endian', 'str'), '_encoding': ('self_encoding', 'ostr'),
         '_last_msgid': ('self_last_msgid', 'obytes'), 'instance.possible_hidden_strings': ('self_instance_hidden', 'bool'),
         'instance.entries': ('self_instance_entries', 'entries')}
AKIND = dict(ATTRS.values())
ORACLES = {'asc': 'bytes -> bool', 'dec': 'bytes -> bytes -> bool', 're_search': 'bytes -> bytes -> option M', 're_group': 'M -> N -> bytes'}
REFINE = {'ostr': 'str', 'obytes': 'bytes', 'omatch': 'match'}
KWKEYS = {'msgid': 'text', 'msgctxt': 'text', 'msgstr': 'text', 'msgid_plural': 'text', 'msgstr_plural': 'tlist'}
EXCEPT = {'IndexError': 'KIndexError', 'UnicodeError': 'KUnicodeError'}
PYCONST = {'None': 'PNone', '()': 'PEmptyTuple', 'lambda: True': '(PConstFn true)', 'lambda: False': '(PConstFn false)'}
IMPORTS = {'re': 'import re', 'struct': 'import struct', 'polib': 'import polib', 'encodings': 'from lib import encodings',
           'SyntaxError': 'class SyntaxError(Exception):\n    pass'}
BUILTINS = {'len', 'divmod', 'dict', 'enumerate', 'range', 'IndexError', 'UnicodeError'}
FUNCS = {}    # method name -> dict(coq, oracles, params, args, ret, writes)
CONSTS = {}   # module constant -> coq name


class Unsupported(Exception):
    pass


def bad(node, why):
    raise Unsupported('%s: line %s: %s' % (why, getattr(node, 'lineno', '?'), ast.unparse(node)[:100]))


def ind(t):
    return '\n'.join('  ' + ln for ln in t.split('\n'))


def lit(s):
    """bytes / str literal -> list of byte values / code points, with the text as a comment"""
    codes = list(s) if isinstance(s, bytes) else [ord(c) for c in s]
    return '[%s] (* %s *)' % ('; '.join(map(str, codes)), repr(s).replace('*)', '* )').replace('(*', '( *'))


def tup(xs):
    return 'tt' if not xs else xs[0] if len(xs) == 1 else '(%s)' % ', '.join(xs)


def pat(xs):
    return '_' if not xs else xs[0] if len(xs) == 1 else "'(%s)" % ', '.join(xs)


def tupty(kinds):
    return 'unit' if not kinds else ' * '.join(TYPES[k] for k in kinds)


def uses(name, text):
    return re.search(r'(?<![A-Za-z0-9_])%s(?![A-Za-z0-9_])' % re.escape(name), text) is not None


def attr_of(e):
    """self.x / self.instance.possible_hidden_strings -> key of ATTRS, else None"""
    src = ast.unparse(e)
    return src[5:] if src.startswith('self.') and src[5:] in ATTRS and src[5:] != 'instance.entries' else None


def self_call(e):
    return (isinstance(e, ast.Call) and isinstance(e.func, ast.Attribute) and ast.unparse(e.func.value) == 'self'
            and e.func.attr in FUNCS)


def assigned(stmts):
    """Gallina names of everything a statement list may (re)bind, in order of first occurrence"""
    out = []

    def add(n):
        if n not in out:
            out.append(n)

    def target(t):
        if isinstance(t, ast.Name):
            add('v_' + t.id)
        elif isinstance(t, (ast.List, ast.Tuple)):
            for x in t.elts:
                target(x)
        elif isinstance(t, ast.Starred):
            target(t.value)
        elif isinstance(t, ast.Attribute) and attr_of(t):
            add(ATTRS[attr_of(t)][0])
        elif isinstance(t, ast.Attribute) and isinstance(t.value, ast.Name):
            add('v_' + t.value.id)
        else:
            bad(t, 'assignment target')
    for s in stmts:
        for n in ast.walk(s):
            if isinstance(n, ast.Assign):
                for t in n.targets:
                    target(t)
            elif isinstance(n, (ast.AugAssign, ast.AnnAssign, ast.NamedExpr, ast.With, ast.Delete, ast.Global, ast.Nonlocal, ast.Import)):
                bad(n, 'statement')
            elif isinstance(n, ast.For):
                target(n.target)
            elif isinstance(n, ast.Call) and isinstance(n.func, ast.Attribute):
                if self_call(n):
                    for w in FUNCS[n.func.attr]['writes']:
                        add(ATTRS[w][0])
                elif ast.unparse(n.func) == 'self.instance.append':
                    add('self_instance_entries')
                elif n.func.attr == 'update' and isinstance(n.func.value, ast.Name):
                    add('v_' + n.func.value.id)
    return out


def completes(stmts):
    """can control reach the end of this statement list?  (syntactic: raise/return last, or an if/else whose branches cannot)"""
    if not stmts:
        return True
    s = stmts[-1]
    if isinstance(s, (ast.Raise, ast.Return)):
        return False
    if isinstance(s, ast.If):
        return completes(s.body) or completes(s.orelse)
    return True


def joinkind(kinds):
    ks = set(kinds)
    if len(ks) == 1:
        return kinds[0]
    for opt, base in (('ostr', 'str'), ('obytes', 'bytes')):
        if ks <= {opt, base, 'none'}:
            return opt
    return None


def coerce(t, k, to, node=None):
    if k == to:
        return t
    if (k, to) in (('str', 'ostr'), ('bytes', 'obytes')):
        return '(Some %s)' % t
    if k == 'none' and to in ('ostr', 'obytes'):
        return 'None'
    raise Unsupported('a value of kind %s where %s is expected%s' % (k, to, ': ' + ast.unparse(node) if node else ''))


class Fn:
    def __init__(self, fdef):
        a = fdef.args
        if a.posonlyargs or a.kwonlyargs or a.kwarg or a.vararg or fdef.decorator_list or [x.arg for x in a.args][:1] != ['self']:
            bad(fdef, 'signature')
        self.fdef, self.name = fdef, 'src_' + fdef.name.lstrip('_')
        names = [x.arg for x in a.args][1:]
        defaults = [None] * (len(names) - len(a.defaults)) + list(a.defaults)
        for d in defaults:
            if d is not None and not (isinstance(d, ast.Constant) and type(d.value) is int and d.value >= 0):
                bad(fdef, 'default value')
        self.args = [(n, None if d is None else str(d.value)) for n, d in zip(names, defaults)]
        self.oracles, self.params, self.aux, self.pre = [], [], [], []
        self.ntmp = self.ntok = 0
        self.ret = None
        self.writes = [w for w in ATTRS if ATTRS[w][0] in assigned(fdef.body)]

    # ------------------------------------------------------------ helpers
    def tmp(self):
        self.ntmp += 1
        return 't%d' % self.ntmp

    def token(self):
        self.ntok += 1
        return '@%d@' % self.ntok

    def oracle(self, o):
        if o not in self.oracles:
            self.oracles.append(o)
        return o

    def attr(self, key, env):
        """read of self.<key>: the current binding if the method assigned it, else a parameter"""
        name, kind = ATTRS[key]
        if name not in env and key not in self.params:
            self.params.append(key)
        return (name, env.get(name, kind))

    def kind_in(self, env, n):
        if n in env:
            return env[n]
        if n in AKIND:
            self.attr([k for k in ATTRS if ATTRS[k][0] == n][0], env)
            return AKIND[n]
        return None

    def bind(self, name, node):
        if not re.fullmatch('[A-Za-z_][A-Za-z0-9_]*', name) or name in BUILTINS or name in IMPORTS or name in CONSTS:
            bad(node, 'variable name ' + name)
        return 'v_' + name

    def take(self):
        p, self.pre = self.pre, []
        return p

    @staticmethod
    def wrap(pre, body):
        for head, tail in reversed(pre):
            body = head + '\n' + body + tail
        return body

    def pure(self, e, env, kind=None):
        n0 = len(self.pre)
        t, k = self.ex(e, env)
        if len(self.pre) != n0:
            bad(e, 'an operation that can raise, where evaluation is conditional')
        if kind and k != kind:
            bad(e, '%s expected, got %s' % (kind, k))
        return t, k

    def typed(self, e, env, kinds):
        t, k = self.ex(e, env)
        if k not in kinds:
            bad(e, '%s expected, got %s' % ('/'.join(kinds), k))
        return t, k

    # ------------------------------------------------------------ expressions -> (text, kind)
    def ex(self, e, env):
        if isinstance(e, ast.Constant):
            v = e.value
            if v is None:
                return ('None', 'none')
            if v is True or v is False:
                return (str(v).lower(), 'bool')
            if type(v) is int and v >= 0:
                return (str(v), 'N')
            if type(v) in (bytes, str):
                return (lit(v), 'bytes' if type(v) is bytes else 'str')
        elif isinstance(e, ast.Name):
            if 'v_' + e.id in env:
                return ('v_' + e.id, env['v_' + e.id])
            if e.id in CONSTS:
                return (CONSTS[e.id], 'bytes')
        elif isinstance(e, ast.Attribute) and attr_of(e):
            return self.attr(attr_of(e), env)
        elif isinstance(e, ast.List) and e.elts:
            return ('[%s]' % '; '.join(self.typed(x, env, ['bytes'])[0] for x in e.elts), 'blist')
        elif isinstance(e, ast.BinOp):
            if isinstance(e.op, ast.LShift) and all(isinstance(x, ast.Constant) and type(x.value) is int and 0 <= x.value < 64 for x in (e.left, e.right)):
                return (str(e.left.value << e.right.value), 'N')
            if isinstance(e.op, (ast.Add, ast.Mult)):
                a, b = self.typed(e.left, env, ['N'])[0], self.typed(e.right, env, ['N'])[0]
                return ('(%s %s %s)' % (a, '+' if isinstance(e.op, ast.Add) else '*', b), 'N')
        elif isinstance(e, ast.UnaryOp) and isinstance(e.op, ast.Not):
            return ('(negb %s)' % self.truth(e.operand, env), 'bool')
        elif isinstance(e, ast.BoolOp):
            ts = [self.truth(e.values[0], env)] + [self.truth(v, env, True) for v in e.values[1:]]
            return ('(%s)' % (' && ' if isinstance(e.op, ast.And) else ' || ').join(ts), 'bool')
        elif isinstance(e, ast.Compare) and len(e.ops) == 1:
            return self.compare(e, env)
        elif isinstance(e, ast.Subscript):
            return self.subscript(e, env)
        elif isinstance(e, ast.Call):
            return self.call(e, env)
        elif isinstance(e, ast.DictComp):
            return self.dictcomp(e, env)
        bad(e, 'expression')

    def truth(self, e, env, must_be_pure=False):
        t, k = self.pure(e, env) if must_be_pure else self.ex(e, env)
        if k == 'bool':
            return t
        if k in ('blist', 'tlist', 'nlist'):
            return '(negb (is_nil %s))' % t
        bad(e, 'truth value of ' + k)

    def compare(self, e, env):
        op = e.ops[0]
        a, ka = self.ex(e.left, env)
        b, kb = self.ex(e.comparators[0], env)
        neg = lambda c: '(negb %s)' % c
        if isinstance(op, (ast.Is, ast.IsNot)) and kb == 'none':
            c = '(is_none %s)' % a if ka in REFINE else 'true' if ka == 'none' else 'false' if ka in TYPES else bad(e, 'comparison')
            return (neg(c) if isinstance(op, ast.IsNot) else c, 'bool')
        if ka == kb == 'N':
            sym = {ast.Gt: (b, '<?', a), ast.GtE: (b, '<=?', a), ast.Lt: (a, '<?', b), ast.LtE: (a, '<=?', b),
                   ast.Eq: (a, '=?', b), ast.NotEq: (a, '=?', b)}.get(type(op)) or bad(e, 'comparison')
            c = '(%s %s %s)' % sym
            return (neg(c) if isinstance(op, ast.NotEq) else c, 'bool')
        if isinstance(op, (ast.Eq, ast.NotEq)):
            if ka == kb and ka in ('bytes', 'blist'):
                c = '(%s %s %s)' % ('bytes_eqb' if ka == 'bytes' else 'blist_eqb', a, b)
            elif {ka, kb} in ({'blist', 'bytes'}, {'blist', 'obytes'}, {'blist', 'none'}):
                c = 'false'       # a list never equals a bytes object or None
            else:
                bad(e, 'comparison of %s and %s' % (ka, kb))
            return (neg(c) if isinstance(op, ast.NotEq) else c, 'bool')
        if isinstance(op, ast.Lt) and ka == 'bytes' and kb == 'bytes':
            return ('(bytes_ltb %s %s)' % (a, b), 'bool')
        if isinstance(op, ast.Lt) and ka == 'bytes' and kb == 'obytes':
            t = self.tmp()
            self.pre.append(('match %s with\n| None => MRaise XType\n| Some %s =>' % (b, t), '\nend'))
            return ('(bytes_ltb %s %s)' % (a, t), 'bool')
        bad(e, 'comparison of %s and %s' % (ka, kb))

    def subscript(self, e, env):
        v, kv = self.ex(e.value, env)
        if kv == 'view' and isinstance(e.slice, ast.Slice) and e.slice.step is None and e.slice.upper is not None:
            lo = '0' if e.slice.lower is None else self.typed(e.slice.lower, env, ['N'])[0]
            return ('(slice %s %s %s)' % (v, lo, self.typed(e.slice.upper, env, ['N'])[0]), 'view')
        if kv == 'view' and not isinstance(e.slice, ast.Slice):
            i, t = self.typed(e.slice, env, ['N'])[0], self.tmp()
            self.pre.append(('match index %s %s with\n| None => MRaise XIndex\n| Some %s =>' % (v, i, t), '\nend'))
            return ('[%s]' % t, 'bytes')
        if kv == 'blist' and isinstance(e.slice, ast.Constant) and type(e.slice.value) is int and e.slice.value >= 0:
            t = self.tmp()
            self.pre.append(('match nth_error %s %d%%nat with\n| None => MRaise XIndex\n| Some %s =>' % (v, e.slice.value, t), '\nend'))
            return (t, 'bytes')
        bad(e, 'subscript of ' + kv)

    def bound(self, text, kind):
        """an operation of type mres: bound to a fresh name in front of the current statement"""
        t = self.tmp()
        self.pre.append(('mbind (%s) (fun %s =>' % (text, t), ')'))
        return (t, kind)

    def call(self, e, env):
        f, args, kws = e.func, e.args, e.keywords
        fn = ast.unparse(f)
        if isinstance(f, ast.Name) and 'v_' + f.id in env or any(isinstance(a, ast.Starred) for a in args):
            bad(e, 'call')
        if fn == 'len' and len(args) == 1 and not kws:
            t, k = self.ex(args[0], env)
            if k in ('view', 'bytes', 'blist', 'nlist', 'tlist'):
                return ('(%s %s)' % ('len' if k in ('view', 'bytes') else 'llen', t), 'N')
        elif fn == 're.search' and len(args) == 2 and not kws and isinstance(args[0], ast.Constant) and type(args[0].value) is bytes:
            return ('(%s %s %s)' % (self.oracle('re_search'), lit(args[0].value), self.typed(args[1], env, ['bytes'])[0]), 'omatch')
        elif fn == 'encodings.is_ascii_compatible_encoding' and len(args) == 1 and not kws:
            return ('(%s %s)' % (self.oracle('asc'), self.typed(args[0], env, ['str'])[0]), 'bool')
        elif fn == 'dict' and not args and len(kws) == 1 and kws[0].arg in KWKEYS:
            return ('(kw_set_%s %s kw_empty)' % (kws[0].arg, self.typed(kws[0].value, env, [KWKEYS[kws[0].arg]])[0]), 'kwargs')
        elif fn == 'polib.MOEntry' and not args and len(kws) == 1 and kws[0].arg is None:
            return ('(MOEntry %s)' % self.typed(kws[0].value, env, ['kwargs'])[0], 'entry')
        elif fn == 'struct.unpack' and len(args) == 2 and not kws:
            m = args[0]
            if (isinstance(m, ast.BinOp) and isinstance(m.op, ast.Add) and isinstance(m.right, ast.BinOp) and isinstance(m.right.op, ast.Mult)
                    and isinstance(m.right.left, ast.Constant) and m.right.left.value == 'I'):
                en, n = self.typed(m.left, env, ['str'])[0], self.typed(m.right.right, env, ['N'])[0]
                return self.bound('py_unpack_I %s %s %s' % (en, n, self.typed(args[1], env, ['view', 'bytes'])[0]), 'nlist')
        elif isinstance(f, ast.Attribute) and not kws:
            x, kx = self.ex(f.value, env)
            if f.attr == 'tobytes' and kx == 'view' and not args:
                return (x, 'bytes')
            if f.attr == 'group' and kx == 'match' and len(args) == 1:
                return ('(%s %s %s)' % (self.oracle('re_group'), x, self.typed(args[0], env, ['N'])[0]), 'bytes')
            if f.attr == 'split' and kx == 'bytes' and args and isinstance(args[0], ast.Constant) and type(args[0].value) is bytes and len(args[0].value) == 1:
                if len(args) == 1:
                    return ('(split_all %d %s)' % (args[0].value[0], x), 'blist')
                if len(args) == 2 and isinstance(args[1], ast.Constant) and type(args[1].value) is int and args[1].value >= 0:
                    return ('(splitn %d%%nat %d %s)' % (args[1].value, args[0].value[0], x), 'blist')
            if f.attr == 'decode' and kx == 'bytes' and len(args) == 1:
                if isinstance(args[0], ast.Constant) and args[0].value == 'ASCII':
                    return self.bound('py_decode_ascii %s' % x, 'str')
                return self.bound('py_decode %s %s %s' % (self.oracle('dec'), self.typed(args[0], env, ['str'])[0], x), 'text')
        bad(e, 'call')

    def dictcomp(self, e, env):
        g = e.generators[0]
        tg, it = g.target, g.iter
        if (len(e.generators) == 1 and not g.ifs and not g.is_async and isinstance(tg, ast.Tuple) and len(tg.elts) == 2
                and all(isinstance(x, ast.Name) for x in tg.elts) and isinstance(it, ast.Call) and ast.unparse(it.func) == 'enumerate'
                and len(it.args) == 1 and not it.keywords and ast.unparse(e.key) == tg.elts[0].id and tg.elts[0].id != tg.elts[1].id
                and 'v_enumerate' not in env):
            lst = self.typed(it.args[0], env, ['blist'])[0]
            s = self.bind(tg.elts[1].id, e)
            outer, self.pre = self.pre, []
            benv = {n: k for n, k in env.items() if n != 'v_' + tg.elts[0].id}     # the index variable may not be read in E
            val = self.typed(e.value, dict(benv, **{s: 'bytes'}), ['text'])[0]
            body = self.wrap(self.take(), 'MRet %s' % val)
            self.pre = outer
            return self.bound('mmap (fun %s =>\n%s) %s' % (s, ind(body), lst), 'tlist')
        bad(e, 'dict comprehension')

    def message(self, e, env):
        if isinstance(e, ast.Constant) and type(e.value) is str:
            return '[FText %s]' % lit(e.value)
        if isinstance(e, ast.JoinedStr):
            parts = []
            for v in e.values:
                if isinstance(v, ast.Constant) and type(v.value) is str:
                    parts.append('FText %s' % lit(v.value))
                elif isinstance(v, ast.FormattedValue) and v.conversion == -1 and v.format_spec is None:
                    parts.append('FNum %s' % self.pure(v.value, env, 'N')[0])
                else:
                    bad(e, 'f-string')
            return '[%s]' % '; '.join(parts)
        bad(e, 'exception argument')

    def method_call(self, e, env):
        """self.m(...) -> (text of type mres (ret, writes), callee)"""
        c = FUNCS[e.func.attr]
        given = dict(zip([n for n, _ in c['args']], e.args))
        if len(e.args) > len(c['args']) or any(isinstance(a, ast.Starred) for a in e.args):
            bad(e, 'arguments')
        for kw in e.keywords:
            if kw.arg is None or kw.arg in given or kw.arg not in dict(c['args']):
                bad(e, 'arguments')
            given[kw.arg] = kw.value
        ts = []
        for n, d in c['args']:
            ts.append(self.pure(given[n], env, 'N')[0] if n in given else d if d is not None else bad(e, 'missing argument ' + n))
        for o in c['oracles']:
            self.oracle(o)
        return (' '.join([c['coq']] + c['oracles'] + [self.attr(p, env)[0] for p in c['params']] + ts), c)

    # ------------------------------------------------------------ statements -> text
    def result(self, val, kind, env, node):
        if self.ret not in (None, kind):
            bad(node, 'returns of different kinds (%s, %s)' % (self.ret, kind))
        self.ret = kind
        ws = [self.attr(w, env) for w in self.writes]
        ws = [coerce(t, k, ATTRS[w][1]) for (t, k), w in zip(ws, self.writes)]
        return 'MRet %s' % (tup([val, tup(ws)]) if ws else val)

    def dead(self, env):
        raise Unsupported('internal: continuation of a block that cannot complete')

    def tr(self, stmts, env, k):
        if not stmts:
            return k(env)
        s, rest = stmts[0], stmts[1:]
        if self.pre:
            bad(s, 'internal: pending bindings')
        go = lambda env2: self.tr(rest, env2, k)
        if isinstance(s, ast.Pass) or (isinstance(s, ast.Expr) and isinstance(s.value, ast.Constant) and type(s.value.value) is str):
            return go(env)
        if isinstance(s, ast.Return):
            t, kd = ('tt', 'unit') if s.value is None or ast.unparse(s.value) == 'None' else self.ex(s.value, env)
            return self.wrap(self.take(), self.result(t, kd, env, s))
        if isinstance(s, ast.Raise) and s.cause is None and isinstance(s.exc, ast.Call) and ast.unparse(s.exc.func) == 'SyntaxError' \
                and len(s.exc.args) == 1 and not s.exc.keywords and 'v_SyntaxError' not in env:
            return 'MRaise (XSyntax %s)' % self.message(s.exc.args[0], env)
        if isinstance(s, ast.Assert) and s.msg is None:
            r = self.refinable(s.test, env)
            if r and not r[1]:
                return 'match %s with\n| None => MAssert\n| Some %s =>\n%s\nend' % (r[0], r[0], ind(go(dict(env, **{r[0]: REFINE[env[r[0]]]}))))
            c, pre = self.truth(s.test, env), self.take()
            return self.wrap(pre, 'if %s then\n%s\nelse MAssert' % (c, ind(go(env))))
        if isinstance(s, ast.Expr) and isinstance(s.value, ast.Call):
            return self.effect(s.value, go, env)
        if isinstance(s, ast.Assign) and len(s.targets) == 1:
            return self.assign(s, s.targets[0], go, env)
        if isinstance(s, ast.If):
            r = self.refinable(s.test, env)
            if r:
                v, isnone = r
                none, some = (s.body, s.orelse) if isnone else (s.orelse, s.body)
                mk = lambda tn, ts: 'match %s with\n| None =>\n%s\n| Some %s =>\n%s\nend' % (v, ind(tn), v, ind(ts))
                return self.branch([(none, env), (some, dict(env, **{v: REFINE[env[v]]}))], mk, rest, env, k)
            c, pre = self.truth(s.test, env), self.take()
            mk = lambda ta, tb: 'if %s then\n%s\nelse\n%s' % (c, ind(ta), ind(tb))
            return self.wrap(pre, self.branch([(s.body, env), (s.orelse, env)], mk, rest, env, k))
        if isinstance(s, ast.Try) and len(s.body) == 1 and len(s.handlers) == 1 and not s.orelse and not s.finalbody:
            h = s.handlers[0]
            if h.name is None and isinstance(h.type, ast.Name) and h.type.id in EXCEPT and 'v_' + h.type.id not in env:
                mk = lambda tb, th: 'mcatch (\n%s)\n  %s (\n%s)' % (ind(tb), EXCEPT[h.type.id], ind(th))
                return self.branch([(s.body, env), (h.body, env)], mk, rest, env, k, True)
        if isinstance(s, ast.For):
            return self.loop(s, rest, env, k)
        bad(s, 'statement')

    def refinable(self, test, env):
        """`v is None` / `v is not None` on an optional local -> (v, is-None?)"""
        if isinstance(test, ast.Compare) and len(test.ops) == 1 and isinstance(test.ops[0], (ast.Is, ast.IsNot)) \
                and isinstance(test.left, ast.Name) and ast.unparse(test.comparators[0]) == 'None' \
                and env.get('v_' + test.left.id) in REFINE:
            return ('v_' + test.left.id, isinstance(test.ops[0], ast.Is))
        return None

    def branch(self, branches, mk, rest, env, k, always_join=False):
        live = [completes(b) for b, _ in branches]
        if not always_join and (sum(live) <= 1 or not rest):
            return mk(*[self.tr(b + (rest if l else []), e, k if l else self.dead) for (b, e), l in zip(branches, live)])
        for b, _ in branches:
            for st in b:
                if any(isinstance(n, ast.Return) for n in ast.walk(st)):
                    bad(st, 'return inside a block that is followed by other statements')
        exits = []

        def kb(e):
            exits.append((self.token(), e))
            return exits[-1][0]
        texts = [self.tr(b, dict(e), kb) for b, e in branches]
        names = []
        for b, _ in branches:
            names += [n for n in assigned(b) if n not in names]
        outs = []
        for n in names:
            jk = joinkind([self.kind_in(e, n) for _, e in exits]) if exits else None
            if jk is not None:
                outs.append((n, jk))
        env2 = {n: kd for n, kd in env.items() if n not in names}
        env2.update(outs)
        term = mk(*texts)
        for tok, e in exits:
            term = term.replace(tok, 'MRet %s' % tup([coerce(n, self.kind_in(e, n), jk) for n, jk in outs]))
        return 'mbind (%s) (fun %s =>\n%s)' % (term, pat([n for n, _ in outs]), self.tr(rest, env2, k))

    def effect(self, c, go, env):
        fn = ast.unparse(c.func)
        if fn == 'self.instance.append' and len(c.args) == 1 and not c.keywords:
            t, pre = self.typed(c.args[0], env, ['entry'])[0], self.take()
            cur = self.attr('instance.entries', env)[0]
            return self.wrap(pre, 'let self_instance_entries := (%s ++ [%s]) in\n%s' % (cur, t, go(dict(env, self_instance_entries='entries'))))
        if isinstance(c.func, ast.Attribute) and c.func.attr == 'update' and isinstance(c.func.value, ast.Name) \
                and env.get('v_' + c.func.value.id) == 'kwargs' and not c.args and len(c.keywords) == 1 and c.keywords[0].arg in KWKEYS:
            key, v = c.keywords[0].arg, 'v_' + c.func.value.id
            t, pre = self.typed(c.keywords[0].value, env, [KWKEYS[key]])[0], self.take()
            return self.wrap(pre, 'let %s := (kw_set_%s %s %s) in\n%s' % (v, key, t, v, go(env)))
        bad(c, 'statement')

    def unpack_list(self, names, t, body):
        return 'match %s with\n| [%s] =>\n%s\n| _ => MRaise XValue\nend' % (t, '; '.join(names), ind(body))

    def assign(self, s, tg, go, env):
        val = s.value
        names = None
        if isinstance(tg, (ast.List, ast.Tuple)) and tg.elts and all(isinstance(x, ast.Name) for x in tg.elts):
            names = [self.bind(x.id, s) for x in tg.elts]
            if len(set(names)) != len(names):
                bad(s, 'assignment')
        if self_call(val) and (names or isinstance(tg, ast.Name)):
            text, c = self.method_call(val, env)
            pre = self.take()
            ws = [ATTRS[w][0] for w in c['writes']]
            env2 = dict(env, **{ATTRS[w][0]: ATTRS[w][1] for w in c['writes']})
            if names:
                if c['ret'] != 'nlist':
                    bad(s, 'unpacking ' + c['ret'])
                r = self.tmp()
                body = self.unpack_list(names, r, go(dict(env2, **{n: 'N' for n in names})))
            else:
                r = self.bind(tg.id, s)
                body = go(dict(env2, **{r: c['ret']}))
            return self.wrap(pre, 'mbind (%s) (fun %s =>\n%s)' % (text, pat([r, tup(ws)]) if ws else r, body))
        if names and isinstance(tg, ast.Tuple) and len(names) == 2 and isinstance(val, ast.Call) and ast.unparse(val.func) == 'divmod' \
                and len(val.args) == 2 and not val.keywords and 'v_divmod' not in env:
            a, d = self.typed(val.args[0], env, ['N'])[0], self.pure(val.args[1], env, 'N')[0]
            if not re.fullmatch('[1-9][0-9]*', d):
                bad(s, 'divisor must be a positive literal')
            pre = self.take()
            return self.wrap(pre, 'let %s := (%s / %s) in\nlet %s := (%s mod %s) in\n%s'
                             % (names[0] + "'", a, d, names[1], a, d, 'let %s := %s in\n%s' % (names[0], names[0] + "'", go(dict(env, **{n: 'N' for n in names})))))
        if names:
            t, kd = self.typed(val, env, ['nlist', 'blist'])
            pre = self.take()
            return self.wrap(pre, self.unpack_list(names, t, go(dict(env, **{n: 'N' if kd == 'nlist' else 'bytes' for n in names}))))
        if isinstance(tg, ast.Tuple) and len(tg.elts) == 2 and isinstance(tg.elts[0], ast.Starred) and isinstance(tg.elts[0].value, ast.Name) \
                and isinstance(tg.elts[1], ast.Name) and tg.elts[0].value.id != tg.elts[1].id:
            a, b = self.bind(tg.elts[0].value.id, s), self.bind(tg.elts[1].id, s)
            t, pre = self.typed(val, env, ['blist'])[0], self.take()
            return self.wrap(pre, 'match unsnoc %s with\n| None => MRaise XValue\n| Some (%s, %s) =>\n%s\nend'
                             % (t, a, b, ind(go(dict(env, **{a: 'blist', b: 'bytes'})))))
        if isinstance(tg, ast.Name):
            v = self.bind(tg.id, s)
            t, kd = self.ex(val, env)
            if kd == 'none':
                bad(s, 'a local set to None')
            return self.wrap(self.take(), 'let %s := %s in\n%s' % (v, t, go(dict(env, **{v: kd}))))
        if isinstance(tg, ast.Attribute) and attr_of(tg):
            name, kind = ATTRS[attr_of(tg)]
            t, kd = self.ex(val, env)
            return self.wrap(self.take(), 'let %s := %s in\n%s' % (name, coerce(t, kd, kind, s), go(dict(env, **{name: kind}))))
        if isinstance(tg, ast.Attribute) and isinstance(tg.value, ast.Name) and env.get('v_' + tg.value.id) == 'entry' \
                and ast.unparse(val) in PYCONST and re.fullmatch('[a-z_]+', tg.attr):
            v = 'v_' + tg.value.id
            return 'let %s := (entry_setattr %s %s %s) in\n%s' % (v, lit(tg.attr), PYCONST[ast.unparse(val)], v, go(env))
        bad(s, 'assignment')

    def loop(self, s, rest, env, k):
        it = s.iter
        if not (isinstance(s.target, ast.Name) and not s.orelse and isinstance(it, ast.Call) and ast.unparse(it.func) == 'range'
                and len(it.args) == 1 and not it.keywords and 'v_range' not in env):
            bad(s, 'for statement')
        for n in ast.walk(s):
            if isinstance(n, (ast.Break, ast.Continue, ast.Return)):
                bad(n, 'inside a loop')
        v = self.bind(s.target.id, s)
        if v in env:
            bad(s, 'loop variable already bound')
        count, pre = self.typed(it.args[0], env, ['N'])[0], self.take()
        env = dict(env)
        for n in assigned(s.body):
            if n in AKIND and n not in env:
                env[n] = self.kind_in(env, n)              # an attribute read before the method assigns it: parameter
        state = [(n, env[n]) for n in assigned(s.body) if n in env]
        tok = self.token()

        def again(e):
            return '%s fuel (%s + 1) %s' % (tok, v, ' '.join(coerce(n, self.kind_in(e, n), kd) for n, kd in state))
        body = self.tr(s.body, dict(env, **{v: 'N'}), again)
        name = '%s_loop%d' % (self.name, len(self.aux) + 1)
        fixed = [(o, ORACLES[o]) for o in ORACLES if uses(o, body)]
        fixed += [(ATTRS[a][0], TYPES[ATTRS[a][1]]) for a in ATTRS if uses(ATTRS[a][0], body) and ATTRS[a][0] not in dict(state)]
        for a in ATTRS:
            if uses(ATTRS[a][0], body):
                self.attr(a, env)
        fixed += [(n, TYPES[kd]) for n, kd in env.items() if n.startswith('v_') and n not in dict(state) and uses(n, body)]
        head = ' '.join([name] + [n for n, _ in fixed])
        sig = ''.join(' (%s : %s)' % x for x in fixed) + ' (fuel : nat) (%s : N)' % v + ''.join(' (%s : %s)' % (n, TYPES[kd]) for n, kd in state)
        m = ' {M : Type}' if uses('M', sig) else ''
        self.aux.append('Fixpoint %s%s%s {struct fuel} : mres (%s) :=\n  match fuel with\n  | O => MRet %s\n  | S fuel =>\n%s\n  end.\n'
                        % (name, m, sig, tupty([kd for _, kd in state]), tup([n for n, _ in state]), ind(ind(body.replace(tok, head)))))
        return self.wrap(pre, 'mbind (%s (N.to_nat %s) 0 %s) (fun %s =>\n%s)'
                         % (head, count, ' '.join(n for n, _ in state), pat([n for n, _ in state]), self.tr(rest, env, k)))

    # ------------------------------------------------------------ whole method
    def run(self):
        env = {self.bind(n, self.fdef): 'N' for n, _ in self.args}
        text = self.tr(self.fdef.body, env, lambda e: self.result('tt', 'unit', e, self.fdef))
        oracles = [o for o in ORACLES if o in self.oracles]
        params = [p for p in ATTRS if p in self.params]
        sig = ''.join(' (%s : %s)' % (o, ORACLES[o]) for o in oracles)
        sig += ''.join(' (%s : %s)' % (ATTRS[p][0], TYPES[ATTRS[p][1]]) for p in params)
        sig += ''.join(' (%s : N)' % n for n in env)
        rt = TYPES[self.ret] + (' * (%s)' % tupty([ATTRS[w][1] for w in self.writes]) if self.writes else '')
        m = ' {M : Type}' if uses('M', sig) else ''
        FUNCS[self.fdef.name] = dict(coq=self.name, oracles=oracles, params=params, args=self.args, ret=self.ret, writes=self.writes)
        return '\n'.join(self.aux + ['Definition %s%s%s : mres (%s) :=\n%s.\n' % (self.name, m, sig, rt, ind(text))])


def generate():
    src = open(os.path.join(REPO, 'lib', 'moparser.py'), encoding='utf-8').read()
    tree = ast.parse(src)
    FUNCS.clear()
    CONSTS.clear()
    out = ['(* generated by tools/gen/gen_moparser_src.py from lib/moparser.py; the translation rules are in that file *)',
           'From Coq Require Import List NArith Bool.', 'From I18n Require Import Lib.Outcome Model.MoParser Model.MoParserPy.',
           'Import ListNotations.', 'Local Open Scope N_scope.', '']
    bound = {}
    methods = {}
    for top in tree.body:
        names = []
        if isinstance(top, (ast.Import, ast.ImportFrom)):
            names = [(a.asname or a.name).split('.')[0] for a in top.names]
        elif isinstance(top, (ast.FunctionDef, ast.ClassDef)):
            names = [top.name]
        elif isinstance(top, ast.Assign):
            names = [n.id for t in top.targets for n in ast.walk(t) if isinstance(n, ast.Name)]
            tg, v = top.targets[0], top.value
            if len(top.targets) == 1 and isinstance(tg, ast.Name) and tg.id not in CONSTS and re.fullmatch('[a-z_]+', tg.id):
                if isinstance(v, ast.Constant) and type(v.value) is bytes:
                    CONSTS[tg.id] = 'src_' + tg.id
                    out.append('Definition src_%s : bytes := %s.' % (tg.id, lit(v.value)))
                elif isinstance(v, ast.Subscript) and isinstance(v.value, ast.Name) and v.value.id in CONSTS and ast.unparse(v.slice) == '::-1':
                    CONSTS[tg.id] = 'src_' + tg.id
                    out.append('Definition src_%s : bytes := rev %s.' % (tg.id, CONSTS[v.value.id]))
        elif not (isinstance(top, ast.Expr) and isinstance(top.value, ast.Constant)
                  or isinstance(top, ast.If) and ast.unparse(top.test) == "__name__ == '__main__'" and ast.unparse(top.orelse) == 'del main'):
            bad(top, 'module-level statement')
        for n in names:
            bound.setdefault(n, []).append(top)
        if isinstance(top, ast.ClassDef) and top.name == 'Parser':
            if top.bases or top.keywords or top.decorator_list:
                bad(top, 'class header')
            for s in top.body:
                if isinstance(s, ast.FunctionDef):
                    if s.name in methods:
                        bad(s, 'method defined twice')
                    methods[s.name] = s
                elif not (isinstance(s, ast.Expr) and isinstance(s.value, ast.Constant)):
                    bad(s, 'class-level statement')
    for n, text in IMPORTS.items():
        if len(bound.get(n, [])) != 1 or ast.unparse(bound[n][0]) != text:
            raise Unsupported('module-level name %s is not bound (only) by `%s`' % (n, text.split('\n')[0]))
    for n in list(BUILTINS) + list(CONSTS) + ['Parser']:
        if len(bound.get(n, [])) != (0 if n in BUILTINS else 1):
            raise Unsupported('module-level name %s is rebound' % n)
    out.append('')
    for m in ORDER:
        if m not in methods:
            raise Unsupported('method %s is missing' % m)
        out += ['(* Parser.%s *)' % m, Fn(methods[m]).run()]
    return '\n'.join(out)


def main(emit):
    try:
        text = generate()
    except Exception as exc:
        why = ('%s: %s' % (type(exc).__name__, exc)).replace('(*', '( *').replace('*)', '* )')
        emit('MoParserSrc.v', '(* TRANSLATION FAILED: %s *)\nDefinition source_translation_failed := tt.\n' % why)
        raise
    emit('MoParserSrc.v', text)


if __name__ == '__main__':
    main(lambda name, text: print(text))

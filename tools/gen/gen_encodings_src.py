"""Source translator for C20:  lib/iconv.py (encode, decode, _encode_dl, _decode_dl), lib/encodings.py
(is_portable_encoding, propose_portable_encoding, is_ascii_compatible_encoding, charmap_encoding,
_codec_search_function), the charset `try` statement of Checker.check_mime (lib/check/__init__.py) and the tail of
Language.get_unrepresentable_characters (lib/ling.py)   ->   coq/Generated/EncodingsSrc.v   (python `ast` -> Gallina).

Proofs/EncodingsSrc.v proves every generated definition equal to the hand-written model (Model/Iconv.v,
Model/Encodings.v); Props/C20.v restates that (C20_source_tie_*).  An edit of the Python code changes the generated text
and those proofs stop compiling.  FAIL CLOSED: a construct outside the subset below raises Unsupported; that function is
then emitted as `Definition src_... : unit := tt.` (its tie lemma cannot compile), the other functions are still
emitted, and main() exits non-zero after writing the file (gen_rc != 0 = broken tie).
The vocabulary of the output (pres, pexn, pbind, pfinally, rc_ok, pget, ...) is hand-written in Model/EncodingsPy.v.

RESULT of a function body: `pres T` = PRet v (`return v`) | PNone (`return`, `return None`, end of body) | PAssert (a
failing `assert`) | PRaise x (an exception leaves the function) | PFuel (a `while True` ran out of the fuel argument).

VALUES are (Gallina text, kind).  Kinds with a Gallina type: Z (int), bool, str / bytes (list N: code points / byte
values), strs (list of str).  `v = e` -> `let v_<name>[_k] := e in` (every binding gets a fresh Gallina name, so later
texts never capture); `v = <literal>` binds the literal itself.  Static kinds (no Gallina value): none (statically None:
`x is None`, truth of x are decided per path), opaque (a parameter that is only passed on: charset name for libc,
exception decoration), errors (the `errors` argument: a Gallina bool `strict`, only `errors != 'strict'` is translated),
and the ctypes objects below.  Parameters get their kind from SPECS; `isinstance(p, T)` on a parameter is decided by it.

EXPRESSIONS.  int / str / bytes literals (b'' '' -> []), True False None; names; + - * on Z; a // k and a % k -> a / k,
a mod k (Z.div, Z.modulo = Python's floor division and sign-of-divisor modulo) only when k is a non-zero literal (so no
ZeroDivisionError); < <= > >= == != on Z (chained: conjunction), == != on str (list_eqb); and / or / not on bool;
len(x) -> Z.of_nat (length x); s[i] on bytes -> `match py_index s i with None => PRaise PIndexError | Some b => ...`
hoisted in front of the statement (Python indexing: negative indices, IndexError); buf[:k] -> slice_to; s[4:] -> skipn 4;
s.lower() s.upper() -> co_lower o s, co_upper o s (str.lower / str.upper are oracles of the model);
s.startswith('lit') -> starts_with lit s;  a + b on str -> a ++ b;  truth of a list -> `match l with [] => false ...`;
the data tables of lib/encodings.py (fields of `d : enc_data`, contents generated from /repo):
  _portable_encodings.get(k, None|False) -> pget (ed_portable d) k PvNone|PvFalse (the table keeps `codec is not None`);
  `x is None` / `is not None` on that -> pv_is_none;  k in _portable_encodings -> pmem;  k in _extra_encodings -> mem;
  _unmangle_encoding.get(k, k) -> sget um k k (um : the dict as built at import, a parameter).
ORACLE ATOMS (a statement `v = ATOM`, `ATOM`, `return ATOM`): one `match` on the oracle's answer, the exceptional
answers are translated as a `raise` of that class AT THAT POINT (so enclosing `except` clauses apply).  Such an answer
means "an instance of class C" (the last answer: "of none of the classes this oracle tells apart"), so an `except` clause
naming a proper subclass of C (resp. anything but Exception or a class told apart) cannot be decided: Unsupported.
  codecs.lookup(s) -> co_lookup o s (None: LookupError; Some n: an object whose .name is n)
  _pycodec_to_encoding[k] -> assoc k (ed_c2e d) (None: KeyError)
  _interesting_ascii_bytes.decode(s) -> co_ascii o s: AscSame / AscDiff (a str, == _interesting_ascii_str decided),
      AscNotStr (isinstance(.., bytes) true), AscDecodeError (UnicodeDecodeError), AscLookupError (LookupError), AscOtherError
  open(os.path.join(paths.datadir, 'charmaps', s), 'rb') + `with file: t = file.read()` + t.decode('UTF-8') ->
      assoc s files (None: FileNotFoundError); codecs.charmap_build / charmap_encode / charmap_decode and the two
      closures handed to codecs.CodecInfo are recognised as a whole: CharmapCodec name table
  iconv_encoding(s) -> IconvCodec s
  x.encode(encoding) (x a str, result unused) -> encode x : outcome unit unit  (Err: UnicodeEncodeError, Crash c: foreign)
  bytes(s, encoding='UTF-32LE') -> first_surrogate 0 s (Some i: UnicodeEncodeError(i, i+1); None: 4 bytes per character)
  ctx.language.get_unrepresentable_characters(s) -> unrep s (a `pres (list str)`);  exc.reason.startswith('iconv:') -> cli_fallback
CALLS of translated functions (v = f(..), return f(..), `if f(..)`, `assert f(..)`) -> pbind: value / None / exception;
  the exception classes the callee can raise are dispatched to the enclosing handlers.
LIBC through ctypes (lib/iconv.py).  Objects are tracked symbolically: c_char_p(x), cast(p, POINTER(c_char)),
  pointer(cast(..)), c_size_t(e) (a cell whose .value is e mod 2^64), create_string_buffer(e) / create_unicode_buffer(e)
  (a zero-filled buffer of capacity e), x.value.  No aliasing (such objects cannot be copied).  The three call shapes:
  _iconv(cd, None, None, None, None)                -> io_reset_ok ops CAP (CAP: capacity of the buffer made in this iteration)
  _iconv(cd, inp, byref(inleft), outp, byref(outleft)) -> io_conv ops CAP, only if inp / outp are fresh pointers to the whole
      input / to that buffer, inleft holds len(input) and outleft holds CAP; afterwards inleft.value = cr_inleft,
      outleft.value = cr_outleft, the buffer holds io_buf ops CAP
  _iconv(cd, None, None, outp, byref(outleft))       -> io_flush ops CAP, only directly after that conversion call
  _iconv_open(to, from) (names checked against SPECS) -> io_open_ok ops;  _iconv_close(cd) -> io_close_ok ops
  r == ctypes.c_size_t(-1).value / c_void_p(-1).value / r != 0 (per kind of call) -> negb (rc_ok r);
  ctypes.get_errno() -> the errno class of the last call, only under a test that says that call failed;
  rc == errno.E2BIG, rc in {errno.EILSEQ, errno.EINVAL} -> rc_eqb;  ctypes.sizeof(ctypes.c_wchar) -> 4
STATEMENTS (rest = what follows; an `if` duplicates rest into both branches).
  return e; return; pass; del x; v = e; v op= e; assert c[, msg] -> if negb c then PAssert else rest
  raise C(args): UnicodeDecodeError / UnicodeEncodeError keep (begin, end) (object must be the input parameter), other
      arguments are dropped (they may only be names, constants, f-strings, os.strerror, type); the first enclosing
      `except` clause whose class is a base of C (table EXC) receives it, else PRaise
  if / elif / else;  try / except C [as x] / else (no finally);  try / finally as the LAST statement: pfinally
  while True: -> Fixpoint <f>_loop over `fuel` (O => PFuel), parameters = the variables bound at loop entry; `continue`
      and the end of the body are the recursive call with their current values (no break, nothing after the loop)
  for v in range(a, b): .. else: .. -> Fixpoint <f>_for over Z.to_nat (b - a) and v (from a, + 1): `break` = rest,
      exhaustion = else-block then rest (v unbound);  for v in <list>: -> Fixpoint <f>_for over the list
  x[4:] = ['...'] -> firstn 4 x ++ ['...'];  l += [e] -> l ++ [e];  self.tag('name', a, .., *l) appends (name, [a; ..] ++ l)
NOT translated (see notes/SRC8.md): module level code (the tables are generated data), the iconv(1) fallback,
  iconv_encoding's closures, get_character_name, check_mime outside the charset `try`, _get_characters.
"""
import ast
import os
import re

REPO = os.environ.get('VERIF_REPO') or '/repo'
TYPES = {'Z': 'Z', 'bool': 'bool', 'str': 'list N', 'bytes': 'list N', 'strs': 'list (list N)', 'errors': 'bool'}
# exception classes: parent, Gallina constructor (None: never left uncaught here), pattern for a dynamic dispatch
EXC = {'Exception': (None, None), 'LookupError': ('Exception', 'PLookupError'), 'KeyError': ('LookupError', 'PLookupError'),
       'IndexError': ('LookupError', 'PIndexError'), 'EncodingLookupError': ('LookupError', 'PEncodingLookupError'),
       'ValueError': ('Exception', None), 'UnicodeError': ('ValueError', None),
       'UnicodeDecodeError': ('UnicodeError', 'PUnicodeDecodeError'), 'UnicodeEncodeError': ('UnicodeError', 'PUnicodeEncodeError'),
       'OSError': ('Exception', 'POSError'), 'FileNotFoundError': ('OSError', 'POSError'), 'RuntimeError': ('Exception', 'PRuntimeError'),
       'NotImplementedError': ('RuntimeError', 'PNotImplementedError'), 'TypeError': ('Exception', 'PTypeError'),
       'Foreign': ('Exception', 'PForeign')}


class Unsupported(Exception):
    pass


def bad(node, why):
    raise Unsupported('%s: line %s: %s' % (why, getattr(node, 'lineno', '?'), ast.unparse(node)[:100] if isinstance(node, ast.AST) else node))


def lit(s):
    return '[' + '; '.join(str(c if isinstance(c, int) else ord(c)) for c in s) + ']%N' if len(s) else '[]'


def ind(t):
    return '\n'.join('  ' + ln for ln in t.split('\n'))


def neg(c):
    return {'true': 'false', 'false': 'true'}.get(c, c[6:-1] if c.startswith('(negb ') and c.count('(') == 1 else '(negb %s)' % c)


def issub(c, base):
    while c is not None:
        if c == base:
            return True
        c = EXC[c][0]
    return False


class V:
    def __init__(self, text, kind, **meta):
        self.text, self.kind, self.meta = text, kind, meta


class K:
    """continuations of a block: end of the block, break, continue; layers = enclosing except clauses, innermost first"""
    def __init__(self, next, brk=None, cont=None, layers=()):
        self.next, self.brk, self.cont, self.layers = next, brk, cont, tuple(layers)

    def but(self, **kw):
        return K(kw.get('next', self.next), kw.get('brk', self.brk), kw.get('cont', self.cont), kw.get('layers', self.layers))


FUNCS = {}     # python name -> Fn (translated)


class Fn:
    def __init__(self, spec):
        self.spec, self.name = spec, spec['name']
        self.ctx = spec['ctx']                       # [(gallina name, type)]
        self.retkind = spec['ret']
        self.used, self.aux, self.raises, self.can_none, self.pre, self.n = set(), [], set(), False, [], 0
        self.loop, self.can_assert, self.aux_names, self.layers_now, self.canon = None, False, [], (), {}

    # ------------------------------------------------------------ helpers
    def bind(self, name, node):
        if not name.isidentifier():
            bad(node, 'variable name')
        v, k = 'v_' + name, 1
        while v in self.used:
            k += 1
            v = 'v_%s_%d' % (name, k)
        self.used.add(v)
        return v

    def fresh(self, stem):
        self.n += 1
        return '%s%d_' % (stem, self.n)

    def ctxargs(self):
        return ' '.join(n for n, _ in self.ctx)

    def take(self):
        pre, self.pre = self.pre, []
        return pre

    @staticmethod
    def wrap(pre, body):
        for w in reversed(pre):
            body = w(body)
        return body

    def raise_(self, cls, ctor, env, k, exact=True, sep=()):
        """`raise cls` at this point: the first enclosing handler that catches it, else PRaise ctor.
        exact=False: an oracle (or a callee) says "an instance of cls" (Foreign: of no class in sep): a handler for a
        proper subclass of cls may or may not catch it -> Unsupported"""
        for layer in k.layers:
            for classes, fn in layer:
                for c in classes:
                    if issub(cls, c):
                        return fn(env)
                    if not exact and (issub(c, cls) if cls != 'Foreign' else not any(issub(c, x) for x in sep)):
                        bad(c, 'cannot decide whether this handler catches %s' % cls)
        if ctor is None:
            bad(cls, 'exception class without a constructor left uncaught')
        self.raises.add(cls)
        return 'PRaise ' + ('(%s)' % ctor if ' ' in ctor else ctor)

    # ------------------------------------------------------------ expressions -> V
    def ex(self, e, env):
        if isinstance(e, ast.Constant):
            c = e.value
            if c is None:
                return V('', 'none')
            if c is True or c is False:
                return V('true' if c else 'false', 'bool')
            if type(c) is int:
                return V(str(c) if c >= 0 else '(%d)' % c, 'Z', const=c)
            if type(c) is str:
                return V(lit(c), 'str', const=c)
            if type(c) is bytes:
                return V(lit(c), 'bytes', const=c)
        elif isinstance(e, ast.Name):
            if e.id in env:
                return env[e.id]
            if e.id in self.spec.get('globals', {}):
                return self.spec['globals'][e.id]
        elif isinstance(e, ast.Attribute):
            src = ast.unparse(e)
            if src in self.spec.get('attrs', {}):
                return self.spec['attrs'][src]
            o = self.ex(e.value, env)
            if o.kind == 'cell' and e.attr == 'value':
                return V(o.text, 'Z')
            if o.kind == 'codec' and e.attr == 'name':
                return V(o.text, 'str')
            if o.kind == 'exc' and e.attr == 'reason' and o.meta['cls'] == 'UnicodeEncodeError':
                return V(None, 'reason')
        elif isinstance(e, ast.BinOp):
            a, b = self.ex(e.left, env), self.ex(e.right, env)
            if a.kind == b.kind == 'Z':
                if isinstance(e.op, (ast.Add, ast.Sub, ast.Mult)):
                    return V('(%s %s %s)' % (a.text, {ast.Add: '+', ast.Sub: '-', ast.Mult: '*'}[type(e.op)], b.text), 'Z')
                if isinstance(e.op, (ast.FloorDiv, ast.Mod)):
                    if not (type(b.meta.get('const')) is int and b.meta['const'] != 0):
                        bad(e, 'divisor is not a non-zero literal')
                    return V('(%s %s %s)' % (a.text, '/' if isinstance(e.op, ast.FloorDiv) else 'mod', b.text), 'Z')
            if a.kind == b.kind == 'str' and isinstance(e.op, ast.Add):
                return V('(%s ++ %s)' % (a.text, b.text), 'str')
        elif isinstance(e, ast.UnaryOp) and isinstance(e.op, ast.Not):
            return V(neg(self.truth(e.operand, env)), 'bool')
        elif isinstance(e, ast.BoolOp):
            ts = [self.truth(v, env) for v in e.values]
            if self.pre:
                bad(e, 'conditionally evaluated operand that can raise')
            return V('(%s)' % (' && ' if isinstance(e.op, ast.And) else ' || ').join(ts), 'bool')
        elif isinstance(e, ast.Compare):
            return self.compare(e, env)
        elif isinstance(e, ast.Subscript):
            o = self.ex(e.value, env)
            s = e.slice
            if isinstance(s, ast.Slice) and s.step is None:
                if o.kind == 'buf' and s.lower is None and s.upper is not None:
                    return V('(slice_to %s %s)' % (o.text, self.z(s.upper, env)), o.meta['elem'])
                if o.kind == 'str' and s.upper is None and isinstance(s.lower, ast.Constant) and type(s.lower.value) is int and s.lower.value >= 0:
                    return V('(skipn %d%%nat %s)' % (s.lower.value, o.text), 'str')
            elif o.kind == 'bytes':
                x, i, r = self.fresh('b'), self.z(s, env), self.raise_now('IndexError')
                self.pre.append(lambda body: 'match py_index %s %s with\n| None => %s\n| Some %s =>\n%s\nend' % (o.text, i, r, x, ind(body)))
                return V('(Z.of_N %s)' % x, 'Z')
        elif isinstance(e, ast.Call):
            return self.call_expr(e, env)
        bad(e, 'expression')

    def z(self, e, env):
        v = self.ex(e, env)
        if v.kind != 'Z':
            bad(e, 'int expected, got ' + v.kind)
        return v.text

    def truth(self, e, env):
        return self.truth_of(self.ex(e, env), e)

    def truth_of(self, v, e):
        if v.kind == 'bool':
            return v.text
        if v.kind == 'none':
            return 'false'
        if v.kind == 'strs':
            return '(match %s with [] => false | _ :: _ => true end)' % v.text
        bad(e, 'truth value of ' + v.kind)

    def compare(self, e, env):
        special = lambda n: isinstance(n, ast.Set) or ast.unparse(n) in ERRNO or ast.unparse(n) in [t for t, _ in SENTINEL.values() if t != '0']
        xs = [V(None, 'special') if special(x) else self.ex(x, env) for x in [e.left] + e.comparators]
        out, fact = [], None
        for a, op, b, bn in zip(xs, e.ops, xs[1:], e.comparators):
            t = type(op)
            if t in (ast.Is, ast.IsNot) and b.kind == 'none' and a.kind in ('none', 'str', 'strs', 'pv', 'opt'):
                c = 'true' if a.kind == 'none' else '(pv_is_none %s)' % a.text if a.kind == 'pv' else neg(a.text) if a.kind == 'opt' else 'false'
                c = neg(c) if t is ast.IsNot else c
            elif a.kind == b.kind == 'Z' and t in CMP:
                c = '(%s %s %s)' % (a.text, CMP[t], b.text)
                c = neg(c) if t is ast.NotEq else c
            elif a.kind == b.kind == 'str' and t in (ast.Eq, ast.NotEq):
                c = '(list_eqb %s %s)' % (a.text, b.text)
                c = neg(c) if t is ast.NotEq else c
            elif a.kind == 'errors' and b.meta.get('const') == 'strict' and t in (ast.Eq, ast.NotEq):
                c = a.text if t is ast.Eq else neg(a.text)
            elif a.kind == 'ascdec' and b.kind == 'ascii_str' and t is ast.Eq:
                c = 'true' if a.meta['same'] else 'false'
            elif a.kind in SENTINEL and t in (ast.Eq, ast.NotEq) and ast.unparse(bn) == SENTINEL[a.kind][0]:
                failed = (t is ast.Eq) == SENTINEL[a.kind][1]          # does the test say "the call failed"?
                c = '(negb (rc_ok %s))' % a.text if failed else '(rc_ok %s)' % a.text
                fact = (failed, a.text)
            elif a.kind == 'errno' and t is ast.Eq and ast.unparse(bn) in ERRNO:
                c = '(rc_eqb %s %s)' % (a.text, ERRNO[ast.unparse(bn)])
            elif a.kind == 'errno' and t is ast.In and isinstance(bn, ast.Set) and bn.elts and all(ast.unparse(x) in ERRNO for x in bn.elts):
                c = '(%s)' % ' || '.join('rc_eqb %s %s' % (a.text, ERRNO[ast.unparse(x)]) for x in bn.elts)
            elif a.kind == 'str' and t is ast.In and b.kind in ('ptable', 'strset'):
                c = '(%s %s %s)' % ('pmem' if b.kind == 'ptable' else 'mem', b.text if b.kind == 'ptable' else a.text, a.text if b.kind == 'ptable' else b.text)
            else:
                bad(e, 'comparison of %s and %s' % (a.kind, b.kind))
            out.append(c)
        if len(out) > 1 and self.pre:
            bad(e, 'chained comparison with an operand that can raise')
        if all(c in ('true', 'false') for c in out):
            return V('false' if 'false' in out else 'true', 'bool')
        return V(out[0] if len(out) == 1 else '(%s)' % ' && '.join(out), 'bool', fact=fact if len(out) == 1 else None)

    def raise_now(self, cls):
        """an exception raised in the middle of an expression: only where no handler could catch it"""
        if self.layers_now:
            bad(cls, 'expression that can raise inside a try block')
        self.raises.add(cls)
        return 'PRaise ' + EXC[cls][1]

    def call_expr(self, e, env):
        f, kw = ast.unparse(e.func), {k.arg: k.value for k in e.keywords}
        args = e.args
        if None in kw or any(isinstance(a, ast.Starred) for a in args):
            bad(e, 'star arguments')
        if f == 'len' and len(args) == 1 and not kw:
            a = self.ex(args[0], env)
            if a.kind in ('str', 'bytes', 'strs'):
                return V('(Z.of_nat (length %s))' % a.text, 'Z')
            if a.kind == 'utf32':
                return V('(Z.of_nat (length %s) * 4)' % a.text, 'Z')
        if f == 'isinstance' and len(args) == 2 and not kw and isinstance(args[1], ast.Name):
            a, t = self.ex(args[0], env), args[1].id
            if a.meta.get('param') and a.kind in ('str', 'bytes', 'errors', 'opaque') and t in ('str', 'bytes'):
                return V('true' if {'errors': 'str', 'opaque': 'str'}.get(a.kind, a.kind) == t else 'false', 'bool')
            if a.kind == 'ascdec' and t == 'bytes':
                return V('true' if a.meta['isbytes'] else 'false', 'bool')
            if a.kind == 'ret_open' and t == 'int':
                return V('true', 'bool')              # c_void_p restype: an int for every non-NULL pointer; iconv_open never returns NULL
        if isinstance(e.func, ast.Attribute) and not kw:
            o = self.ex(e.func.value, env) if not (isinstance(e.func.value, ast.Name) and e.func.value.id in ('ctypes', 'codecs', 'os', 'str', 'encinfo')) else None
            m = e.func.attr
            if o is not None and o.kind == 'str':
                if m in ('lower', 'upper') and not args:
                    return V('(co_%s o %s)' % (m, o.text), 'str')
                if m == 'startswith' and len(args) == 1:
                    p = self.ex(args[0], env)
                    if isinstance(p.meta.get('const'), str):
                        return V('(starts_with %s %s)' % (p.text, o.text), 'bool')
            if o is not None and o.kind == 'reason' and m == 'startswith' and len(args) == 1 and ast.unparse(args[0]) == "'iconv:'":
                return V('cli_fallback', 'bool')
            if o is not None and o.kind == 'ptable' and m == 'get' and len(args) == 2:
                k, d = self.ex(args[0], env), self.ex(args[1], env)
                dv = 'PvNone' if d.kind == 'none' else 'PvFalse' if d.text == 'false' else None
                if k.kind == 'str' and dv:
                    return V('(pget %s %s %s)' % (o.text, k.text, dv), 'pv')
            if o is not None and o.kind == 'sdict' and m == 'get' and len(args) == 2:
                k, d = self.ex(args[0], env), self.ex(args[1], env)
                if k.kind == d.kind == 'str':
                    return V('(sget %s %s %s)' % (o.text, k.text, d.text), 'str')
        if f in ('ctypes.c_char_p', 'ctypes.cast', 'ctypes.pointer', 'ctypes.c_size_t', 'ctypes.create_string_buffer',
                 'ctypes.create_unicode_buffer', 'ctypes.sizeof', 'ctypes.get_errno') and not kw:
            return self.ctypes(f, e, env)
        bad(e, 'call')

    # ------------------------------------------------------------ ctypes objects (lib/iconv.py)
    def ctypes(self, f, e, env):
        args = e.args
        ptr = 'ctypes.POINTER(ctypes.c_char)'
        if f == 'ctypes.sizeof' and ast.unparse(e) == 'ctypes.sizeof(ctypes.c_wchar)':
            return V('4', 'Z', const=4)
        if f == 'ctypes.get_errno' and not args:
            last = env.get('$last')
            if last is None or last.text not in env['$failed'].meta['set']:
                bad(e, 'get_errno() without a test saying that the last libc call failed')
            return V(last.text, 'errno')
        if f == 'ctypes.c_size_t' and len(args) == 1:
            return V('(%s mod size_t_max)' % self.z(args[0], env), 'cell')
        if f == 'ctypes.c_char_p' and len(args) == 1:
            a = self.ex(args[0], env)
            if a.kind in ('bytes', 'utf32'):
                return V(None, 'cptr', n=self.call_expr(ast.Call(ast.Name('len', ast.Load()), [args[0]], []), env).text)
        if f in ('ctypes.create_string_buffer', 'ctypes.create_unicode_buffer') and len(args) == 1:
            cap = self.z(args[0], env)
            self.n += 1
            return V('(buffer %s [])' % cap, 'buf', cap=cap, id=self.n, elem='bytes' if 'string' in f else 'str')
        if f == 'ctypes.cast' and len(args) == 2 and ast.unparse(args[1]) == ptr and isinstance(args[0], ast.Name):
            a = self.ex(args[0], env)
            if a.kind in ('cptr', 'buf', 'ptr'):
                return V(None, 'ptr', of=a.meta.get('of', a))
        if f == 'ctypes.pointer' and len(args) == 1:
            a = self.ex(args[0], env)
            if a.kind == 'ptr':
                return V(None, 'pp', of=a.meta['of'], state='fresh')
        bad(e, 'ctypes')

    def libc(self, e, env):
        """rc = <libc call>: the returned V, and the changes to env (the call mutates the objects passed by reference)"""
        f, args = ast.unparse(e.func), e.args
        if e.keywords:
            bad(e, 'libc call')
        if f == '_iconv_open' and len(args) == 2:
            names = []
            for a in args:
                if isinstance(a, ast.Constant) and type(a.value) is bytes:
                    names.append(a.value.decode('latin-1'))
                elif isinstance(a, ast.Call) and ast.unparse(a.func) == 'bytes' and len(a.args) == 2 and ast.unparse(a.args[1]) == "'ASCII'" and not a.keywords:
                    v = self.ex(a.args[0], env)
                    names.append(v.meta.get('const') if v.kind == 'str' else '<encoding>' if v.kind == 'opaque' else None)
                else:
                    bad(a, 'iconv_open argument')
            if tuple(names) != self.spec.get('open'):
                bad(e, 'iconv_open(to, from) is not %s' % (self.spec.get('open'),))
            return V('(rc_of_bool (io_open_ok ops))', 'ret_open'), {}
        if f == '_iconv_close' and len(args) == 1 and self.ex(args[0], env).kind == 'ret_open':
            return V('(rc_of_bool (io_close_ok ops))', 'ret_close'), {}
        if f != '_iconv' or len(args) != 5 or self.ex(args[0], env).kind != 'ret_open':
            bad(e, 'libc call')
        isnone = [isinstance(a, ast.Constant) and a.value is None for a in args[1:]]
        buf = env.get('$buf')
        if buf is None:
            bad(e, 'iconv() before an output buffer exists in this iteration')
        cap = buf.meta['cap']

        def byref(a):
            if isinstance(a, ast.Call) and ast.unparse(a.func) == 'ctypes.byref' and len(a.args) == 1 and isinstance(a.args[0], ast.Name) \
                    and self.ex(a.args[0], env).kind == 'cell':
                return a.args[0].id
            bad(a, 'byref(<c_size_t variable>) expected')
        if all(isnone):
            return V('(rc_of_bool (io_reset_ok ops %s))' % cap, 'ret_iconv'), {}
        if not any(isnone):
            inp, outp = self.ex(args[1], env), self.ex(args[3], env)
            il, ol = byref(args[2]), byref(args[4])
            if not (isinstance(args[1], ast.Name) and isinstance(args[3], ast.Name) and inp.kind == outp.kind == 'pp'
                    and inp.meta['state'] == outp.meta['state'] == 'fresh' and inp.meta['of'].kind == 'cptr' and outp.meta['of'] is buf
                    and env[il].text == '(%s mod size_t_max)' % inp.meta['of'].meta['n'] and env[ol].text == '(%s mod size_t_max)' % cap
                    and il != ol and buf.text == '(buffer %s [])' % cap):
                bad(e, 'conversion call: not (fresh pointer to the whole input, its length, fresh pointer to the new buffer, its capacity)')
            c = '(io_conv ops %s)' % cap
            newbuf = V('(buffer %s (io_buf ops %s))' % (cap, cap), 'buf', **buf.meta)
            ch = {il: V('(cr_inleft %s)' % c, 'cell'), ol: V('(cr_outleft %s)' % c, 'cell'), '$buf': newbuf,
                  args[1].id: V(None, 'pp', of=inp.meta['of'], state='used'), args[3].id: V(None, 'pp', of=newbuf, state='conv')}
            ch.update({n: newbuf for n, v in env.items() if v is buf})
            return V('(cr_rc %s)' % c, 'ret_iconv'), ch
        if isnone == [True, True, False, False] and isinstance(args[3], ast.Name):
            outp, ol = self.ex(args[3], env), byref(args[4])
            if not (outp.kind == 'pp' and outp.meta['state'] == 'conv' and outp.meta['of'] is buf
                    and env[ol].text == '(cr_outleft (io_conv ops %s))' % cap and env['$last'].text == '(cr_rc (io_conv ops %s))' % cap):
                bad(e, 'flush call: not directly after the conversion call, on the same buffer and counter')
            fl = '(io_flush ops %s)' % cap
            return V('(fr_rc %s)' % fl, 'ret_iconv'), {ol: V('(fr_outleft %s)' % fl, 'cell'), args[3].id: V(None, 'pp', of=buf, state='flushed')}
        bad(e, 'libc call')

    # ------------------------------------------------------------ oracle atoms and calls, in statement position
    def atom(self, node, env):
        """-> None | ('cases', scrutinee, [(pattern, V) | (pattern, exception class, constructor)]) | ('call', text, kind, Fn or None)"""
        if isinstance(node, ast.Subscript) and not isinstance(node.slice, ast.Slice):
            o = self.ex(node.value, env)
            if o.kind == 'sdict' and o.meta.get('keyerror'):
                k, x = self.ex(node.slice, env), self.fresh('e')
                if k.kind == 'str':
                    return ('cases', 'assoc %s %s' % (k.text, o.text), [('None', 'KeyError', 'PLookupError'), ('Some ' + x, V(x, 'str'))])
        if not isinstance(node, ast.Call):
            return None
        f, args, kw = ast.unparse(node.func), node.args, {k.arg: k.value for k in node.keywords}
        if f.startswith('encinfo.'):
            f = f[8:]
        if f in FUNCS and f in self.spec.get('calls', ()):
            return self.fcall(FUNCS[f], node, env)
        try:
            A = [self.ex(a, env) for a in args] if all(isinstance(a, (ast.Name, ast.Attribute, ast.Constant)) for a in args) else None
        except Unsupported:
            A = None
        if f == 'codecs.lookup' and A and len(A) == 1 and A[0].kind == 'str' and not kw:
            x = self.fresh('n')
            return ('cases', 'co_lookup o ' + A[0].text, [('None', 'LookupError', 'PLookupError'), ('Some ' + x, V(x, 'codec'))])
        if f == '_interesting_ascii_bytes.decode' and A and len(A) == 1 and A[0].kind == 'str' and not kw and self.spec.get('ascii'):
            dec = lambda same, isb: V(None, 'ascdec', same=same, isbytes=isb)
            return ('cases', 'co_ascii o ' + A[0].text, [
                ('AscSame', dec(True, False)), ('AscDiff', dec(False, False)), ('AscNotStr', dec(False, True)),
                ('AscDecodeError', 'UnicodeDecodeError', 'PForeign CUnicodeError'), ('AscLookupError', 'LookupError', 'PLookupError'),
                ('AscOtherError', 'Foreign', 'PForeign CValueError')], ('UnicodeDecodeError', 'LookupError'))
        if f == 'bytes' and A and len(A) == 1 and A[0].kind == 'str' and A[0].meta.get('param') and set(kw) == {'encoding'} \
                and self.ex(kw['encoding'], env).meta.get('const') == 'UTF-32LE':
            i = self.fresh('i')
            return ('cases', 'first_surrogate 0 ' + A[0].text, [('Some ' + i, 'UnicodeEncodeError', 'PUnicodeEncodeError %s (%s + 1)' % (i, i)),
                                                              ('None', V(A[0].text, 'utf32'))])
        if isinstance(node.func, ast.Attribute) and node.func.attr == 'encode' and self.spec.get('encode') and not kw and A and len(A) == 1 and A[0].kind == 'opaque':
            t, c = node.func.value, self.fresh('c')
            if isinstance(t, ast.Call) and ast.unparse(t.func) == 'str.join' and len(t.args) == 2 and ast.unparse(t.args[0]) == "''" and not t.keywords:
                x = self.ex(t.args[1], env)
                s = '(concat %s)' % x.text if x.kind == 'strs' else None
            else:
                x = self.ex(t, env)
                s = x.text if x.kind == 'str' else None
            if s:
                return ('cases', 'encode ' + s, [('Ok _', V(None, 'unused')), ('Err _', 'UnicodeEncodeError', 'PEncodeError'), ('Crash ' + c, 'Foreign', 'PForeign ' + c)],
                        ('UnicodeEncodeError',))
        if f == 'iconv_encoding' and A and len(A) == 1 and A[0].kind == 'str' and not kw and self.spec.get('codecs'):
            return ('cases', None, [(None, V('(IconvCodec %s)' % A[0].text, 'codecinfo'))])
        if f == 'ctx.language.get_unrepresentable_characters' and A and len(A) == 1 and A[0].kind == 'str' and not kw and self.spec.get('unrep'):
            return ('call', '(unrep %s)' % A[0].text, 'strs', None)
        if self.spec.get('codecs'):
            return self.charmap_atom(f, node, A, kw, env)
        return None

    def charmap_atom(self, f, node, A, kw, env):
        """the pieces of charmap_encoding"""
        one = lambda v: ('cases', None, [(None, v)])
        if f == 'os.path.join' and len(node.args) == 3 and [ast.unparse(a) for a in node.args[:2]] == ['paths.datadir', "'charmaps'"] and not kw:
            s = self.ex(node.args[2], env)
            if s.kind == 'str':
                return one(V(s.text, 'charmap_path'))
        if f == 'open' and A and len(A) == 2 and A[0].kind == 'charmap_path' and A[1].meta.get('const') == 'rb' and not kw:
            t = self.fresh('t')
            return ('cases', 'assoc %s files' % A[0].text, [('None', 'FileNotFoundError', 'POSError'), ('Some ' + t, V(t, 'file', name=A[0].text))])
        if isinstance(node.func, ast.Attribute) and not kw:
            o = self.ex(node.func.value, env) if isinstance(node.func.value, ast.Name) and node.func.value.id in env else None
            if o is not None and o.kind == 'rawtable' and node.func.attr == 'decode' and A and len(A) == 1 and A[0].meta.get('const') == 'UTF-8':
                return one(V(o.text, 'table', **o.meta))
        if f == 'codecs.charmap_build' and A and len(A) == 1 and A[0].kind == 'table' and not kw:
            return one(V(A[0].text, 'encmap', **A[0].meta))
        if f == 'codecs.CodecInfo' and not node.args and set(kw) == set(CODECINFO):
            vals = {k: self.ex(v, env) for k, v in kw.items() if k in ('encode', 'decode', 'name')}
            enc, dec = env.get('encoding_table'), env.get('decoding_table')
            if all(ast.unparse(kw[k]) == CODECINFO[k] for k in kw if CODECINFO[k]) and vals['encode'].kind == 'closure_enc' and vals['decode'].kind == 'closure_dec' \
                    and enc is not None and dec is not None and enc.kind == 'encmap' and dec.kind == 'table' and enc.text == dec.text and vals['name'].kind == 'str':
                return one(V('(CharmapCodec %s %s)' % (vals['name'].text, dec.text), 'codecinfo'))
        return None

    def fcall(self, fn, node, env):
        given = {}
        names = [p[0] for p in fn.params]
        for i, a in enumerate(node.args):
            if i >= fn.npos:
                bad(node, 'too many positional arguments')
            given[names[i]] = a
        for k in node.keywords:
            if k.arg not in names or k.arg in given:
                bad(node, 'keyword argument')
            given[k.arg] = k.value
        out = []
        for name, kind, default in fn.params:
            if name in given:
                v = self.ex(given[name], env)
                if v.kind != kind:
                    bad(node, 'argument %s: %s expected, got %s' % (name, kind, v.kind))
            elif default is None:
                bad(node, 'missing argument ' + name)
            else:
                v = V(default, kind)
            if kind in TYPES:
                out.append(v.text)
        if not set(fn.ctx) <= set(self.ctx) or (fn.spec.get('fuel') and not self.spec.get('fuel')):
            bad(node, 'callee needs context the caller does not have')
        text = ' '.join([fn.name] + [n for n, _ in fn.ctx] + (['fuel'] if fn.spec.get('fuel') else []) + out)
        return ('call', text, fn.retkind, fn)

    def value_stmt(self, node, env, k, cont, tail=False):
        """evaluate `node` as the value of a statement; cont(V, env) is the text of what follows"""
        if isinstance(node, ast.Call) and ast.unparse(node.func) in ('_iconv', '_iconv_open', '_iconv_close'):
            v, ch = self.libc(node, env)
            return cont(v, dict(env, **dict(ch, **{'$last': v})))
        a = self.atom(node, env)
        if a is not None and self.pre:
            bad(node, 'argument that can raise')
        if a is None:
            v = self.ex(node, env)
            pre = self.take()
            return self.wrap(pre, cont(v, env))
        if a[0] == 'cases':
            out = []
            for case in a[2]:
                body = cont(case[1], env) if len(case) == 2 else self.raise_(case[1], case[2], env, k, False, a[3] if len(a) > 3 else ())
                if case[0] is None:
                    return body
                out.append('| %s =>\n%s' % (case[0], ind(body)))
            return 'match %s with\n%s\nend' % (a[1], '\n'.join(out))
        _, text, kind, fn = a
        if fn is None and k.layers:
            bad(node, 'oracle call inside a try block')
        if fn is not None and fn.can_assert and any(issub('AssertionError', c) or c == 'Exception' for L in k.layers for cs, _ in L for c in cs):
            bad(node, 'callee can fail an assert inside a handler that would catch it')
        if tail and not k.layers and fn is not None and kind == self.retkind:
            self.raises |= fn.raises
            self.can_none |= fn.can_none
            self.can_assert |= fn.can_assert
            return text
        x = self.fresh('r')
        some = cont(V(x, kind), env)
        none = cont(V('', 'none'), env) if (fn is None or fn.can_none) else 'PRaise (PForeign CTypeError)'
        self.can_assert |= fn is None or fn.can_assert
        return 'pbind (%s)\n  (fun %s =>\n%s)\n  (%s)\n  %s' % (text, x, ind(ind(some)), ind(none).lstrip(), self.exn_fun(fn, env, k))

    def exn_fun(self, fn, env, k):
        if fn is None or not k.layers:
            self.raises |= fn.raises if fn else {'Foreign'}
            return '(@PRaise _)'
        br = {}
        for cls in sorted(fn.raises):
            if any(issub(cls, c) for L in k.layers for cs, _ in L for c in cs):
                ctor = EXC[cls][1]
                pat = ctor + (' _ _' if ctor in ('PUnicodeDecodeError', 'PUnicodeEncodeError') else ' _' if ctor == 'PForeign' else '')
                body = self.raise_(cls, None, env, k, False)
                if br.setdefault(pat, body) != body:
                    bad(cls, 'two exception classes with one constructor are handled differently')
            else:
                self.raise_(cls, EXC[cls][1], env, k, False)      # (checks that no handler is ambiguous for it)
        x = self.fresh('x')
        return '(fun %s => match %s with\n%s\n  | _ => PRaise %s end)' % (x, x, '\n'.join('  | %s =>\n%s' % (p, ind(ind(b))) for p, b in br.items()), x)

    def cond_stmt(self, test, env, k, cont):
        """cont(bool text, env, fact): a test that may be (the negation of) a call of a translated function"""
        inner = test.operand if isinstance(test, ast.UnaryOp) and isinstance(test.op, ast.Not) else test
        if isinstance(inner, ast.Call) and (self.atom(inner, env) or ('',))[0] == 'call':
            def use(v, e):
                if v.kind != 'bool':
                    bad(test, 'truth value of ' + v.kind)
                return cont(v.text if inner is test else neg(v.text), e, None)
            return self.value_stmt(inner, env, k, use)
        v = self.ex(test, env)
        c, pre = self.truth_of(v, test), self.take()
        return self.wrap(pre, cont(c, env, v.meta.get('fact')))

    # ------------------------------------------------------------ statements -> text
    def tr(self, stmts, env, k):
        if not stmts:
            return k.next(env)
        s, rest = stmts[0], stmts[1:]
        self.layers_now = k.layers
        if self.pre:
            bad(s, 'internal: pending binders')
        go = lambda e: self.tr(rest, e, k)
        if isinstance(s, ast.Pass) or (isinstance(s, ast.Expr) and isinstance(s.value, ast.Constant) and isinstance(s.value.value, str)):
            return go(env)
        if isinstance(s, ast.Delete) and all(isinstance(t, ast.Name) and t.id in env for t in s.targets):
            return go({n: v for n, v in env.items() if n not in [t.id for t in s.targets]})
        if isinstance(s, ast.Return):
            if s.value is None or (isinstance(s.value, ast.Constant) and s.value.value is None):
                self.can_none = True
                return 'PNone'
            return self.value_stmt(s.value, env, k, lambda v, e: self.ret(v, s), tail=True)
        if isinstance(s, ast.Raise) and s.cause is None and s.exc is not None:
            return self.raise_stmt(s, env, k)
        if isinstance(s, ast.Assert) and (s.msg is None or isinstance(s.msg, (ast.Constant, ast.JoinedStr))):
            if any(issub('AssertionError', c) or c == 'Exception' for L in k.layers for cs, _ in L for c in cs):
                bad(s, 'assert inside a handler that would catch it')

            def chk(c, e, fact):
                self.can_assert |= c != 'true'
                return go(e) if c == 'true' else 'PAssert' if c == 'false' else 'if %s then PAssert else\n%s' % (neg(c), go(e))
            return self.cond_stmt(s.test, env, k, chk)
        if isinstance(s, ast.If):
            def branch(c, e, fact):
                et = ee = e
                if fact:
                    known = dict(e, **{'$failed': V(None, 'set', set=e['$failed'].meta['set'] | {fact[1]})})
                    et, ee = (known, e) if fact[0] else (e, known)
                if c in ('true', 'false'):
                    return self.tr((s.body if c == 'true' else s.orelse) + rest, et if c == 'true' else ee, k)
                return 'if %s then\n%s\nelse\n%s' % (c, ind(self.tr(s.body + rest, et, k)), ind(self.tr(s.orelse + rest, ee, k)))
            return self.cond_stmt(s.test, env, k, branch)
        if isinstance(s, ast.AugAssign) and isinstance(s.target, ast.Name):
            if isinstance(s.op, ast.Add) and isinstance(s.value, ast.List) and len(s.value.elts) == 1 and env.get(s.target.id, V(0, 0)).kind == 'strs':
                x = self.ex(s.value.elts[0], env)
                if x.kind != 'str':
                    bad(s, 'element kind')
                return self.bindvar(s.target.id, V('(%s ++ [%s])' % (env[s.target.id].text, x.text), 'strs'), env, go, s)
            s = ast.copy_location(ast.Assign([s.target], ast.BinOp(ast.Name(s.target.id, ast.Load()), s.op, s.value)), s)
        if isinstance(s, ast.Assign) and len(s.targets) == 1:
            t = s.targets[0]
            if isinstance(t, ast.Name):
                if isinstance(s.value, ast.Name) and self.ex(s.value, env).kind not in list(TYPES) + ['none']:
                    bad(s, 'copy of an object (aliasing)')
                if isinstance(s.value, ast.List) and not s.value.elts:
                    return self.bindvar(t.id, V('[]', 'strs', const=()), env, go, s)
                return self.value_stmt(s.value, env, k, lambda v, e: self.bindvar(t.id, v, e, go, s))
            if isinstance(t, ast.Subscript) and isinstance(t.value, ast.Name) and ast.unparse(t.slice) == '4:' and isinstance(s.value, ast.List) \
                    and len(s.value.elts) == 1 and env.get(t.value.id, V(0, 0)).kind == 'strs':
                x = self.ex(s.value.elts[0], env)
                if x.kind == 'str':
                    return self.bindvar(t.value.id, V('(firstn 4%%nat %s ++ [%s])' % (env[t.value.id].text, x.text), 'strs'), env, go, s)
        if isinstance(s, ast.While):
            return self.while_(s, rest, env, k)
        if isinstance(s, ast.For):
            return self.for_(s, rest, env, k)
        if isinstance(s, ast.Continue) and k.cont:
            return k.cont(env)
        if isinstance(s, ast.Break) and k.brk:
            return k.brk(env)
        if isinstance(s, ast.Try):
            return self.try_(s, rest, env, k)
        if isinstance(s, ast.FunctionDef) and s.name in CLOSURES and ast.unparse(s) == CLOSURES[s.name] and self.spec.get('codecs'):
            return go(dict(env, **{s.name: V(None, 'closure_' + s.name[:3])}))
        if isinstance(s, ast.With) and len(s.items) == 1 and s.items[0].optional_vars is None and isinstance(s.items[0].context_expr, ast.Name) \
                and len(s.body) == 1 and isinstance(s.body[0], ast.Assign) and isinstance(s.body[0].targets[0], ast.Name) and len(s.body[0].targets) == 1:
            fv = self.ex(s.items[0].context_expr, env)
            if fv.kind == 'file' and ast.unparse(s.body[0].value) == s.items[0].context_expr.id + '.read()':
                return go(dict(env, **{s.body[0].targets[0].id: V(fv.text, 'rawtable', **fv.meta)}))
        if isinstance(s, ast.Expr) and isinstance(s.value, ast.Call):
            if ast.unparse(s.value.func) == 'self.tag' and '$tags' in env:
                return go(dict(env, **{'$tags': self.tag(s.value, env)}))
            return self.value_stmt(s.value, env, k, lambda v, e: go(e) if v.kind == 'unused' else bad(s, 'value dropped'))
        bad(s, 'statement')

    def ret(self, v, s):
        if v.kind == 'none':
            self.can_none = True
            return 'PNone'
        if v.kind != self.retkind or v.text is None:
            bad(s, 'return of kind ' + v.kind)
        return 'PRet ' + v.text

    def bindvar(self, name, v, env, go, s):
        if v.kind == 'unused' or v.text is None and v.kind in TYPES:
            bad(s, 'assignment of a value that is not modelled')
        meta = {a: b for a, b in v.meta.items() if a not in ('param', 'var', 'fact')}
        if v.kind in TYPES and 'const' not in meta:
            x = self.bind(name, s)
            return 'let %s := %s in\n%s' % (x, v.text, go(dict(env, **{name: V(x, v.kind, var=True)})))
        nv = V(v.text, v.kind, **meta)
        e = dict(env, **{name: nv})
        if v.kind == 'buf':
            e['$buf'] = nv
        return go(e)

    def raise_stmt(self, s, env, k):
        call = s.exc if isinstance(s.exc, ast.Call) else None
        cls = ast.unparse(call.func if call else s.exc)
        cls = cls[8:] if cls.startswith('encinfo.') else cls
        if cls not in EXC or (call and call.keywords):
            bad(s, 'exception class')
        args = call.args if call else []
        if cls in ('UnicodeDecodeError', 'UnicodeEncodeError'):
            if len(args) != 5 or not isinstance(args[1], ast.Name) or not self.ex(args[1], env).meta.get('param') or self.ex(args[1], env).kind not in ('str', 'bytes'):
                bad(s, 'UnicodeError(encoding, <the input parameter>, begin, end, reason) expected')
            ctor = '%s %s %s' % (EXC[cls][1], self.z(args[2], env), self.z(args[3], env))
            args = [args[0], args[4]]
        else:
            ctor = EXC[cls][1]
        for a in args:
            for n in ast.walk(a):
                if isinstance(n, ast.Call) and ast.unparse(n.func) not in ('os.strerror', 'type'):
                    bad(s, 'exception argument with a call')
        pre = self.take()
        return self.wrap(pre, self.raise_(cls, ctor, env, k))

    def tag(self, call, env):
        if call.keywords or not call.args or not (isinstance(call.args[0], ast.Constant) and type(call.args[0].value) is str):
            bad(call, 'tag')
        items, tail = [], ''
        for i, a in enumerate(call.args[1:]):
            if isinstance(a, ast.Starred) and i == len(call.args) - 2:
                v = self.ex(a.value, env)
                if v.kind != 'strs':
                    bad(call, 'starred tag argument')
                tail = ' ++ ' + v.text
            else:
                v = self.ex(a, env)
                if v.kind != 'str':
                    bad(call, 'tag argument of kind ' + v.kind)
                items.append(v.text)
        return V('(%s ++ [(%s, [%s]%s)])' % (env['$tags'].text, lit(call.args[0].value), '; '.join(items), tail), 'tags')

    # ------------------------------------------------------------ loops, try
    def loop_params(self, env):
        return [(n, v) for n, v in env.items() if v.meta.get('var')]

    def materialise(self, s, env):
        """a variable bound to a literal and assigned in the loop body becomes a let-bound loop variable first"""
        assigned = {t.id for n in ast.walk(s) if isinstance(n, (ast.Assign, ast.AugAssign))
                    for t in (n.targets if isinstance(n, ast.Assign) else [n.target]) if isinstance(t, ast.Name)}
        lets = ''
        for n in sorted(assigned):
            v = env.get(n)
            if v is not None and 'const' in v.meta and v.kind in TYPES:
                x = self.bind(n, s)
                lets += 'let %s := %s in\n' % (x, v.text)
                env = dict(env, **{n: V(x, v.kind, var=True)})
        return lets, env

    def recur(self, head, params, env, e, s):
        for n, v in env.items():
            if v.meta.get('var'):
                if n not in e or e[n].kind != v.kind or e[n].text is None:
                    bad(s, 'loop body changes the kind of ' + n)
            elif not n.startswith('$') and e.get(n) is not v:
                bad(s, 'loop body rebinds %s, which is not a loop variable' % n)
        return '\x00%s\x01%s\x02' % (head, '\x01'.join(e[n].text for n, _ in params))      # finished by prune()

    @staticmethod
    def prune(head, params, inside, outside):
        """keep only the loop parameters the loop reads or changes (so an unrelated local does not change its arity);
        -> (kept parameters, texts with the calls written out)"""
        pat = re.compile('\x00%s\x01([^\x02]*)\x02' % re.escape(head))
        calls = [m.group(1).split('\x01') if m.group(1) else [] for t in inside for m in pat.finditer(t)]
        plain = ' '.join(pat.sub(' ', t) for t in inside)
        keep = [i for i, (_, v) in enumerate(params)
                if re.search(r'\b%s\b' % re.escape(v.text), plain) or any(c[i] != v.text for c in calls)]
        done = lambda t: pat.sub(lambda m: ' '.join([head] + [a for i, a in enumerate(m.group(1).split('\x01')) if i in keep]), t)
        return [params[i] for i in keep], [done(t) for t in inside], [done(t) for t in outside]

    def sig(self, params, extra):
        ps = ['(%s : %s)' % c for c in self.ctx] + extra + ['(%s : %s)' % (v.text, TYPES[v.kind]) for _, v in params]
        return ' '.join(ps)

    def while_(self, s, rest, env, k):
        if not (isinstance(s.test, ast.Constant) and s.test.value is True) or s.orelse or rest or k.layers or self.loop or not self.spec.get('fuel'):
            bad(s, 'loop other than a final `while True:` outside try/except')
        lets, env = self.materialise(s, env)
        params, name = self.loop_params(env), self.name + '_loop'
        self.loop = name
        again = lambda e: self.recur('%s %s fuel' % (name, self.ctxargs()), params, env, e, s)
        benv = {n: v for n, v in env.items() if n not in ('$buf', '$last')}
        body = self.tr(s.body, benv, K(again, None, again))
        params, (body,), (start,) = self.prune('%s %s fuel' % (name, self.ctxargs()), params, [body], [again(env)])
        self.aux.append('Fixpoint %s %s {struct fuel} : pres (%s) :=\n  match fuel with\n  | O => PFuel\n  | S fuel =>\n%s\n  end.\n' % (
            name, self.sig(params, ['(fuel : nat)']), self.spec['rettype'], ind(ind(body))))
        return lets + start

    def for_(self, s, rest, env, k):
        if not isinstance(s.target, ast.Name):
            bad(s, 'loop target')
        lets, env = self.materialise(s, env)
        params = self.loop_params(env)
        name = '%s_for%s' % (self.name, '' if not any('_for' in a for a in self.aux_names) else len(self.aux_names))
        self.aux_names.append(name)
        v = self.bind(s.target.id, s)
        rng = isinstance(s.iter, ast.Call) and ast.unparse(s.iter.func) == 'range' and len(s.iter.args) == 2 and not s.iter.keywords
        if rng:
            a, b = self.z(s.iter.args[0], env), self.z(s.iter.args[1], env)
            if self.pre:
                bad(s, 'range bounds that can raise')
            head, vk = '%s %s' % (name, self.ctxargs()), 'Z'
            nxt = lambda e: self.recur(head, params, env, e, s) + ' cnt_ (%s + 1)' % v
            start = self.recur(head, params, env, env, s) + ' (Z.to_nat (%s - %s)) %s' % (b, a, a)
        else:
            it = self.ex(s.iter, env)
            if it.kind != 'strs' or not isinstance(s.iter, ast.Name):
                bad(s, 'iteration over ' + it.kind)
            head, vk = '%s %s' % (name, self.ctxargs()), 'str'
            nxt = lambda e: self.recur(head, params, env, e, s) + ' l_'
            start = self.recur(head, params, env, env, s) + ' ' + it.text

        def after(e):
            t = self.tr(rest, e, k)
            if self.loop and self.loop in t:
                bad(s, 'the code after an inner loop continues the outer loop')
            return t
        body = self.tr(s.body, dict(env, **{s.target.id: V(v, vk, var=False)}), K(nxt, after, nxt, k.layers))
        done = self.tr(s.orelse, {n: x for n, x in env.items() if n != s.target.id}, k.but(next=after))
        params, (body, done), (start,) = self.prune(head, params, [body, done], [start])
        if rng:
            fx = 'Fixpoint %s %s {struct cnt_} : pres (%s) :=\n  match cnt_ with\n  | O =>\n%s\n  | S cnt_ =>\n%s\n  end.\n' % (
                name, self.sig(params, []) + ' (cnt_ : nat) (%s : Z)' % v, self.spec['rettype'], ind(ind(done)), ind(ind(body)))
        else:
            fx = 'Fixpoint %s %s {struct l_} : pres (%s) :=\n  match l_ with\n  | [] =>\n%s\n  | %s :: l_ =>\n%s\n  end.\n' % (
                name, self.sig(params, []) + ' (l_ : list (list N))', self.spec['rettype'], ind(ind(done)), v, ind(ind(body)))
        # the same loop reached on two paths (an `if` duplicates what follows it) is emitted once: compare up to the names of variables
        seen = {}
        canon = re.sub(r'\b(v_\w+|[a-z]+\d+_)\b', lambda m: seen.setdefault(m.group(0), 'v%d' % len(seen)), fx.replace(name, 'F'))
        if canon in self.canon:
            self.aux_names.pop()
            return lets + start.replace(name, self.canon[canon], 1)
        self.canon[canon] = name
        self.aux.append(fx)
        return lets + start

    def try_(self, s, rest, env, k):
        if s.finalbody:
            if s.handlers or s.orelse or rest or k.layers or k.cont:
                bad(s, 'try/finally other than as the last statement of the function')
            body = self.tr(s.body, env, k)
            fin = self.tr(s.finalbody, env, K(lambda e: 'PNone'))
            return 'pfinally\n  (%s)\n  (%s)' % (ind(body).lstrip(), ind(fin).lstrip())
        after = lambda e: self.tr(rest, e, k)
        layer = []
        for h in s.handlers:
            if h.type is None:
                bad(h, 'bare except')
            classes = [ast.unparse(c) for c in (h.type.elts if isinstance(h.type, ast.Tuple) else [h.type])]
            classes = [c[8:] if c.startswith('encinfo.') else c for c in classes]
            if any(c not in EXC for c in classes):
                bad(h, 'exception class')
            layer.append((classes, lambda e, h=h, classes=classes: self.tr(
                h.body, dict(e, **({h.name: V(None, 'exc', cls=classes[0])} if h.name else {})), k.but(next=after))))
        return self.tr(s.body, env, k.but(next=lambda e: self.tr(s.orelse, e, k.but(next=after)), layers=(tuple(layer),) + k.layers))

    # ------------------------------------------------------------ whole function
    def run(self, fdef):
        a = fdef.args
        if a.posonlyargs or a.vararg or a.kwarg or (fdef.decorator_list and not self.spec.get('fragment')):
            bad(fdef, 'signature')
        names = [x.arg for x in a.args + a.kwonlyargs]
        skip = 1 if names[:1] == ['self'] else 0
        want = self.spec['params']
        if names[skip:] != [n for n, _ in want] and not self.spec.get('fragment'):
            bad(fdef, 'parameters are not %s' % [n for n, _ in want])
        self.npos = len(a.args) - skip
        defaults = dict(zip([x.arg for x in a.args][len(a.args) - len(a.defaults):], a.defaults))
        defaults.update({x.arg: d for x, d in zip(a.kwonlyargs, a.kw_defaults) if d is not None})
        self.params, env, sig = [], {'$failed': V(None, 'set', set=frozenset())}, []
        for n, kind in want:
            d = defaults.get(n)
            dt = None
            if d is not None and kind == 'bool' and isinstance(d, ast.Constant) and type(d.value) is bool:
                dt = 'true' if d.value else 'false'
            self.params.append((n, kind, dt))
            if kind in TYPES:
                x = 'strict' if kind == 'errors' else self.bind(n, fdef)
                env[n] = V(x, kind, var=kind != 'errors', param=True)
                sig.append('(%s : %s)' % (x, TYPES[kind]))
            else:
                env[n] = V(None, kind, param=True)
        env.update(self.spec.get('env', {}))
        end = self.spec.get('end')

        def fall(e):
            if end:
                return end(self, e)
            self.can_none = True
            return 'PNone'
        text = self.tr(self.spec.get('select', lambda f: f.body)(fdef), env, K(fall))
        ps = ' '.join(['(%s : %s)' % c for c in self.ctx] + (['(fuel : nat)'] if self.spec.get('fuel') else []) + sig)
        return '\n'.join(self.aux + ['Definition %s %s : pres (%s) :=\n%s.\n' % (self.name, ps, self.spec['rettype'], ind(text))])


CMP = {ast.Lt: '<?', ast.LtE: '<=?', ast.Gt: '>?', ast.GtE: '>=?', ast.Eq: '=?', ast.NotEq: '=?'}
# the failure value of each kind of libc call: (source text, does `==` mean failure?)
SENTINEL = {'ret_open': ('ctypes.c_void_p(-1).value', True), 'ret_iconv': ('ctypes.c_size_t(-1).value', True), 'ret_close': ('0', False)}
ERRNO = {'errno.E2BIG': 'RcE2BIG', 'errno.EILSEQ': 'RcEILSEQ', 'errno.EINVAL': 'RcEINVAL'}
# charmap_encoding: the two closures and the CodecInfo call are recognised as a whole (CharmapCodec name table)
CLOSURES = {'encode': "def encode(input, errors='strict'):\n    return codecs.charmap_encode(input, errors, encoding_table)",
            'decode': "def decode(input, errors='strict'):\n    return codecs.charmap_decode(input, errors, decoding_table)"}
CODECINFO = {'encode': 'encode', 'decode': 'decode', 'name': None, 'streamreader': '_not_implemented', 'streamwriter': '_not_implemented',
             'incrementalencoder': '_not_implemented', 'incrementaldecoder': '_not_implemented'}

ICONV, ENC = 'lib/iconv.py', 'lib/encodings.py'
OPS = [('ops', 'iconv_ops')]
DO = [('d', 'enc_data'), ('o', 'codec_oracle')]
TABLE = 'list (list N * list N)'
ENCGLOBALS = {'_portable_encodings': V('(ed_portable d)', 'ptable'), '_extra_encodings': V('(ed_extra d)', 'strset'),
              '_unmangle_encoding': V('um', 'sdict'), '_pycodec_to_encoding': V('(ed_c2e d)', 'sdict', keyerror=True),
              '_interesting_ascii_str': V(None, 'ascii_str')}


def find_try(fdef):
    found = [n for n in ast.walk(fdef) if isinstance(n, ast.Try) and n.body and isinstance(n.body[0], ast.Assign)
             and 'is_ascii_compatible_encoding' in ast.unparse(n.body[0].value)]
    if len(found) != 1:
        bad(fdef, 'cannot find the one `try: ... = encinfo.is_ascii_compatible_encoding(...)` statement')
    return found


def from_result(fdef):
    start = [i for i, s in enumerate(fdef.body) if ast.unparse(s) == 'result = []']
    if len(start) != 1:
        bad(fdef, 'cannot find the statement `result = []`')
    return fdef.body[start[0]:]


def mime_end(fn, e):
    enc = e['encoding']
    if enc.kind not in ('none', 'str'):
        bad('encoding', 'kind at the end of the charset statement')
    return 'PRet (%s, %s)' % (e['$tags'].text, 'None' if enc.kind == 'none' else 'Some ' + enc.text)


SPECS = [
    dict(file=ICONV, func='_decode_dl', name='src_iconv_decode_dl', ctx=OPS, fuel=True, ret='str', rettype='list N',
         params=[('input', 'bytes'), ('encoding', 'opaque')], open=('WCHAR_T', '<encoding>')),
    dict(file=ICONV, func='decode', name='src_iconv_decode', ctx=OPS, fuel=True, ret='str', rettype='list N',
         params=[('input', 'bytes'), ('encoding', 'opaque'), ('errors', 'errors')], calls=['_decode']),
    dict(file=ICONV, func='_encode_dl', name='src_iconv_encode_dl', ctx=OPS, fuel=True, ret='bytes', rettype='list N',
         params=[('input', 'str'), ('encoding', 'opaque')], open=('<encoding>', 'UTF-32LE')),
    dict(file=ICONV, func='encode', name='src_iconv_encode', ctx=OPS, fuel=True, ret='bytes', rettype='list N',
         params=[('input', 'str'), ('encoding', 'opaque'), ('errors', 'errors')], calls=['_encode']),
    dict(file=ENC, func='is_portable_encoding', name='src_is_portable_encoding', ctx=DO, ret='bool', rettype='bool',
         params=[('encoding', 'str'), ('python', 'bool')], globals=ENCGLOBALS),
    dict(file=ENC, func='propose_portable_encoding', name='src_propose_portable_encoding', ctx=DO, ret='str', rettype='list N',
         params=[('encoding', 'str'), ('python', 'bool')], globals=ENCGLOBALS, calls=['is_portable_encoding']),
    dict(file=ENC, func='is_ascii_compatible_encoding', name='src_is_ascii_compatible_encoding', ctx=DO, ret='bool', rettype='bool',
         params=[('encoding', 'str'), ('missing_ok', 'bool')], globals=ENCGLOBALS, ascii=True),
    dict(file=ENC, func='charmap_encoding', name='src_charmap_encoding', ctx=DO + [('files', TABLE)], ret='codecinfo', rettype='codecinfo',
         params=[('encoding', 'str')], globals=ENCGLOBALS, codecs=True),
    dict(file=ENC, func='_codec_search_function', name='src_codec_search_function', ctx=DO + [('um', TABLE), ('files', TABLE)], ret='codecinfo',
         rettype='codecinfo', params=[('encoding', 'str')], globals=ENCGLOBALS, codecs=True, calls=['charmap_encoding']),
    dict(file='lib/check/__init__.py', cls='Checker', func='check_mime', name='src_check_mime_charset', fragment=True, select=find_try,
         ctx=DO + [('is_template', 'bool'), ('has_language', 'bool'), ('unrep', 'list N -> pres (list (list N))')],
         ret='never', rettype='list (list N * list (list N)) * option (list N)', params=[('encoding', 'str'), ('ct', 'str')],
         env={'$tags': V('[]', 'tags')}, attrs={'ctx.is_template': V('is_template', 'bool'), 'ctx.language': V('has_language', 'opt')}, unrep=True,
         end=mime_end, calls=['is_ascii_compatible_encoding', 'is_portable_encoding', 'propose_portable_encoding']),
    dict(file='lib/ling.py', cls='Language', func='get_unrepresentable_characters', name='src_unrepresentable_tail', fragment=True, select=from_result,
         ctx=[('encode', 'list N -> outcome unit unit'), ('cli_fallback', 'bool')], ret='strs', rettype='list (list N)',
         params=[('characters', 'strs'), ('encoding', 'opaque')], encode=True),
]
ALIASES = {'_decode': ('_decode_dl', '_decode = _decode_dl if _iconv is not None else _decode_cli'),
           '_encode': ('_encode_dl', '_encode = _encode_dl if _iconv is not None else _encode_cli')}
TREES = {}


def module(path):
    if path not in TREES:
        TREES[path] = ast.parse(open(os.path.join(REPO, path), encoding='utf-8').read())
    return TREES[path]


def translate(spec):
    tree = module(spec['file'])
    scope = tree.body
    if spec.get('cls'):
        cl = [c for c in tree.body if isinstance(c, ast.ClassDef) and c.name == spec['cls']]
        if len(cl) != 1:
            raise Unsupported('class %s not found exactly once' % spec['cls'])
        scope = cl[0].body
    found = [f for f in scope if isinstance(f, ast.FunctionDef) and f.name == spec['func']]
    if len(found) != 1:
        raise Unsupported('%s: %s not defined exactly once' % (spec['file'], spec['func']))
    if spec['file'] == ENC:     # the class hierarchy the handlers rely on
        ok = [c for c in tree.body if isinstance(c, ast.ClassDef) and c.name == 'EncodingLookupError' and [ast.unparse(b) for b in c.bases] == ['LookupError']]
        if len(ok) != 1:
            raise Unsupported('class EncodingLookupError(LookupError) not found')
    fn = Fn(spec)
    text = fn.run(found[0])
    FUNCS[spec['func']] = fn
    for alias, (target, stmt) in ALIASES.items():
        binds = [t for t in ast.walk(tree) if (isinstance(t, ast.FunctionDef) and t.name == alias) or (isinstance(t, ast.Name) and t.id == alias and isinstance(t.ctx, ast.Store))]
        if target == spec['func'] and sum(ast.unparse(t) == stmt for t in tree.body) == 1 and len(binds) == 1:
            FUNCS[alias] = fn           # the one binding of the alias is that module-level statement (libc has iconv(3): the _dl variant)
    return text


def main(emit):
    out = ['(* generated by tools/gen/gen_encodings_src.py from the python ast of lib/iconv.py, lib/encodings.py, lib/check/__init__.py, lib/ling.py - do not edit *)',
           'From Coq Require Import List ZArith NArith Bool.',
           'From I18n Require Import Lib.Outcome Generated.CodecOracle Model.Encodings Model.Iconv Model.EncodingsPy.',
           'Import ListNotations.', 'Local Open Scope Z_scope.', '']
    errors = []
    FUNCS.clear()
    TREES.clear()
    for spec in SPECS:
        try:
            out.append('(* %s: %s *)\n%s' % (spec['file'], spec['func'], translate(spec)))
        except (Unsupported, KeyError, ValueError, IndexError, AttributeError, TypeError, OSError, SyntaxError) as e:
            msg = '%s: %s: %s' % (spec['name'], type(e).__name__, e)
            errors.append(msg)
            out.append('(* NOT TRANSLATABLE - %s *)\nDefinition %s : unit := tt.\n' % (msg.replace('*)', '* )').replace('(*', '( *').replace('"', "'"), spec['name']))
    emit('EncodingsSrc.v', '\n'.join(out))
    if errors:
        raise SystemExit('gen_encodings_src: the source left the supported subset (tie broken):\n  ' + '\n  '.join(errors))


if __name__ == '__main__':
    main(lambda name, text: print(text))

"""Source translator for C15:  lib/gettext.py `parse_header` and lib/check/__init__.py `Checker.check_comments`,
`check_headers`, `check_mime`, `check_project`, `check_translator`  ->  coq/Generated/HeaderSrc.v  (python `ast` -> Gallina).

Proofs/HeaderSrc.v proves every generated definition equal to the hand-written model (Model/Header.v) for all arguments;
Props/C15.v restates that (C15_source_tie_*).  An edit of the Python code changes the generated text and breaks those proofs.
FAIL CLOSED: a construct outside the subset below raises Unsupported; that function is then emitted with type `unit`
(its tie lemma cannot compile) and main() exits non-zero after writing the file (gen_rc != 0 = broken tie).

Values.  A Python value is (Gallina text, type); assignment is substitution (no `let`), binders are x1, x2, ...
The Gallina helpers are hand-written in coq/Model/HeaderPy.v (truthy, split1, opt_in, mm_items, counter_items, dict_get,
lc_get, sorted_chars, join_refs, alt_search, scheme_or_empty_is_empty, oapp, ocoll, oassert, ...) and Model/Header.v
(str primitives: split_on, strip_blank, splitlines, sort_u, values_of, hmem, smem, hstarts, str_eqb).

Interface (table SPECS: the parameters of each generated function; ATOMS / ENTRY: reads of ctx and of a polib entry).
  ctx.is_template -> template;  ctx.file.header -> comment;  ctx.file -> es : list entry;  ctx.metadata -> fs (read only)
  frozenset(gettext.header_fields) -> known;  header_fields_with_dedicated_checks -> dedicated   (generated tables)
  entry.obsolete / .occurrences / .flags -> e_obsolete / e_occurrences / e_flags;  entry.msgid_plural is not None -> e_has_plural;
  is_header_entry(entry) -> e_header;  entry.msgstr_plural.get(0, entry.msgstr) -> e_plural0, else e_msgstr  (None | str)
  a header line (what parse_header yields): `yield {k: v}` -> HField k v, `yield line` -> HStray line;
     isinstance(line, dict) -> match on the constructor, [(k, v)] = line.items() binds the two fields
  ctx.encoding, ctx.file.header_entry, del ctx.file.metadata* (table IGNORE) are outputs for other checks: dropped.
External calls stay oracles / scanners of the model (tables CALLS, REGEX): re.search(<literal>, s), regex set of check_comments,
  is_valid_field_name, gettext.search_for_conflict_marker, find_unusual_characters, gettext.parse_header (argument `parse`),
  x.lower() / str.lower(x) -> o_lower O, difflib.get_close_matches (two shapes) -> o_close_fuzzy / o_close_field,
  `_, a = email.utils.parseaddr(v)` -> o_parseaddr O v,
  `try: s = urllib.parse.urlparse(v).scheme / except ValueError: s = ''` then `s == ''` -> scheme_or_empty_is_empty (o_urlscheme O v),
  domains.is_email_in_special_domain(a) / is_email_in_dotless_domain(a): only as a whole `if` test ->
     obind (email_in_special_domain O eos so a) (fun b => if b then .. else ..)   (their ValueError is the model's Crash branch),
  the try/except/else on encinfo.is_ascii_compatible_encoding in check_mime (the charset part) is NOT translated: it becomes
     `charset_step ct enc` (argument): fst = tags it emits, snd = new value of the one live variable it assigns (None | str);
     checked syntactically: no return/break/continue/yield inside, assigns only that variable and three scratch names.

Expressions.
  'c' literals -> (lit "c") / [];  s.split('\\n') -> split_on 10 s (never empty: l[-1] -> last l []);  l.pop() -> removelast l
  k, *vs = s.split(':', 1) -> fst / snd (split1 58 s);  vs[0] -> hd [] vs, only under a guard `vs` / `len(vs) == 1`
  s.strip(' \\t') -> strip_blank;  s.splitlines();  s.startswith((..));  'c' in s / not in -> hmem;  x in {'a','b'} -> str_eqb || ..
  x in T (table) -> smem;  h in d (d a dict, h None | str) -> opt_in;  == != on str -> str_eqb;  l == [''] -> strs_eqb
  len(l) < <= > >= == != n -> Nat.ltb / leb / eqb;  not / and / or;  truth of a list -> truthy
  sorted(set(l)) -> sort_u l;  set(find_unusual_characters(s)) / sorted(that) -> unusual_scan O None s / sorted_chars
  d[K] (defaultdict, K literal) -> values_of (lit K) d;  sorted(d.items()) -> mm_items d;  sorted(Counter(l).items()) -> counter_items l
  {str.lower(s): s for s in T}.get(k) -> lc_get (o_lower O) T k;  d = {}; d[k] = v (in a loop) ; d.get(k) -> dict_get (log of (k, v)) k
  x is None / is not None, `if l:` for a list of at most one element, `if match:` as the TEST OF AN IF on a variable ->
     match x with Some x1 => .. | None => .. end   (inside the Some branch the variable reads as x1);  x or '' -> opt_or_empty
  match.group(2) -> snd, match.group(1) is None -> negb (fst ..);  hint.replace('<encoding>', e) -> Some e (hint: option str)
  entry is not ctx.file[0] (entry the loop variable over ctx.file) -> negb first  (first = this is iteration 0)
Statements.
  self.tag(NAME, args..) appends one constructor of `diag` (table TAGS: per tag the exact argument shapes; literal arguments
     such as '=>', '1.0', tags.safestr('MIME-Version: 1.0') must be textually those of the table);  yield (above)
  x = e;  x = [] (fresh: an append-only list);  collections.defaultdict(list), {} (fresh dicts, see above);  l += [e];  d[k] += [v]
  s |= {..} on the regex set;  del x;  pass;  assert c -> oassert c (c is known afterwards)
  if / elif / else: a variable assigned in a branch becomes `if c then a else b`, the emitted lists `if c then A else B`;
     when a branch ends in return / continue / break, the statements AFTER the if are moved into the other branch first
  return (no value) = end of the function;  continue = end of the iteration
  for x in l: body that only appends -> flat_map (fun x => body) l per list (ocoll when the body can raise)
  for x in l (l = ctx.file or a list of str): body that assigns outer bool variables or breaks -> Fixpoint <f>_loopN over l,
     parameters = the assigned outer variables and the lists appended to (+ first); [] => current values;
     x :: l' => if <broke> then new values else recursive call with the new values; afterwards the variables are projections
     of the call.  A list may not be rebound, nor read inside the loop that fills it.
Results.  parse_header / check_project / check_translator: outcome (list _) unit (assert -> Crash CAssertion, the domains
  calls); check_comments / check_mime: list diag;  check_headers: (ctx.metadata, list diag).
"""
import ast
import os
import re

REPO = os.environ.get('VERIF_REPO') or '/repo'
CHK = 'lib/check/__init__.py'
HINT = 'text/plain; charset=<encoding>'
EXITS = (ast.Return, ast.Continue, ast.Break)
KINDS = {'Out': 'list diag', 'Strs': 'list str', 'MM': 'list (str * str)', 'Dict': 'list (str * str)', 'Lines': 'list hline'}
OPT = ('OptStr', 'List01', 'CtMatch')   # values represented by an option


class Unsupported(Exception):
    pass


def bad(node, why):
    raise Unsupported('%s: line %s: %s' % (why, getattr(node, 'lineno', '?'), ast.unparse(node)[:100]))


def lit(s):
    if s == '':
        return '[]'
    if all(32 <= ord(c) < 127 and c != '"' for c in s):
        return '(lit "%s")' % s
    raise Unsupported('string literal %r' % s)


class V:
    """a translated value: Gallina text + type; some = binder when an option is known to be Some; x = extra data"""
    def __init__(self, text, ty, some=None, x=None):
        self.text, self.ty, self.some, self.x = text, ty, some, x


class Acc:
    """an append-only list: segments (Gallina text, can-raise flag) joined by ++ / oapp; outer = the list it continues"""
    def __init__(self, kind, segs=(), outer=None):
        self.kind, self.segs, self.outer = kind, list(segs), outer

    def is_m(self):
        return any(m for _, m in self.segs)

    def render(self, m=None):
        m = self.is_m() if m is None else m
        if not m:
            if self.is_m():
                raise Unsupported('code that can raise where the model has a total function')
            return '(' + ' ++ '.join(t for t, _ in self.segs) + ')' if self.segs else '[]'
        parts, pure = [], []
        for t, mm in self.segs + [(None, True)]:
            if mm:
                if pure:
                    parts.append('(Ok (' + ' ++ '.join(pure) + '))')
                    pure = []
                if t:
                    parts.append(t)
            else:
                pure.append(t)
        out = parts.pop() if parts else '(Ok [])'
        while parts:
            out = '(oapp %s %s)' % (parts.pop(), out)
        return out

    def read(self):
        """the whole list, read (not appended to) at this point"""
        if self.outer is not None:
            if self.segs:
                raise Unsupported('a list is read in the loop that fills it')
            return self.outer.read()
        return self.render(False)


TAGS = {
    'boilerplate-in-initial-comments': [(('Str',), 'DBoilerplateComment {}')],
    'duplicate-header-entry': [((), 'DDuplicateHeaderEntry')],
    'empty-msgid-message-with-source-code-references': [(('Refs',), 'DEmptyMsgidRefs {}')],
    'empty-msgid-message-with-plural-forms': [((), 'DEmptyMsgidPlural')],
    'fuzzy-header-entry': [((), 'DFuzzyHeader')],
    'unexpected-flag-for-header-entry': [(('Str', "='=>'", "='fuzzy'"), 'DUnexpectedFlag {} true'), (('Str',), 'DUnexpectedFlag {} false')],
    'duplicate-flag-for-header-entry': [(('Str',), 'DDuplicateFlag {}')],
    'distant-header-entry': [((), 'DDistantHeader')],
    'unusual-character-in-header-entry': [(('CharNames',), 'DUnusualChars {}')],
    'conflict-marker-in-header-entry': [(('Str',), 'DConflictMarker {}')],
    'stray-header-line': [(('Str',), 'DStrayLine {}')],
    'unknown-header-field': [(('Str',), 'DUnknownField {} None'), (('Str', "='=>'", 'Str'), 'DUnknownField {} (Some {})')],
    'duplicate-header-field': [(('Str',), 'DDuplicateField {}')],
    'no-mime-version-header-field': [(("=tags.safestr('MIME-Version: 1.0')",), 'DNoField FMime')],
    'no-content-transfer-encoding-header-field': [(("=tags.safestr('Content-Transfer-Encoding: 8bit')",), 'DNoField FCte')],
    'no-content-type-header-field': [(('NoCtHint',), 'DNoField FContentType')],
    'invalid-mime-version': [(('Str', "='=>'", "='1.0'"), 'DInvalidMimeVersion {}')],
    'invalid-content-transfer-encoding': [(('Str', "='=>'", "='8bit'"), 'DInvalidCte {}')],
    'invalid-content-type': [(('Str', "='=>'", 'Hint'), 'DInvalidContentType {} {}')],
    'boilerplate-in-project-id-version': [(('Str',), 'DBoilerplateProject {}')],
    'no-package-name-in-project-id-version': [(('Str',), 'DNoPackageName {}')],
    'no-version-in-project-id-version': [(('Str',), 'DNoVersion {}')],
    'invalid-report-msgid-bugs-to': [(('Str',), 'DInvalidReport {}')],
    'boilerplate-in-report-msgid-bugs-to': [(('Str',), 'DBoilerplateReport {}')],
    'invalid-last-translator': [(('Str',), 'DInvalidTranslator {}')],
    'boilerplate-in-last-translator': [(('Str',), 'DBoilerplateTranslator {}')],
    'invalid-language-team': [(('Str',), 'DInvalidTeam {}')],
    'boilerplate-in-language-team': [(('Str',), 'DBoilerplateTeam {}')],
    'language-team-equal-to-last-translator': [(('Str', 'Str'), 'DTeamEqualsTranslator {} {}')],
}
for _f, _c in (('mime-version', 'FMime'), ('content-transfer-encoding', 'FCte'), ('content-type', 'FContentType'), ('project-id-version', 'FProject'),
               ('report-msgid-bugs-to', 'FReport'), ('last-translator', 'FTranslator'), ('language-team', 'FTeam')):
    TAGS['duplicate-header-field-' + _f] = [((), 'DDuplicateDedicated ' + _c)]
    TAGS.setdefault('no-%s-header-field' % _f, [((), 'DNoField ' + _c)])
# re.search(<literal>, s): the model's scanner for that regex (truth value, except the Content-Type one: a match object)
REGEX = {r'[^_\d\W]': ('(has_name_char O {})', 'Bool'), r'[0-9]': ('(has_ascii_digit {})', 'Bool'),
         r'(\Atext/plain; )?\bcharset=([^\s;]+)\Z': ('(content_type_match O {})', 'CtMatch')}
# the alternatives of check_comments: scanner `option N -> str -> bool` (previous character, rest of the line)
REGEX_ALT = {r'\bPACKAGE package\b': '(m_word_lit O (lit "PACKAGE package"))', r'\bCopyright \S+ YEAR\b': '(m_copyright_year O)',
             r"\bTHE PACKAGE'S COPYRIGHT HOLDER\b": '(m_word_lit O (lit "THE PACKAGE\'S COPYRIGHT HOLDER"))',
             r'\bFIRST AUTHOR\b': '(m_word_lit O (lit "FIRST AUTHOR"))', r'<EMAIL@ADDRESS>': '(m_plain (lit "<EMAIL@ADDRESS>"))',
             r'(?<=>), YEAR\b': '(m_gt_year O)'}
# f(x): external functions of one str argument
CALLS = {'is_valid_field_name': ('(valid_field_name {})', 'Bool'), 'gettext.search_for_conflict_marker': ('(is_conflict_marker {})', 'Bool'),
         'find_unusual_characters': ('(unusual_scan O None {})', 'CharList'), 'gettext.parse_header': ('(parse {})', 'HLines'),
         'str.lower': ('(o_lower O {})', 'Str')}
MONADIC = {'domains.is_email_in_special_domain': '(email_in_special_domain O eos so {})', 'domains.is_email_in_dotless_domain': '(email_in_dotless_domain {})'}
ATOMS = {'ctx.is_template': ('template', 'Bool'), 'ctx.file.header': ('comment', 'Str'), 'ctx.file': ('es', 'Entries'), 'ctx.metadata': ('fs', 'MMro'),
         'frozenset(gettext.header_fields)': ('known', 'Table'), 'header_fields_with_dedicated_checks': ('dedicated', 'Table')}
ENTRY = {'obsolete': ('(e_obsolete {})', 'Bool'), 'occurrences': ('(e_occurrences {})', 'Occs'), 'flags': ('(e_flags {})', 'StrList'),
         'msgid_plural': ('(e_has_plural {})', 'Presence')}
IGNORE = {'ctx.encoding = None', 'encodings = set()', 'encodings.add(encoding)', 'if len(encodings) == 1:\n    [ctx.encoding] = encodings',
          'ctx.file.header_entry = None', 'del ctx.file.metadata', 'del ctx.file.metadata_is_fuzzy'}
CHARNAMES = "f'U+{ord(ch):04X} {encinfo.get_character_name(ch)}'"
SCRATCH = {'is_ascii_compatible', 'new_encoding', 'unrepresentable_characters'}


def has_exit(s):
    """does the statement contain return / break / continue (not counting break / continue of a nested loop)?"""
    if isinstance(s, EXITS):
        return True
    if isinstance(s, ast.For):
        return any(isinstance(n, ast.Return) for n in ast.walk(s))
    return any(has_exit(c) for c in ast.iter_child_nodes(s) if isinstance(c, (ast.stmt, ast.ExceptHandler)))


class Tr:
    def __init__(self, name, pnames):
        self.name, self.pnames, self.n, self.aux, self.where, self.fix, self.nfix = name, pnames, 0, [], ['func'], None, 0

    def fresh(self):
        self.n += 1
        return 'x%d' % self.n

    # ------------------------------------------------------------ expressions
    def s(self, n, env, g):
        """an expression that must be a str (a None | str variable counts inside the branch where it is known to be a str)"""
        v = self.ev(n, env, g)
        if v.ty in OPT[:2] and v.some:
            return v.some
        if v.ty == 'Const':
            return lit(v.text)
        if v.ty != 'Str':
            bad(n, 'expected a str, got ' + v.ty)
        return v.text

    def ev(self, n, env, g):
        key = ast.unparse(n)
        if key in ATOMS:
            return V(*ATOMS[key])
        if isinstance(n, ast.Name):
            v = env.get(n.id)
            if isinstance(v, Acc) and v.kind == 'Strs':
                return V(v.read(), 'StrList')
            if not isinstance(v, V):
                bad(n, 'unknown name, or a list / dict used as a value')
            return v
        if isinstance(n, ast.Constant):
            if n.value is None:
                return V('None', 'OptStr')
            if n.value is True or n.value is False:
                return V(str(n.value).lower(), 'Bool')
            if isinstance(n.value, str):
                return V(n.value, 'Const')
            if type(n.value) is int and n.value >= 0:
                return V(str(n.value), 'Int')
            bad(n, 'constant')
        if isinstance(n, ast.Attribute):
            o = self.ev(n.value, env, g)
            if o.ty == 'Entry' and n.attr in ENTRY:
                t, ty = ENTRY[n.attr]
                return V(t.format(o.text), ty)
            bad(n, 'attribute of ' + o.ty)
        if isinstance(n, ast.Subscript):
            o, i = self.ev(n.value, env, g), n.slice
            if o.ty == 'MMro' and isinstance(i, ast.Constant) and isinstance(i.value, str):
                return V('(values_of %s %s)' % (lit(i.value), o.text), 'StrList')
            if o.ty == 'NEList' and key.endswith('[-1]'):
                return V('(last %s [])' % o.text, 'Str')
            if o.ty == 'StrList' and isinstance(i, ast.Constant) and i.value == 0 and type(i.value) is int:
                if 'truthy %s' % o.text not in g and 'Nat.eqb (length %s) 1' % o.text not in g:
                    bad(n, '[0] without a guard that the list is not empty')
                return V('(hd [] %s)' % o.text, 'Str')
            bad(n, 'subscript of ' + o.ty)
        if isinstance(n, ast.BinOp) and isinstance(n.op, ast.Add) and key.startswith("'Content-Type: ' + ") and self.ev(n.right, env, g).ty == 'Hint' \
                and self.ev(n.right, env, g).text == 'None':
            return V(None, 'NoCtHint')
        if isinstance(n, ast.BoolOp) and isinstance(n.op, ast.Or) and len(n.values) == 2 and key.endswith(" or ''"):
            a = self.ev(n.values[0], env, g)
            if a.ty == 'OptStr':
                return V('(opt_or_empty %s)' % a.text, 'Str')
        if isinstance(n, (ast.BoolOp, ast.Compare)) or (isinstance(n, ast.UnaryOp) and isinstance(n.op, ast.Not)):
            return V(self.cond(n, env, g)[0], 'Bool')
        if isinstance(n, ast.Set) and n.elts and all(isinstance(e, ast.Constant) and e.value in REGEX_ALT for e in n.elts):
            return V('[' + '; '.join(REGEX_ALT[e.value] for e in n.elts) + ']', 'ReSet')
        if isinstance(n, ast.DictComp) and len(n.generators) == 1 and not n.generators[0].ifs and isinstance(n.generators[0].target, ast.Name):
            t, x = self.ev(n.generators[0].iter, env, g), n.generators[0].target.id
            if t.ty == 'Table' and ast.unparse(n.key) == 'str.lower(%s)' % x and ast.unparse(n.value) == x:
                return V(t.text, 'LcDict')
        if isinstance(n, ast.Starred) and isinstance(n.value, ast.GeneratorExp) and len(n.value.generators) == 1:
            ge, gen = n.value, n.value.generators[0]
            if ast.unparse(ge.elt) == "str.join(':', (path, line))" and ast.unparse(gen.target) in ('(path, line)', 'path, line') and not gen.ifs:
                o = self.ev(gen.iter, env, g)
                if o.ty == 'Occs':
                    return V('(join_refs %s)' % o.text, 'Refs')
        if isinstance(n, ast.Call):
            return self.call(n, env, g)
        bad(n, 'expression')

    def call(self, n, env, g):
        f, a, kw = ast.unparse(n.func), n.args, {k.arg: ast.unparse(k.value) for k in n.keywords}
        if any(isinstance(x, ast.Starred) for x in a) or None in kw:
            bad(n, 'star arguments')
        if f in CALLS and len(a) == 1 and not kw:
            t, ty = CALLS[f]
            return V(t.format(self.s(a[0], env, g)), ty)
        if f == 'is_header_entry' and len(a) == 1 and not kw and self.ev(a[0], env, g).ty == 'Entry':
            return V('(e_header %s)' % self.ev(a[0], env, g).text, 'Bool')
        if f == 'tags.safestr' and len(a) == 1 and not kw:
            return self.ev(a[0], env, g)
        if f == 're.search' and len(a) == 2 and not kw and isinstance(a[0], ast.Constant) and a[0].value in REGEX:
            t, ty = REGEX[a[0].value]
            return V(t.format(self.s(a[1], env, g)), ty)
        if f == 're.compile' and len(a) == 1 and not kw and ast.unparse(a[0]).startswith("str.join('|', ") and len(a[0].args) == 2:
            r = self.ev(a[0].args[1], env, g)
            if r.ty == 'ReSet':
                return V(r.text, 'Regex')
        if f == 'len' and len(a) == 1 and not kw:
            o = self.ev(a[0], env, g)
            if o.ty in ('StrList', 'NEList'):
                return V('(length %s)' % o.text, 'Nat')
        if f == 'difflib.get_close_matches' and len(a) == 2:
            if ast.unparse(a[1]) == "['fuzzy']" and kw == {'cutoff': '0.8'}:
                return V('(o_close_fuzzy O %s)' % self.s(a[0], env, g), 'Bool')
            if self.ev(a[1], env, g).ty == 'Table' and self.ev(a[1], env, g).text == 'known' and kw == {'n': '1', 'cutoff': '0.8'}:
                return V('(o_close_field O %s)' % self.s(a[0], env, g), 'List01')
        if f == 'collections.Counter' and len(a) == 1 and not kw and self.ev(a[0], env, g).ty == 'StrList':
            return V(self.ev(a[0], env, g).text, 'Counter')
        if f == 'set' and len(a) == 1 and not kw and self.ev(a[0], env, g).ty in ('CharList', 'StrList'):
            o = self.ev(a[0], env, g)
            return V(o.text, 'CharSet' if o.ty == 'CharList' else 'StrSet')
        if f == 'sorted' and len(a) == 1 and not kw:
            if isinstance(a[0], ast.Call) and isinstance(a[0].func, ast.Attribute) and a[0].func.attr == 'items' and not a[0].args and not a[0].keywords:
                d = a[0].func.value
                if isinstance(d, ast.Name) and isinstance(env.get(d.id), Acc) and env[d.id].kind == 'MM':
                    return V('(mm_items %s)' % env[d.id].read(), 'Pairs', x=('Str', 'StrList'))
                if self.ev(d, env, g).ty == 'Counter':
                    return V('(counter_items %s)' % self.ev(d, env, g).text, 'Pairs', x=('Str', 'Nat'))
            o = self.ev(a[0], env, g)
            if o.ty == 'StrSet':
                return V('(sort_u %s)' % o.text, 'StrList')
            if o.ty == 'CharSet':
                return V('(sorted_chars %s)' % o.text, 'CharList')
        if f == 'str.join' and len(a) == 2 and not kw and ast.unparse(a[0]) == "', '" and isinstance(a[1], ast.GeneratorExp) and len(a[1].generators) == 1:
            gen = a[1].generators[0]
            if ast.unparse(a[1].elt) == CHARNAMES and ast.unparse(gen.target) == 'ch' and not gen.ifs and self.ev(gen.iter, env, g).ty == 'CharList':
                return V(self.ev(gen.iter, env, g).text, 'CharNames')
        if isinstance(n.func, ast.Attribute) and not kw:
            m, o = n.func.attr, n.func.value
            if m == 'get' and len(a) == 1 and isinstance(o, ast.Name) and isinstance(env.get(o.id), Acc) and env[o.id].kind == 'Dict':
                return V('(dict_get %s %s)' % (env[o.id].read(), self.s(a[0], env, g)), 'OptStr')
            if m == 'get' and len(a) == 2 and ast.unparse(a[0]) == '0' and isinstance(o, ast.Attribute) and o.attr == 'msgstr_plural' \
                    and ast.unparse(a[1]) == ast.unparse(o.value) + '.msgstr' and self.ev(o.value, env, g).ty == 'Entry':
                e = self.ev(o.value, env, g).text
                return V('(match e_plural0 %s with Some s => Some s | None => e_msgstr %s end)' % (e, e), 'OptStr')
            v = self.ev(o, env, g)
            if m == 'get' and len(a) == 1 and v.ty == 'LcDict':
                return V('(lc_get (o_lower O) %s %s)' % (v.text, self.s(a[0], env, g)), 'OptStr')
            if m == 'search' and len(a) == 1 and v.ty == 'Regex':
                return V('(alt_search %s %s)' % (v.text, self.s(a[0], env, g)), 'MatchB')
            if m == 'group' and len(a) == 1 and v.ty == 'CtMatch' and v.some and ast.unparse(a[0]) in ('1', '2'):
                return V('(snd %s)' % v.some, 'Str') if ast.unparse(a[0]) == '2' else V('(fst %s)' % v.some, 'Presence')
            if m == 'replace' and len(a) == 2 and v.ty == 'Hint' and v.text == 'None' and ast.unparse(a[0]) == "'<encoding>'":
                return V('(Some %s)' % self.s(a[1], env, g), 'Hint')
            if v.ty in ('Str', 'Const') or (v.ty in OPT[:2] and v.some):
                t = self.s(o, env, g)
                if m == 'split' and len(a) == 1 and isinstance(a[0], ast.Constant) and isinstance(a[0].value, str) and len(a[0].value) == 1:
                    return V('(split_on %d %s)' % (ord(a[0].value), t), 'NEList')
                if m == 'strip' and len(a) == 1 and ast.unparse(a[0]) == "' \\t'":
                    return V('(strip_blank %s)' % t, 'Str')
                if m == 'lower' and not a:
                    return V('(o_lower O %s)' % t, 'Str')
                if m == 'splitlines' and not a:
                    return V('(splitlines %s)' % t, 'StrList')
                if m == 'startswith' and len(a) == 1 and isinstance(a[0], ast.Tuple) and a[0].elts and all(isinstance(e, ast.Constant) and isinstance(e.value, str) for e in a[0].elts):
                    return V('(' + ' || '.join('hstarts %s %s' % (lit(e.value), t) for e in a[0].elts) + ')', 'Bool')
        bad(n, 'call')

    def cond(self, n, env, g):
        """a condition without side effects -> (Gallina bool, conjuncts known when it is true)"""
        if isinstance(n, ast.BoolOp):
            parts, conj = [], []
            for v in n.values:
                t, c = self.cond(v, env, g + conj if isinstance(n.op, ast.And) else g)
                parts.append(t)
                conj += c
            return '(' + (' && ' if isinstance(n.op, ast.And) else ' || ').join(parts) + ')', conj if isinstance(n.op, ast.And) else []
        if isinstance(n, ast.UnaryOp) and isinstance(n.op, ast.Not):
            return '(negb %s)' % self.cond(n.operand, env, g)[0], []
        if isinstance(n, ast.Compare):
            if len(n.ops) != 1:
                bad(n, 'chained comparison')
            op, l, r = type(n.ops[0]), n.left, n.comparators[0]
            neg = op in (ast.NotEq, ast.NotIn, ast.IsNot)
            wrap = (lambda t: '(negb %s)' % t) if neg else (lambda t: t)
            if op in (ast.Is, ast.IsNot):
                a = self.ev(l, env, g)
                if self.fix and ast.unparse(l) == self.fix[0] and ast.unparse(r) == self.fix[1] + '[0]':
                    return wrap('first'), []
                if ast.unparse(r) == 'None' and a.ty in ('MatchB', 'Presence'):
                    return ('(negb %s)' % a.text if op is ast.Is else a.text), []
                bad(n, 'identity test (on an option it must be the whole test of an if)')
            if op in (ast.In, ast.NotIn):
                if isinstance(r, ast.Set) and r.elts and all(isinstance(e, ast.Constant) and isinstance(e.value, str) for e in r.elts):
                    x = self.s(l, env, g)
                    return wrap('(' + ' || '.join('str_eqb %s %s' % (x, lit(e.value)) for e in r.elts) + ')'), []
                if isinstance(r, ast.Name) and isinstance(env.get(r.id), Acc) and env[r.id].kind == 'MM':
                    a = self.ev(l, env, g)
                    if a.ty in ('OptStr', 'List01'):
                        return wrap('(opt_in %s (map fst %s))' % (a.text, env[r.id].read())), []
                b = self.ev(r, env, g)
                if b.ty == 'Table':
                    return wrap('(smem %s %s)' % (self.s(l, env, g), b.text)), []
                if isinstance(l, ast.Constant) and isinstance(l.value, str) and len(l.value) == 1:
                    return wrap('(hmem %d %s)' % (ord(l.value), self.s(r, env, g))), []
                bad(n, 'membership test')
            a = self.ev(l, env, g)
            if op in (ast.Eq, ast.NotEq) and a.ty == 'StrList' and ast.unparse(r) == "['']":
                return wrap('(strs_eqb %s [[]])' % a.text), []
            b = self.ev(r, env, g)
            if op in (ast.Eq, ast.NotEq):
                if a.ty == 'SchemeOrEmpty' and b.ty == 'Const' and b.text == '':
                    return wrap('(scheme_or_empty_is_empty %s)' % a.text), []
                if {a.ty, b.ty} <= {'Str', 'Const', 'OptStr', 'List01'} and a.ty != 'Const':
                    return wrap('(str_eqb %s %s)' % (self.s(l, env, g), self.s(r, env, g))), []
            if a.ty == 'Nat' and b.ty == 'Int':
                t = {ast.Lt: 'Nat.ltb %s %s', ast.LtE: 'Nat.leb %s %s', ast.Eq: 'Nat.eqb %s %s', ast.NotEq: 'Nat.eqb %s %s'}.get(op)
                if t:
                    t = t % (a.text, b.text)
                elif op in (ast.Gt, ast.GtE):
                    t = ('Nat.ltb %s %s' if op is ast.Gt else 'Nat.leb %s %s') % (b.text, a.text)
                if t:
                    return wrap('(%s)' % t), ([] if neg else [t])
            bad(n, 'comparison of %s with %s' % (a.ty, b.ty))
        v = self.ev(n, env, g)
        if v.ty == 'Bool':
            return v.text, []
        if v.ty in ('StrList', 'CharSet', 'Occs'):
            return '(truthy %s)' % v.text, ['truthy %s' % v.text]
        bad(n, 'truth value of ' + v.ty)

    # ------------------------------------------------------------ statements
    @staticmethod
    def clone(env):
        return {k: (Acc(v.kind, v.segs, v.outer) if isinstance(v, Acc) else v) for k, v in env.items()}

    def merge(self, env, render, ea, eb, mon):
        for name in list(env):
            if name not in ea or name not in eb:
                del env[name]
        for name in set(ea) & set(eb):
            a, b = ea[name], eb[name]
            if isinstance(a, Acc) and isinstance(b, Acc) and a.kind == b.kind:
                k = len(env[name].segs) if name in env else 0
                if k and (not isinstance(env[name], Acc) or a.segs[:k] != env[name].segs or b.segs[:k] != env[name].segs):
                    raise Unsupported('list %s is not append-only' % name)
                da, db = Acc(a.kind, a.segs[k:]), Acc(a.kind, b.segs[k:])
                env[name] = Acc(a.kind, a.segs[:k], a.outer)
                if da.segs or db.segs:
                    m = mon or da.is_m() or db.is_m()
                    env[name].segs.append((render(da.render(m), db.render(m)), m))
            elif isinstance(a, V) and isinstance(b, V):
                if a is b or (a.text, a.ty, a.some) == (b.text, b.ty, b.some):
                    env[name] = a
                elif {a.ty, b.ty} == {'NEList', 'StrList'} and not mon:
                    env[name] = V(render(a.text, b.text), 'StrList')
                elif a.ty != b.ty or mon or a.text is None or b.text is None or a.ty in ('Dropped', 'Entry'):
                    raise Unsupported('branches bind %s to values that cannot be merged (%s / %s)' % (name, a.ty, b.ty))
                else:
                    env[name] = V(render(a.text, b.text), a.ty, x=a.x)
            else:
                raise Unsupported('branches bind %s to different kinds of value' % name)

    def if_(self, test, body, orelse, env, g):
        neg, t = False, test
        if isinstance(t, ast.UnaryOp) and isinstance(t.op, ast.Not):
            neg, t = True, t.operand
        ea, eb, conj, mon, name = self.clone(env), self.clone(env), [], False, None
        var = lambda n, tys: isinstance(n, ast.Name) and isinstance(env.get(n.id), V) and env[n.id].ty in tys
        if var(t, ('List01', 'CtMatch')):
            name = t.id
        elif isinstance(t, ast.Compare) and len(t.ops) == 1 and isinstance(t.ops[0], (ast.Is, ast.IsNot)) and ast.unparse(t.comparators[0]) == 'None' and var(t.left, OPT):
            name, neg = t.left.id, neg != isinstance(t.ops[0], ast.Is)
        if name:      # then-branch: Some, else-branch: None (swapped when neg)
            v, x = env[name], self.fresh()
            pa, pb = V('(Some %s)' % x, v.ty, some=x), (v if v.ty == 'CtMatch' else V('None', v.ty))
            pat = '(match %s with Some %s => %%s | None => %%s end)' % (v.text, x)
        elif isinstance(t, ast.Call) and ast.unparse(t.func) == 'isinstance' and len(t.args) == 2 and ast.unparse(t.args[1]) == 'dict' and var(t.args[0], ('HLine',)):
            name, v, (k, w, l) = t.args[0].id, env[t.args[0].id], (self.fresh(), self.fresh(), self.fresh())
            pa, pb = V(None, 'HDict', x=(k, w)), V(l, 'Str')
            pat = '(match %s with HField %s %s => %%s | HStray %s => %%s end)' % (v.text, k, w, l)
        elif isinstance(t, ast.Call) and ast.unparse(t.func) in MONADIC and len(t.args) == 1 and not t.keywords:
            x, mon = self.fresh(), True
            pat = '(obind %s (fun %s => if %s then %%s else %%s))' % (MONADIC[ast.unparse(t.func)].format(self.s(t.args[0], env, g)), x, x)
        else:
            neg = False
            c, conj = self.cond(test, env, g)
            pat = '(if %s then %%s else %%s)' % c
        if neg:
            body, orelse = orelse, body
        if name:
            ea[name], eb[name] = pa, pb
        self.block(body, ea, g + conj)
        self.block(orelse, eb, g)
        if name:      # the variable itself is unchanged by the test
            ea[name], eb[name] = (v if ea[name] is pa else ea[name]), (v if eb[name] is pb else eb[name])
        self.merge(env, lambda a, b: pat % (a, b), ea, eb, mon)

    def block(self, stmts, env, g):
        g = list(g)
        for i, s in enumerate(stmts):
            rest = stmts[i + 1:]
            if isinstance(s, EXITS):
                ok = {'func': ast.Return, 'map': ast.Continue, 'fix': (ast.Continue, ast.Break)}[self.where[-1]]
                if rest or not isinstance(s, ok) or getattr(s, 'value', None) is not None:
                    bad(s, 'exit statement not supported here')
                if isinstance(s, ast.Break):
                    env['$brk'] = V('true', 'Bool')
                return
            if isinstance(s, ast.If) and has_exit(s):
                push = lambda b: b if b and isinstance(b[-1], EXITS) else b + rest
                return self.if_(s.test, push(s.body), push(s.orelse), env, g)
            self.stmt(s, env, g)

    def out(self, env, text, m=False):
        env['$out'].segs.append((text, m))

    def stmt(self, s, env, g):
        txt = ast.unparse(s)
        if isinstance(s, ast.Pass) or txt in IGNORE:
            return
        if isinstance(s, ast.Delete) and all(isinstance(t, ast.Name) and isinstance(env.get(t.id), V) for t in s.targets):
            for t in s.targets:
                del env[t.id]
            return
        if isinstance(s, ast.Assert) and s.msg is None:
            c, conj = self.cond(s.test, env, g)
            self.out(env, '(oassert %s)' % c, True)
            g += conj
            return
        if isinstance(s, ast.Assign) and len(s.targets) == 1:
            return self.assign(s.targets[0], s.value, s, env, g)
        if isinstance(s, ast.AugAssign) and isinstance(s.op, ast.Add) and isinstance(s.value, ast.List) and len(s.value.elts) == 1:
            t, e = s.target, s.value.elts[0]
            if isinstance(t, ast.Name) and isinstance(env.get(t.id), Acc) and env[t.id].kind == 'Strs':
                env[t.id].segs.append(('[%s]' % self.s(e, env, g), False))
                return
            if isinstance(t, ast.Subscript) and isinstance(t.value, ast.Name) and isinstance(env.get(t.value.id), Acc) and env[t.value.id].kind == 'MM':
                env[t.value.id].segs.append(('[(%s, %s)]' % (self.s(t.slice, env, g), self.s(e, env, g)), False))
                return
        if isinstance(s, ast.AugAssign) and isinstance(s.op, ast.BitOr) and isinstance(s.target, ast.Name):
            a, b = self.ev(s.target, env, g), self.ev(s.value, env, g)
            if a.ty == b.ty == 'ReSet':
                env[s.target.id] = V('(%s ++ %s)' % (a.text, b.text), 'ReSet')
                return
        if isinstance(s, ast.If):
            return self.if_(s.test, s.body, s.orelse, env, g)
        if isinstance(s, ast.For) and not s.orelse:
            return self.loop(s, env, g)
        if isinstance(s, ast.Try):
            return self.try_(s, env, g)
        if isinstance(s, ast.Expr) and isinstance(s.value, ast.Yield) and env['$out'].kind == 'Lines':
            y = s.value.value
            if isinstance(y, ast.Dict) and len(y.keys) == 1 and y.keys[0] is not None:
                return self.out(env, '[HField %s %s]' % (self.s(y.keys[0], env, g), self.s(y.values[0], env, g)))
            return self.out(env, '[HStray %s]' % self.s(y, env, g))
        if isinstance(s, ast.Expr) and isinstance(s.value, ast.Call):
            f, c = ast.unparse(s.value.func), s.value
            if f == 'self.tag':
                return self.tag(c, env, g)
            if isinstance(c.func, ast.Attribute) and c.func.attr == 'pop' and not c.args and not c.keywords and isinstance(c.func.value, ast.Name) \
                    and self.ev(c.func.value, env, g).ty == 'NEList':
                env[c.func.value.id] = V('(removelast %s)' % self.ev(c.func.value, env, g).text, 'StrList')
                return
        bad(s, 'statement')

    def assign(self, t, val, s, env, g):
        tv = ast.unparse(val)
        if isinstance(t, ast.Name):
            if isinstance(env.get(t.id), Acc):
                bad(s, 'an append-only list / dict is rebound')
            fresh = not isinstance(env.get(t.id), V)
            if tv in ('[]', 'collections.defaultdict(list)', '{}') and fresh:
                env[t.id] = Acc({'[]': 'Strs', '{}': 'Dict'}.get(tv, 'MM'))
            elif tv == '[]':
                env[t.id] = V('[]', 'StrList')
            elif tv == repr(HINT):
                env[t.id] = V('None', 'Hint')
            else:
                v = self.ev(val, env, g)
                if v.ty in ('Const', 'Int', 'NoCtHint', 'Refs') or v.text is None:
                    bad(s, 'assignment of ' + v.ty)
                env[t.id] = v
            return
        names = [e.id if isinstance(e, ast.Name) else None for e in getattr(t, 'elts', [])]
        if isinstance(t, ast.Tuple) and len(names) == 2 and all(names) and isinstance(val, ast.Call) and ast.unparse(val.func) == 'email.utils.parseaddr' \
                and len(val.args) == 1 and not val.keywords:
            env[names[0]], env[names[1]] = V(None, 'Dropped'), V('(o_parseaddr O %s)' % self.s(val.args[0], env, g), 'Str')
            return
        if isinstance(t, ast.Tuple) and len(t.elts) == 2 and names[0] and isinstance(t.elts[1], ast.Starred) and isinstance(t.elts[1].value, ast.Name) \
                and isinstance(val, ast.Call) and isinstance(val.func, ast.Attribute) and val.func.attr == 'split' and not val.keywords and len(val.args) == 2 \
                and isinstance(val.args[0], ast.Constant) and isinstance(val.args[0].value, str) and len(val.args[0].value) == 1 and ast.unparse(val.args[1]) == '1':
            p = '(split1 %d %s)' % (ord(val.args[0].value), self.s(val.func.value, env, g))
            env[names[0]], env[t.elts[1].value.id] = V('(fst %s)' % p, 'Str'), V('(snd %s)' % p, 'StrList')
            return
        if isinstance(t, ast.List) and len(t.elts) == 1:
            e = t.elts[0]
            if isinstance(e, ast.Name):
                v = self.ev(val, env, g)
                if v.ty == 'List01' and v.some:
                    env[e.id] = V('(Some %s)' % v.some, 'OptStr', some=v.some)
                    return
            if isinstance(e, ast.Tuple) and len(e.elts) == 2 and all(isinstance(x, ast.Name) for x in e.elts) and isinstance(val, ast.Call) \
                    and isinstance(val.func, ast.Attribute) and val.func.attr == 'items' and not val.args and not val.keywords:
                v = self.ev(val.func.value, env, g)
                if v.ty == 'HDict':
                    env[e.elts[0].id], env[e.elts[1].id] = V(v.x[0], 'Str'), V(v.x[1], 'Str')
                    return
        if isinstance(t, ast.Subscript) and isinstance(t.value, ast.Name) and isinstance(env.get(t.value.id), Acc) and env[t.value.id].kind == 'Dict':
            env[t.value.id].segs.append(('[(%s, %s)]' % (self.s(t.slice, env, g), self.s(val, env, g)), False))
            return
        if ast.unparse(t) == 'ctx.metadata' and isinstance(val, ast.Name) and isinstance(env.get(val.id), Acc) and env[val.id].kind == 'MM':
            env['$metadata'] = V(env[val.id].read(), 'MMro')
            return
        bad(s, 'assignment')

    def try_(self, s, env, g):
        if len(s.handlers) != 1 or s.handlers[0].name is not None or s.finalbody:
            bad(s, 'try')
        h, b = s.handlers[0], s.body
        if ast.unparse(h.type) == 'ValueError' and not s.orelse and len(b) == 1 and len(h.body) == 1 and isinstance(b[0], ast.Assign) and len(b[0].targets) == 1 \
                and isinstance(b[0].targets[0], ast.Name) and ast.unparse(h.body[0]) == "%s = ''" % b[0].targets[0].id:
            v = b[0].value
            if isinstance(v, ast.Attribute) and v.attr == 'scheme' and isinstance(v.value, ast.Call) and ast.unparse(v.value.func) == 'urllib.parse.urlparse' \
                    and len(v.value.args) == 1 and not v.value.keywords:
                env[b[0].targets[0].id] = V('(o_urlscheme O %s)' % self.s(v.value.args[0], env, g), 'SchemeOrEmpty')
                return
        if ast.unparse(h.type) == 'encinfo.EncodingLookupError' and isinstance(b[0], ast.Assign) and 'charset_step' in self.pnames \
                and ast.unparse(b[0].value).startswith('encinfo.is_ascii_compatible_encoding('):
            nodes = [n for n in ast.walk(s)]
            if any(isinstance(n, EXITS + (ast.Yield, ast.YieldFrom, ast.Global, ast.Nonlocal, ast.FunctionDef, ast.Lambda, ast.Delete)) for n in nodes):
                bad(s, 'the untranslated charset part contains an exit')
            stored = {n.id for n in nodes if isinstance(n, ast.Name) and not isinstance(n.ctx, ast.Load)} - SCRATCH
            loaded = {n.id for n in nodes if isinstance(n, ast.Name) and isinstance(n.ctx, ast.Load) and isinstance(env.get(n.id), V)} - stored - SCRATCH
            if len(stored) != 1 or len(loaded) != 1 or any(isinstance(n, (ast.Attribute, ast.Subscript)) and not isinstance(n.ctx, ast.Load)
                                                                and not (isinstance(n.value, ast.Name) and n.value.id in SCRATCH) for n in nodes):
                bad(s, 'the untranslated charset part must assign one live variable and read one other')
            [e], [c] = stored, loaded
            r = '(charset_step %s %s)' % (self.s(ast.Name(c, ast.Load()), env, g), self.s(ast.Name(e, ast.Load()), env, g))
            self.out(env, '(fst %s)' % r)
            env[e] = V('(snd %s)' % r, 'OptStr')
            return
        bad(s, 'try')

    def loop(self, s, env, g):
        it = self.ev(s.iter, env, g)
        names = [n.id for n in (s.target.elts if isinstance(s.target, ast.Tuple) else [s.target]) if isinstance(n, ast.Name)]
        stores = {n.id for b in s.body for n in ast.walk(b) if isinstance(n, ast.Name) and isinstance(n.ctx, ast.Store)}
        state = sorted(k for k in stores if isinstance(env.get(k), V) and k not in names)
        if any(isinstance(n, ast.Break) for b in s.body for n in ast.walk(b)) or state:
            return self.fix_loop(s, it, names, state, env, g)
        x = self.fresh()
        if it.ty in ('StrList', 'NEList'):
            binds = [V(x, 'Str')]
        elif it.ty == 'HLines':
            binds = [V(x, 'HLine')]
        elif it.ty == 'Pairs':
            binds = [V('(fst %s)' % x, it.x[0]), V('(snd %s)' % x, it.x[1])]
        else:
            bad(s, 'iteration over %s (unordered or unknown)' % it.ty)
        if len(names) != len(binds) or len(set(names)) != len(names) or not isinstance(s.target, (ast.Name, ast.Tuple)):
            bad(s, 'loop target')
        be = {k: (Acc(v.kind, (), v) if isinstance(v, Acc) else v) for k, v in env.items()}
        be.update(zip(names, binds))
        self.where.append('map')
        self.block(s.body, be, g)
        self.where.pop()
        for k, v in env.items():
            if isinstance(v, Acc) and be[k].segs:
                m = be[k].is_m()
                v.segs.append(('(%s (fun %s => %s) %s)' % ('ocoll' if m else 'flat_map', x, be[k].render(m), it.text), m))

    def fix_loop(self, s, it, names, state, env, g):
        elem = {'Entries': ('entry', 'Entry'), 'StrList': ('str', 'Str')}.get(it.ty)
        if not elem or len(names) != 1 or not isinstance(s.target, ast.Name) or self.fix or self.where[-1] != 'func':
            bad(s, 'a loop with state that is nested or over something else than a list of entries / strings')
        if any(env[k].ty != 'Bool' for k in state):
            bad(s, 'loop state of a type other than bool')
        body = ast.unparse(ast.Module(s.body, []))
        accs = sorted(k for k, v in env.items() if isinstance(v, Acc) and ('self.tag(' in body if k == '$out' else re.search(r'\b%s(\[[^\]]*\])? \+?= ' % re.escape(k), body)))
        st = state + accs
        pn = {k: 'st_' + k.strip('$') for k in st}
        be = dict(env, **{'$brk': V('false', 'Bool'), names[0]: V('x', elem[1])})
        frozen = {k: len(v.segs) for k, v in env.items() if isinstance(v, Acc)}
        for k in st:
            be[k] = Acc(env[k].kind, [(pn[k], False)]) if isinstance(env[k], Acc) else V(pn[k], 'Bool')
        self.where.append('fix')
        self.fix = (names[0], ast.unparse(s.iter))
        self.block(s.body, be, g)
        self.fix = None
        self.where.pop()
        if any(isinstance(v, Acc) and k not in st and len(be[k].segs) != frozen[k] for k, v in env.items()):
            bad(s, 'the loop appends to a list that is not part of its state')
        self.nfix += 1
        fname = '%s_loop%d' % (self.name, self.nfix)
        text = lambda e, k: e[k].render(False) if isinstance(e[k], Acc) else e[k].text
        tys = [KINDS[env[k].kind] if isinstance(env[k], Acc) else 'bool' for k in st]
        brk = '' if be['$brk'].text == 'false' else 'if %s\n    then (%s)\n    else ' % (be['$brk'].text, ',\n          '.join(text(be, k) for k in st))
        self.aux.append("Fixpoint %s %s %s (first : bool) (l : list %s) {struct l} : %s :=\n  match l with\n  | [] => (%s)\n  | x :: l' =>\n"
                        "    %s%s %s\n      %s\n      false l'\n  end.\n\n" % (
                            fname, self.params, ' '.join('(%s : %s)' % (pn[k], ty) for k, ty in zip(st, tys)), elem[0], ' * '.join(tys),
                            ', '.join(pn[k] for k in st), brk, fname, ' '.join(self.pnames), '\n      '.join(text(be, k) for k in st)))
        call = '(%s %s %s true %s)' % (fname, ' '.join(self.pnames), ' '.join(text(env, k) for k in st), it.text)
        for i, k in enumerate(st):      # component i of the left-nested tuple
            p = '(fst ' * (len(st) - 1 - i) + call + ')' * (len(st) - 1 - i)
            p = '(snd %s)' % p if i else p
            env[k] = Acc(env[k].kind, [(p, False)]) if isinstance(env[k], Acc) else V(p, 'Bool')

    def tag(self, call, env, g):
        a = call.args
        if call.keywords or not a or not isinstance(a[0], ast.Constant) or a[0].value not in TAGS:
            bad(call, 'tag name')
        for pattern, ctor in TAGS[a[0].value]:
            if len(pattern) != len(a) - 1:
                continue
            data = []
            for p, x in zip(pattern, a[1:]):
                if p.startswith('='):
                    if ast.unparse(x) != p[1:]:
                        break
                elif p == 'Str':
                    data.append(self.s(x, env, g))
                else:
                    v = self.ev(x, env, g)
                    if v.ty != p:
                        break
                    if v.text is not None:
                        data.append(v.text)
            else:
                return self.out(env, '[%s]' % ctor.format(*data))
        bad(call, 'arguments of the tag')


SPECS = [
    dict(name='src_parse_header', file='lib/gettext.py', cls=None, func='parse_header', args='s', out='Lines',
         params='(s : str)', rtype='outcome (list hline) unit', env={'s': V('s', 'Str')}),
    dict(name='src_check_comments', func='check_comments', params='(O : oracles) (template : bool) (comment : str)', rtype='list diag'),
    dict(name='src_check_headers', func='check_headers', rtype='list (str * str) * list diag',
         params='(O : oracles) (known dedicated : list str) (template : bool) (parse : str -> list hline) (es : list entry)'),
    dict(name='src_check_mime', func='check_mime', rtype='list diag',
         params='(O : oracles) (template : bool) (charset_step : str -> str -> list diag * option str) (fs : list (str * str))'),
    dict(name='src_check_project', func='check_project', params='(O : oracles) (eos so : list str) (fs : list (str * str))', rtype='outcome (list diag) unit'),
    dict(name='src_check_translator', func='check_translator', params='(O : oracles) (eos so : list str) (template : bool) (fs : list (str * str))',
         rtype='outcome (list diag) unit'),
]


def translate(spec):
    tree = ast.parse(open(os.path.join(REPO, spec.get('file', CHK)), encoding='utf-8').read())
    scope = tree.body if spec.get('cls', 'Checker') is None else [f for c in tree.body if isinstance(c, ast.ClassDef) and c.name == 'Checker' for f in c.body]
    found = [f for f in scope if isinstance(f, ast.FunctionDef) and f.name == spec['func']]
    if len(found) != 1 or ast.unparse(found[0].args) != spec.get('args', 'self, ctx'):
        raise Unsupported('expected exactly one %s(%s)' % (spec['func'], spec.get('args', 'self, ctx')))
    for d in found[0].decorator_list:   # @checks_header_fields('A', 'B') returns the function unchanged (it feeds the generated table `dedicated`)
        if not (isinstance(d, ast.Call) and ast.unparse(d.func) == 'checks_header_fields' and not d.keywords and all(isinstance(a, ast.Constant) for a in d.args)):
            bad(d, 'decorator')
    pnames = re.findall(r'\b([A-Za-z_]+)\b(?=[^()]*:)', spec['params'])
    tr = Tr(spec['name'], pnames)
    tr.params = spec['params']
    env = dict(spec.get('env', {}), **{'$out': Acc(spec.get('out', 'Out'))})
    tr.block(found[0].body, env, [])
    m = spec['rtype'].startswith('outcome')
    res = env['$out'].render(m)
    if spec['func'] == 'check_headers':
        res = '(%s, %s)' % (env['$metadata'].text, res)
    return ''.join(tr.aux) + 'Definition %s %s : %s :=\n  %s.\n' % (spec['name'], spec['params'], spec['rtype'], res)


def main(emit):
    out = ['(* generated by tools/gen/gen_header_src.py from the python ast of lib/gettext.py and lib/check/__init__.py - do not edit *)',
           'From Coq Require Import List NArith Bool.', 'From Coq Require String.', 'From I18n Require Import Lib.Outcome Model.Header Model.HeaderPy.',
           'Import ListNotations.', 'Import String.StringSyntax.', 'Local Open Scope bool_scope.', '']
    errors = []
    for spec in SPECS:
        try:
            out.append(translate(spec))
        except (Unsupported, KeyError, ValueError, IndexError, AttributeError, TypeError, OSError, SyntaxError) as e:
            msg = '%s: %s: %s' % (spec['name'], type(e).__name__, e)
            errors.append(msg)
            out.append('(* NOT TRANSLATABLE - %s *)\nDefinition %s : unit := tt.\n' % (msg.replace('*)', '* )').replace('(*', '( *').replace('"', "'"), spec['name']))
    emit('HeaderSrc.v', '\n'.join(out))
    if errors:
        raise SystemExit('gen_header_src: the source left the supported subset (tie broken):\n  ' + '\n  '.join(errors))


if __name__ == '__main__':
    import gen_tables
    main(gen_tables.emit)

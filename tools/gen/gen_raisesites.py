"""Translator for C01 (static half): where /repo's code raises, and which `except` clause catches it on the way
from the checker.  python ast of /repo/lib/**/*.py  ->  coq/Generated/RaiseSites.v  (+ RaiseSites.json for messages)

  1. exception classes: every class of lib/ deriving from BaseException, with its bases; builtin classes with the MRO of
     the running interpreter; the few external classes the code names (EXTERNAL_CLASSES).
  2. may-raise summary of every function of the SUMMARISED modules (LIB_FILES), a fixpoint of
        explicit `raise` statements + the implicit raisers listed in IMPLICIT / DIVISION_FILES / EXTERNAL_ENTRY
        + the summaries of the lib functions it calls or mentions (a function passed as a value counts as called)
        - whatever an enclosing try/except of the same function catches.
     Methods are analysed once per concrete class of `self`, so that self.m(), super().m() and
     getattr(self, 'prefix' + ...) resolve through that class's MRO.  A call on a receiver of unknown type takes the
     union over every lib class that has a method of that name; calling an object of unknown type takes every __call__.
  3. rows: for every call / function mention / raise in the CHECKER files (CHECK_FILES) and every class that may come out
     of it, the innermost enclosing `except` of the same function naming the class or a base (Caught), or, failing that,
     whether every call of that checker function inside the checker is so enclosed (CaughtByCaller), or the reviewed
     whitelist (Reviewed), or Uncaught.  Module-level code of lib modules gives ImportTime rows.

Fail-closed: an unknown syntactic shape or a missing anchor stop the translation, and the table then consists of one
Uncaught row with the message (see main); a dead-raise entry whose function changed its number of such raise sites is
revoked; a raise whose class cannot be determined is Unclassified and caught by nothing;
a new file under lib/ is summarised (or, under lib/check/, scanned for rows) like the others;
anything else that finds no handler is Uncaught.  The Coq theorem C01_every_own_error_is_caught rejects both.
This file is part of the trusted base; notes/C01.md says what the table does NOT establish."""
import ast
import builtins
import json
import os

REPO = os.environ.get('VERIF_REPO') or '/repo'

# ------------------------------------------------------------------------------------------------ reviewed tables
# CHECKER files: their calls into the other modules are the rows of the table.  Every other file under lib/ is SUMMARISED
# (its functions get a may-raise summary); a new file is therefore summarised unless it lies under lib/check/, which is the
# conservative side: what it raises travels to its callers.
def is_checker_file(rel):
    return rel == 'lib/cli.py' or (rel.startswith('lib/check/') and rel != 'lib/check/msgrepr.py')


LIB_FILES, CHECK_FILES = [], []      # filled by load()
# files that must exist (the tables below speak about them)
EXPECTED_FILES = ['lib/cli.py', 'lib/check/__init__.py', 'lib/check/msgformat/__init__.py', 'lib/intexpr.py', 'lib/gettext.py', 'lib/ling.py',
                  'lib/moparser.py', 'lib/polib4us.py', 'lib/xml.py', 'lib/encodings.py', 'lib/iconv.py', 'lib/misc.py', 'lib/tags.py']

# classes defined outside lib/ that the code names through a module-level alias; value = base class (a builtin)
EXTERNAL_CLASSES = {
    'rply.errors.LexingError': 'Exception',        # lib/intexpr.py: LexingError = rply.errors.LexingError
    'rply.errors.ParsingError': 'Exception',       # lib/intexpr.py: ParsingError = rply.errors.ParsingError
    'xml.parsers.expat.ExpatError': 'Exception',   # lib/xml.py: SyntaxError = xml.parsers.expat.ExpatError
}

# implicit raisers: calls into code outside lib/ that the code relies on to raise.
# (file or None for any file, dotted source text of the callee or '.attr' for any receiver) -> classes
IMPLICIT = {
    (None, '.decode'): ['UnicodeDecodeError'],                 # bytes.decode(...)
    (None, '.encode'): ['UnicodeEncodeError'],                 # str.encode(...)
    (None, 'codecs.lookup'): ['LookupError'],
    (None, 'open'): ['OSError'],
    (None, 'os.stat'): ['OSError'],
    (None, 'datetime.datetime.strptime'): ['ValueError'],
    ('lib/intexpr.py', 'self._lexer.lex'): ['rply.errors.LexingError'],
    ('lib/intexpr.py', 'self._parser.parse'): ['rply.errors.LexingError', 'rply.errors.ParsingError'],   # the lexer is lazy
    ('lib/xml.py', '.Parse'): ['xml.parsers.expat.ExpatError'],
}
# entries of IMPLICIT that must be found at least once in the given file (a refactoring must not lose them silently)
IMPLICIT_ANCHORS = [('lib/intexpr.py', 'self._lexer.lex'), ('lib/intexpr.py', 'self._parser.parse'), ('lib/xml.py', '.Parse'),
                    ('lib/encodings.py', 'codecs.lookup'), ('lib/gettext.py', 'datetime.datetime.strptime'),
                    ('lib/moparser.py', '.decode'), ('lib/ling.py', '.encode'), ('lib/check/__init__.py', 'os.stat')]
# functions handed to the codec registry are not called where they are mentioned ...
REGISTRATION_CALLS = ['codecs.register', 'codecs.CodecInfo']
# ... but by bytes.decode / str.encode whenever the encoding is not a string literal (lib/encodings.py registers a search
# function whose codecs end in lib/iconv.py).  Literal names ('ASCII', 'UTF-8', ...) are codecs of the interpreter.
REGISTRY_USERS = ['.decode', '.encode']
# in these files every `//`, `%` (also `//=`, `%=`) whose divisor is not a literal may raise ZeroDivisionError
DIVISION_FILES = ['lib/intexpr.py']

# entry points of polib that call back into lib/ (through the monkey-patches of lib/polib4us.py, see ANCHOR_TEXT):
# dotted name -> (files all of whose functions may be called, further (file, function) pairs, classes raised by polib itself)
EXTERNAL_ENTRY = {
    'polib.pofile': (['lib/polib4us.py'], [], ['OSError']),     # polib raises IOError('Syntax error in po file ...')
    'polib.mofile': (['lib/polib4us.py'], [('lib/moparser.py', 'Parser.__init__'), ('lib/moparser.py', 'Parser.parse')], []),
}
ANCHOR_TEXT = [('lib/polib4us.py', 'polib._MOFileParser = moparser.Parser'), ('lib/polib4us.py', 'polib.unescape = polib_unescape'),
               ('lib/polib4us.py', 'polib.codecs = polib.io = Codecs()')]

# expressions that stand for "one of these modules" (an abstract attribute set by every concrete subclass);
# rows of functions that mention one are produced once per candidate module, handlers being resolved under the same candidate
ABSTRACT_MODULES = {'self.backend': ['lib/strformat/c.py', 'lib/strformat/python.py', 'lib/strformat/pybrace.py', 'lib/strformat/perlbrace.py']}
ABSTRACT_ANCHORS = [('lib/check/msgformat/%s.py' % m, 'from lib.strformat import %s as backend' % m, 'backend = backend')
                    for m in ('c', 'python', 'pybrace', 'perlbrace')]

# calls of a parameter / loop variable whose possible values were established by reading the code
# (file, function, name) -> rule
CALLEE_OVERRIDES = {
    ('lib/polib4us.py', 'install_patches', 'patch'): ('decorated', 'register_patch'),   # patches = what @register_patch collected
    ('lib/strformat/c.py', 'FormatString.warn', 'exc_type'): ('warn-classes',),          # first argument of every .warn(...) call of the module
    ('lib/strformat/python.py', 'FormatString.warn', 'exc_type'): ('warn-classes',),
    ('lib/moparser.py', 'Parser.__init__', 'klass'): ('external',),                      # polib.MOFile or what polib passes (a MOFile subclass)
    ('lib/misc.py', 'check_sorted', 'exception'): ('external',),                         # constructs the exception class given (see raised_by_statement)
}

# raise sites reviewed as unreachable or as independent of the checked file: (file, function, class) -> (number of such sites in the function, why).
# They are listed in the table (Dead) and excluded from the summaries.  A different number of sites in the function revokes the
# entry: they are all live again (and reported under "revoked_dead" in RaiseSites.json).
DEAD_RAISES = {
    ('lib/intexpr.py', 'BaseEvaluator._visit', 'NotImplementedError'): (1, 'defensive: every ast node class built by create_parser has a _visit_<name> method in each evaluator (C04 model: pyeval total)'),
    ('lib/intexpr.py', 'BaseEvaluator._visit_compare', 'NotImplementedError'): (1, 'defensive: expr_cmp builds ast.Compare with exactly one operator'),
    ('lib/intexpr.py', 'PeriodEvaluator._visit_compare', 'NotImplementedError'): (1, 'defensive: expr_cmp builds ast.Compare with exactly one operator'),
    ('lib/intexpr.py', 'Expression.__init__', 'TypeError'): (1, 'defensive: the start production returns ast.Expr'),
    ('lib/intexpr.py', 'gcd', 'ZeroDivisionError'): (1, 'x % y under the loop guard `while y`'),
    ('lib/intexpr.py', 'lcm', 'ZeroDivisionError'): (1, 'r //= gcd(r, y): every period passed is >= 1 (C06 model), so gcd >= 1'),
    ('lib/intexpr.py', 'CodomainEvaluator._visit_div', 'ZeroDivisionError'): (2, 'divisors y[1] > 0 (asserted after the y == (0, 0) return) and max(y[0], 1) (C05 theorem codomain_no_assert)'),
    ('lib/ling.py', 'Language.__init__', 'TypeError'): (1, 'defensive: group 1 of _language_regexp is not optional'),
    ('lib/ling.py', 'Language.fix_codes', 'ValueError'): (1, 'defensive: lookup_territory_code returns its argument or None'),
    ('lib/ling.py', 'Language.is_almost_equal', 'TypeError'): (1, 'defensive type check; the method is not used by the checker'),
    ('lib/gettext.py', 'fix_date_format', 'ValueError'): (1, 'strptime(tz_hint, "%z"): tz_hint is None or the literal -0000 at the only call site (check_dates)'),
    ('lib/moparser.py', 'Parser.__init__', 'NotImplementedError'): (1, 'polib.mofile is called without check_for_duplicates'),
    ('lib/polib4us.py', 'Codecs.open', 'NotImplementedError'): (1, 'polib 1.x opens PO files with mode rt (rU before 1.1)'),
    ('lib/strformat/c.py', 'FormatString.add_argument', 'RuntimeError'): (1, 'defensive: _argument_map is set to None only after the last Conversion is built'),
    ('lib/strformat/python.py', 'FormatString.add_argument', 'RuntimeError'): (1, 'defensive: _argument_map is set to None only after the last Conversion is built'),
    ('lib/strformat/pybrace.py', 'FormatString.add_argument', 'RuntimeError'): (1, 'defensive: _argument_map is set to None only after the last Field is built'),
    ('lib/encodings.py', 'charmap_encoding', 'UnicodeDecodeError'): (1, 'decodes a file of data/charmaps as UTF-8: installation data (every charmap is read by the C20 translator on each run)'),
    ('lib/encodings.py', 'charmap_encoding', 'OSError'): (1, 'opens a file of data/charmaps: a missing file is handled (FileNotFoundError -> iconv fallback), any other failure is environmental'),
    ('lib/iconv.py', 'encode', 'TypeError'): (3, 'defensive type checks: the codec machinery passes (str, errors)'),
    ('lib/iconv.py', 'decode', 'TypeError'): (3, 'defensive type checks: the codec machinery passes (bytes, errors)'),
    ('lib/iconv.py', 'encode', 'NotImplementedError'): (1, 'every str.encode with a non-literal encoding in lib/ uses the default errors=strict'),
    ('lib/iconv.py', 'decode', 'NotImplementedError'): (1, 'every bytes.decode with a non-literal encoding in lib/ uses the default errors=strict'),
    ('lib/ling.py', '_munch_language_name', 'UnicodeDecodeError'): (1, 'decodes the ASCII bytes just produced by .encode("ASCII", "ignore")'),
    ('lib/misc.py', 'format_range', 'ValueError'): (1, 'defensive: the only call site (check_plurals) passes max=5'),
    ('lib/terminal.py', 'attr_fg', 'UnicodeDecodeError'): (1, 'decodes a terminfo capability string of the terminal (environment, not file content; only when stdout is a tty)'),
    ('lib/terminal.py', 'attr_reset', 'UnicodeDecodeError'): (1, 'decodes a terminfo capability string of the terminal (environment, not file content; only when stdout is a tty)'),
    ('lib/encodings.py', '_not_implemented', 'NotImplementedError'): (1, 'stream / incremental codec interfaces are never requested (str.encode / bytes.decode only)'),
}

# checker rows deliberately left uncaught: (file, function, callee, class) -> why
WHITELIST = {
    # Checker.check
    ('lib/check/__init__.py', 'Checker.check', 'raise', 'OSError'):
        're-raise of an OSError that has no errno and is not polib\'s "Syntax error in po file": neither polib 1.x nor lib/ raises such an error',
    ('lib/check/__init__.py', 'Checker.check', 'polib.pofile#retry', 'UnicodeDecodeError'):
        'second attempt with encoding=ISO-8859-1, which decodes every byte string (Codecs.open and polib_unescape use that encoding)',
    ('lib/check/__init__.py', 'Checker.check', 'polib.mofile#retry', 'UnicodeDecodeError'):
        'second attempt with encoding=ISO-8859-1, which decodes every byte string (C09_total_checker covers this path of the MO loader)',
    ('lib/check/__init__.py', 'Checker.check', 'polib.pofile', 'encodings.EncodingLookupError'):
        'raised by is_ascii_compatible_encoding only with missing_ok=False; lib/moparser.py and lib/polib4us.py call it with the default missing_ok=True (checked by the generator)',
    ('lib/check/__init__.py', 'Checker.check', 'polib.mofile', 'encodings.EncodingLookupError'):
        'raised by is_ascii_compatible_encoding only with missing_ok=False; lib/moparser.py and lib/polib4us.py call it with the default missing_ok=True (checked by the generator)',
    ('lib/check/__init__.py', 'Checker.check', 'polib.pofile#retry', 'encodings.EncodingLookupError'):
        'raised by is_ascii_compatible_encoding only with missing_ok=False; lib/moparser.py and lib/polib4us.py call it with the default missing_ok=True (checked by the generator)',
    ('lib/check/__init__.py', 'Checker.check', 'polib.mofile#retry', 'encodings.EncodingLookupError'):
        'raised by is_ascii_compatible_encoding only with missing_ok=False; lib/moparser.py and lib/polib4us.py call it with the default missing_ok=True (checked by the generator)',
    ('lib/check/__init__.py', 'Checker.__init__', 'raise', 'check.EnvironmentNotPatched'):
        'programming-error guard: cli.main calls Checker.patch_environment() before any file is checked',
    ('lib/check/__init__.py', 'Checker.__init__', 'raise', 'ValueError'):
        'programming-error guard: fake_root is None or built by cli.check_deb with os.path.join(x, ""), which ends with os.sep',
    ('lib/check/__init__.py', 'Checker.patch_environment', 'raise', 'check.EnvironmentAlreadyPatched'):
        'programming-error guard: called once, from cli.main, before any input is read',
    ('lib/check/__init__.py', 'Checker.check_plurals', 'gettext.parse_plural_forms', 'gettext.PluralFormsSyntaxError'):
        'map(gettext.parse_plural_forms, correct_plural_forms): the strings are the plural-forms of data/languages (installation data); the generator parses every one of them with the real parser on each run',
    ('lib/check/__init__.py', 'Checker.check_plurals', 'gettext.parse_plural_forms', 'gettext.PluralExpressionSyntaxError'):
        'as above (subclass of PluralFormsSyntaxError)',
    ('lib/check/__init__.py', 'Checker.check_dates', 'gettext.parse_date', 'gettext.DateSyntaxError'):
        'argument is the value fix_date_format just returned, and fix_date_format calls parse_date on it before returning (C18_check_dates_total)',
    ('lib/check/__init__.py', 'Checker.check_language', 'ling.get_language_for_name', 'ling.LanguageSyntaxError'):
        'parse_language is applied to a section name of data/languages (installation data); the generator parses every one of them on each run',
    ('lib/check/__init__.py', 'Checker.check_mime', 'Language.get_unrepresentable_characters', 'OSError'):
        'iconv_open / iconv / iconv_close failing with an errno other than EILSEQ, EINVAL, E2BIG while ENCODING a few characters: the same encoding was just opened and used for decoding by is_ascii_compatible_encoding(encoding, missing_ok=False) in this branch; what remains is environmental (ENOMEM)',
    ('lib/check/__init__.py', 'Checker.check_headers', 'encodings.get_character_name', 'ValueError'):
        'applied only to characters matched by find_unusual_characters: every C0/C1 control and DEL is named in data/control-characters, U+FFFE/U+FFFF are Cn, the others have Unicode names; the generator calls the real function on each of them on every run',
    ('lib/check/__init__.py', 'Checker.check_messages', 'encodings.get_character_name', 'ValueError'):
        'as in check_headers',
    # cli
    ('lib/cli.py', 'Checker.tag', 'raise', 'misc.DataIntegrityError'):
        'an undefined tag name is a defect of the tool, reported as such by design; C02_tags_defined proves every tag name used at a call site is defined',
    ('lib/cli.py', 'main', 'raise', 'ling.LanguageError'):
        're-raise under the hidden debugging option --traceback only; otherwise ap.error reports an invalid -l LANG (an option, not an input file)',
    ('lib/cli.py', 'main', 'paths.check', 'OSError'):
        'the installation directory is missing: environment, before any input is read',
    ('lib/cli.py', 'parse_jobs', 'raise', 'ValueError'):
        'argparse type= callback: argparse turns ValueError into a usage error for an invalid -j N (an option, not an input file)',
    ('lib/check/msgformat/c.py', 'Checker.check_args', 'FormatString.get_last_integer_conversion', 'IndexError'):
        'called with n = len(src_args) - len(dst_args) under len(dst_args) < len(src_args), so 0 < n <= len(src_fmt.arguments)',
}


# rows that are NOT caught and are genuine defects of /repo, recorded as findings: (file, function, callee, class) -> (finding id, what)
KNOWN_DEFECTS = {
    # none today.  (D26, found with this table -- UnicodeEncodeError from s.encode('UTF-8') in lib/xml.py on a lone surrogate --
    # was fixed in /repo by encoding with 'surrogatepass'; the stale entry was reported by the check below.)
}


def verify_installation_data():
    """justifications that rest on the installation's data files, re-established on every run"""
    import sys
    sys.path.insert(0, REPO)
    from lib import encodings, ling
    for code in set(ling._name_to_code.values()):   # noqa: SLF001
        ling.parse_language(code)
    for c in list(range(0x20)) + list(range(0x7F, 0xA0)) + [0xBF, 0xFEFF, 0xFFFD, 0xFFFE, 0xFFFF]:
        encodings.get_character_name(chr(c))
    for rel in ('lib/moparser.py', 'lib/polib4us.py'):
        for n in ast.walk(MODS[rel].tree):
            if isinstance(n, ast.Call) and ast.unparse(n.func).endswith('is_ascii_compatible_encoding') and (len(n.args) != 1 or n.keywords):
                raise SystemExit('gen_raisesites: is_ascii_compatible_encoding called with missing_ok in ' + rel)


def verify_plural_forms_data():
    """the justification of the parse_plural_forms whitelist entries, re-established on every run"""
    import sys
    sys.path.insert(0, REPO)
    from lib import gettext, ling
    n = 0
    for code in ling.get_primary_languages():
        for s in ling._get_plural_forms(code) or []:   # noqa: SLF001
            gettext.parse_plural_forms(s)
            n += 1
    if n < 50:
        raise SystemExit('gen_raisesites: too few plural-forms in data/languages (%d)' % n)


# ------------------------------------------------------------------------------------------------ index of the source
class Func:
    def __init__(self, mod, qual, node, cls, parent):
        self.mod, self.qual, self.node, self.cls, self.parent = mod, qual, node, cls, parent
        self.name = qual.rsplit('.', 1)[-1]
        self.nested = {}
        self.selfname = None
        if cls is not None and isinstance(node, ast.FunctionDef) and node.args.args:
            decos = {ast.unparse(d) for d in node.decorator_list}
            if 'staticmethod' not in decos:
                self.selfname = node.args.args[0].arg
        self._events = None
        self._locals = None

    def __repr__(self):
        return '%s:%s' % (self.mod.rel, self.qual)


class ClassInfo:
    def __init__(self, mod, node):
        self.mod, self.node, self.name = mod, node, node.name
        self.methods = {}
        self.key = '%s:%s' % (mod.rel, node.name)
        self.bases = []        # class keys, filled by load()

    def __repr__(self):
        return self.key


class Mod:
    def __init__(self, rel, is_lib):
        self.rel, self.is_lib = rel, is_lib
        self.src = open(os.path.join(REPO, rel), encoding='utf-8').read()
        self.tree = ast.parse(self.src)
        self.imports, self.funcs, self.classes, self.assigns, self.all_funcs = {}, {}, {}, {}, []
        self.top = Func(self, '<module>', self.tree, None, None)
        self.all_funcs.append(self.top)
        for node in ast.walk(self.tree):
            if isinstance(node, ast.Import):
                for a in node.names:
                    if a.name == 'lib' or a.name.startswith('lib.'):
                        raise SystemExit('gen_raisesites: unexpected `import %s` in %s' % (a.name, rel))
                    self.imports[a.asname or a.name.split('.')[0]] = ('ext', a.name if a.asname else a.name.split('.')[0])
            elif isinstance(node, ast.ImportFrom):
                if node.level:
                    raise SystemExit('gen_raisesites: relative import in ' + rel)
                for a in node.names:
                    self.imports[a.asname or a.name] = self._from(node.module, a.name)
        self._collect(self.tree.body, None, None, '')
        for s in own_nodes(self.tree):           # module-level assignments, also those inside if / try
            if isinstance(s, ast.Assign):
                for t in s.targets:
                    if isinstance(t, ast.Name):
                        self.assigns.setdefault(t.id, []).append(s.value)

    @staticmethod
    def _from(module, name):
        if module != 'lib' and not module.startswith('lib.'):
            return ('ext', module + '.' + name)
        base = module.replace('.', '/')
        for cand in (base + '/' + name + '.py', base + '/' + name + '/__init__.py'):
            if os.path.exists(os.path.join(REPO, cand)):
                return ('mod', cand)
        for cand in (base + '.py', base + '/__init__.py'):
            if os.path.exists(os.path.join(REPO, cand)):
                return ('obj', cand, name)
        raise SystemExit('gen_raisesites: cannot resolve from %s import %s' % (module, name))

    def _collect(self, body, cls, parent, prefix):
        for s in body:
            if isinstance(s, (ast.FunctionDef, ast.AsyncFunctionDef)):
                f = Func(self, prefix + s.name, s, cls, parent)
                self.all_funcs.append(f)
                if cls is not None:
                    cls.methods[s.name] = f
                elif parent is not None:
                    parent.nested[s.name] = f
                else:
                    self.funcs[s.name] = f
                self._collect_nested(s.body, f)
            elif isinstance(s, ast.ClassDef):
                if cls is not None or parent is not None:
                    raise SystemExit('gen_raisesites: nested class %s in %s' % (s.name, self.rel))
                c = ClassInfo(self, s)
                self.classes[s.name] = c
                self._collect(s.body, c, None, s.name + '.')
            elif cls is not None and isinstance(s, ast.Assign) and isinstance(s.value, ast.Name) and s.value.id in cls.methods:
                for t in s.targets:                       # _visit_constant = _visit_num
                    if isinstance(t, ast.Name):
                        cls.methods[t.id] = cls.methods[s.value.id]

    def _collect_nested(self, body, parent):
        """function definitions anywhere below a function body (inside if / try / with / for ...)"""
        for s in body:
            if isinstance(s, (ast.FunctionDef, ast.AsyncFunctionDef)):
                self._collect([s], None, parent, parent.qual + '.<locals>.')
            elif isinstance(s, ast.ClassDef):
                raise SystemExit('gen_raisesites: class %s inside a function in %s' % (s.name, self.rel))
            else:
                for field in ('body', 'orelse', 'finalbody', 'handlers'):
                    sub = getattr(s, field, None)
                    if isinstance(sub, list):
                        self._collect_nested([x for x in sub if isinstance(x, ast.stmt)], parent)
                        for h in sub:
                            if isinstance(h, ast.ExceptHandler):
                                self._collect_nested(h.body, parent)


MODS = {}
CLASSES = {}      # key -> ClassInfo


def load():
    found = set()
    for root, _, files in os.walk(os.path.join(REPO, 'lib')):
        for f in files:
            if f.endswith('.py'):
                found.add(os.path.relpath(os.path.join(root, f), REPO))
    if set(EXPECTED_FILES) - found:
        raise SystemExit('gen_raisesites: expected files are missing: %s' % sorted(set(EXPECTED_FILES) - found))
    LIB_FILES[:] = sorted(f for f in found if not is_checker_file(f))
    CHECK_FILES[:] = sorted(f for f in found if is_checker_file(f))
    for rel in LIB_FILES:
        MODS[rel] = Mod(rel, True)
    for rel in CHECK_FILES:
        MODS[rel] = Mod(rel, False)
    for m in MODS.values():
        for c in m.classes.values():
            CLASSES[c.key] = c
    for c in CLASSES.values():
        for b in c.node.bases:
            k = class_of_expr(b, Scope(c.mod.top, None, {}))
            if k is not None:
                c.bases.append(k)
    for rel, text in ANCHOR_TEXT:
        if text not in MODS[rel].src:
            raise SystemExit('gen_raisesites: anchor %r not found in %s' % (text, rel))
    for rel, a, b in ABSTRACT_ANCHORS:
        if a not in MODS[rel].src or b not in MODS[rel].src:
            raise SystemExit('gen_raisesites: abstract-module anchor not found in ' + rel)


# ------------------------------------------------------------------------------------------------ exception classes
def ancestors(key):
    """the class itself and all its bases, as keys ('lib/x.py:Name', 'builtins:Name', 'ext:dotted')"""
    out, todo = [], [key]
    while todo:
        k = todo.pop(0)
        if k in out:
            continue
        out.append(k)
        if k.startswith('builtins:'):
            obj = getattr(builtins, k[9:])
            todo += ['builtins:' + b.__name__ for b in obj.__mro__[1:] if b is not object]
        elif k.startswith('ext:'):
            todo.append('builtins:' + EXTERNAL_CLASSES[k[4:]])
        elif k in CLASSES:
            todo += CLASSES[k].bases
    return out


def is_exception(key):
    return key is not None and 'builtins:BaseException' in ancestors(key)


def show(key):
    if key.startswith(('builtins:', 'ext:', 'unknown:')):
        return key.split(':', 1)[1] if not key.startswith('unknown:') else '?' + key[8:]
    rel, name = key.split(':')
    return rel[4:-3].replace('/__init__', '').replace('/', '.') + '.' + name


def builtin_key(name):
    obj = getattr(builtins, name, None)
    return 'builtins:' + name if isinstance(obj, type) else None


def ext_key(dotted):
    if dotted in EXTERNAL_CLASSES:
        return 'ext:' + dotted
    if dotted.startswith('builtins.'):
        return builtin_key(dotted[9:])
    return None


# ------------------------------------------------------------------------------------------------ scopes and name resolution
class Scope:
    """where an expression is evaluated: the function, the concrete class of `self` (or None), the choice of abstract modules"""
    def __init__(self, func, selfclass, world):
        self.func, self.selfclass, self.world = func, selfclass, world
        self.mod = func.mod


def mro(cls):
    out, todo = [], [cls]
    while todo:
        c = todo.pop(0)
        if c in out:
            continue
        out.append(c)
        todo = [CLASSES[b] for b in c.bases if b in CLASSES] + todo
    return out


def lookup_method(cls, name, after=None):
    seq = mro(cls)
    if after is not None:
        seq = seq[seq.index(after) + 1:] if after in seq else []
    for c in seq:
        if name in c.methods:
            return c.methods[name]
    return None


def local_info(func):
    """(parameters and otherwise-bound names, {name: [assigned values]}) of the function's own body
    (imports inside functions are in Mod.imports)"""
    if func._locals is None:
        bound, assigns = set(), {}
        node = func.node
        if isinstance(node, (ast.FunctionDef, ast.AsyncFunctionDef)):
            a = node.args
            for x in a.posonlyargs + a.args + a.kwonlyargs + [a.vararg, a.kwarg]:
                if x is not None:
                    bound.add(x.arg)
            for n in own_nodes(node):
                if isinstance(n, ast.Assign):
                    for t in n.targets:
                        if isinstance(t, ast.Name):
                            assigns.setdefault(t.id, []).append(n.value)
                        else:
                            bound.update(x.id for x in ast.walk(t) if isinstance(x, ast.Name) and isinstance(x.ctx, ast.Store))
                elif isinstance(n, (ast.For, ast.comprehension, ast.AugAssign, ast.AnnAssign, ast.NamedExpr)):
                    bound.update(x.id for x in ast.walk(n.target) if isinstance(x, ast.Name) and isinstance(x.ctx, ast.Store))
                elif isinstance(n, ast.withitem) and n.optional_vars is not None:
                    bound.update(x.id for x in ast.walk(n.optional_vars) if isinstance(x, ast.Name))
                elif isinstance(n, ast.ExceptHandler) and n.name:
                    bound.add(n.name)
        func._locals = (bound, assigns)
    return func._locals


def own_nodes(funcnode):
    """all nodes of a function (or module) body except nested function definitions and class bodies"""
    todo = list(funcnode.body)
    while todo:
        n = todo.pop()
        yield n
        for ch in ast.iter_child_nodes(n):
            if isinstance(ch, (ast.FunctionDef, ast.AsyncFunctionDef, ast.ClassDef)):
                continue
            todo.append(ch)


def module_of_expr(e, scope):
    """the lib module ('mod', rel) or external module ('ext', dotted) an expression denotes, or None"""
    src = ast.unparse(e)
    if src in scope.world:
        return ('mod', scope.world[src])
    if isinstance(e, ast.Name):
        f = scope.func
        while f is not None and f.qual != '<module>':
            bound, assigns = local_info(f)
            if e.id in bound or e.id in assigns or e.id in f.nested:
                return None
            f = f.parent
        imp = scope.mod.imports.get(e.id)
        if imp is not None and imp[0] in ('mod', 'ext') and e.id not in scope.mod.classes and e.id not in scope.mod.funcs:
            return imp
        return None
    if isinstance(e, ast.Attribute):
        base = module_of_expr(e.value, scope)
        if base is None:
            return None
        if base[0] == 'ext':
            return ('ext', base[1] + '.' + e.attr)
        m = MODS[base[1]]
        imp = m.imports.get(e.attr)
        if imp is not None and imp[0] in ('mod', 'ext') and e.attr not in m.classes and e.attr not in m.funcs and e.attr not in m.assigns:
            return imp
    return None


def class_of_expr(e, scope):
    """class key denoted by an expression (`X`, `mod.X`, `pkg.mod.X`), or None"""
    if isinstance(e, ast.Name):
        return class_of_name(e.id, scope.mod, set())
    if isinstance(e, ast.Attribute):
        base = module_of_expr(e.value, scope)
        if base is None:
            return None
        if base[0] == 'ext':
            return ext_key(base[1] + '.' + e.attr)
        return class_of_name(e.attr, MODS[base[1]], set(), use_builtins=False)
    return None


def class_of_name(name, mod, seen, use_builtins=True):
    if (mod.rel, name) in seen:
        return None
    seen.add((mod.rel, name))
    if name in mod.classes:
        return mod.classes[name].key
    if name in mod.assigns and len(mod.assigns[name]) == 1:       # LexingError = rply.errors.LexingError
        return class_of_expr(mod.assigns[name][0], Scope(mod.top, None, {}))
    imp = mod.imports.get(name)
    if imp is not None:
        if imp[0] == 'obj':
            return class_of_name(imp[2], MODS[imp[1]], seen, use_builtins=False)
        if imp[0] == 'ext':
            return ext_key(imp[1])
        return None
    return builtin_key(name) if use_builtins else None


# ---- what a call may invoke.  A target is ('func', Func, selfclass[, label]) or ('raises', [class keys], label)
def all_with_method(name, mod=None):
    """a receiver of unknown type: every lib class that has the method -- of the calling module if it defines such a class
    (objects of the strformat modules, say, do not travel between those modules), otherwise of all modules"""
    out = []
    for c in CLASSES.values():
        if c.mod.is_lib:
            f = lookup_method(c, name)
            if f is not None and f.mod.is_lib:
                out.append(('func', f, c))
    same = [t for t in out if mod is not None and t[2].mod is mod]
    return same or out


def constructor(cls):
    f = lookup_method(cls, '__init__')
    return [('func', f, cls)] if f is not None else []


def warn_classes(mod):
    """constructors of the classes passed as first argument to .warn(...) in the module"""
    out = []
    for n in ast.walk(mod.tree):
        if isinstance(n, ast.Call) and isinstance(n.func, ast.Attribute) and n.func.attr == 'warn' and n.args:
            k = class_of_expr(n.args[0], Scope(mod.top, None, {}))
            if k is None or not is_exception(k):
                raise SystemExit('gen_raisesites: .warn() with an unexpected first argument at %s:%d' % (mod.rel, n.lineno))
            out.append(k)
    return sorted(set(out))


def lenient_codec_call(call):
    """x.encode(enc, 'ignore') / x.decode(enc, errors='replace'): an error handler other than strict never raises Unicode*Error"""
    err = call.args[1] if len(call.args) > 1 else next((k.value for k in call.keywords if k.arg == 'errors'), None)
    return isinstance(err, ast.Constant) and isinstance(err.value, str) and err.value != 'strict'


def implicit(rel, func_expr, call=None):
    src = ast.unparse(func_expr)
    keys = [(rel, src), (None, src)]
    if isinstance(func_expr, ast.Attribute):
        keys += [(rel, '.' + func_expr.attr), (None, '.' + func_expr.attr)]
    for k in keys:
        if k in IMPLICIT:
            SEEN_IMPLICIT.add((rel, k[1]))
            if k[1] in REGISTRY_USERS and call is not None and lenient_codec_call(call):
                return []
            return [('raises', [builtin_key(c) or ext_key(c) for c in IMPLICIT[k]], src)]
    return None


SEEN_IMPLICIT = set()


def targets_of_name(name, scope):
    """what calling the plain name may invoke"""
    f = scope.func
    while f is not None and f.qual != '<module>':
        if name in f.nested:
            return [('func', f.nested[name], scope.selfclass)]
        ov = CALLEE_OVERRIDES.get((f.mod.rel, f.qual, name))
        if ov is not None:
            USED_OVERRIDES.add((f.mod.rel, f.qual, name))
            if ov[0] == 'decorated':
                return [('func', g, None) for g in f.mod.all_funcs
                        if isinstance(g.node, ast.FunctionDef) and ov[1] in {ast.unparse(d) for d in g.node.decorator_list}]
            if ov[0] == 'warn-classes':
                return [t for k in warn_classes(f.mod) if k in CLASSES for t in constructor(CLASSES[k])]
            if ov[0] == 'external':
                return []
        bound, assigns = local_info(f)
        if name in bound:
            return all_with_method('__call__')                 # an object of unknown type
        if name in assigns:
            out = []
            for v in assigns[name]:
                out += targets_of_value(v, Scope(f, scope.selfclass, scope.world))
            return out
        f = f.parent
    return targets_of_module_name(name, scope.mod, set())


def targets_of_module_name(name, mod, seen, use_builtins=True):
    if (mod.rel, name) in seen:
        return []
    seen.add((mod.rel, name))
    if name in mod.funcs:
        return [('func', mod.funcs[name], None)]
    if name in mod.classes:
        return constructor(mod.classes[name])
    if name in mod.assigns:
        out = []
        for v in mod.assigns[name]:
            out += targets_of_value(v, Scope(mod.top, None, {}))
        return out
    imp = mod.imports.get(name)
    if imp is not None:
        if imp[0] == 'obj':
            return targets_of_module_name(imp[2], MODS[imp[1]], seen, use_builtins=False)
        return []                                              # an external object, or a module
    if use_builtins and hasattr(builtins, name):
        return []
    if not use_builtins:
        raise SystemExit('gen_raisesites: %s has no attribute %s' % (mod.rel, name))
    return all_with_method('__call__')                         # unknown global: fail closed


def targets_of_value(v, scope):
    """what calling the VALUE of expression v may invoke (v was assigned to a name that is then called)"""
    if isinstance(v, (ast.Name, ast.Attribute)):
        return targets_of_callee(v, scope)
    if isinstance(v, ast.IfExp):
        return targets_of_value(v.body, scope) + targets_of_value(v.orelse, scope)
    if isinstance(v, ast.Call):
        pd = prefix_dispatch(v, scope)
        if pd is not None:
            return pd
        cls = instance_class(v, scope)
        if cls == 'external':
            return []
        if cls is not None:
            f = lookup_method(cls, '__call__')
            return [('func', f, cls)] if f is not None else []
    if isinstance(v, ast.Constant):
        return []
    return all_with_method('__call__')


def instance_class(call, scope):
    """ClassInfo when the call expression constructs an instance of a lib class; 'external' when it calls something
    outside lib/ (its result is not a lib object ... as far as the translator can know); None otherwise"""
    f = call.func
    if isinstance(f, ast.Name):
        k = class_of_expr(f, scope)
        shadow = scope.func
        while shadow is not None and shadow.qual != '<module>':
            bound, assigns = local_info(shadow)
            if f.id in bound or f.id in assigns or f.id in shadow.nested:
                return None
            shadow = shadow.parent
        if k in CLASSES:
            return CLASSES[k]
        if k is None and f.id not in scope.mod.funcs and f.id not in scope.mod.assigns and f.id not in scope.mod.imports and hasattr(builtins, f.id):
            return 'external'
        return None
    if isinstance(f, ast.Attribute):
        base = module_of_expr(f.value, scope)
        if base is not None and base[0] == 'ext':
            return 'external'
        if base is not None:
            k = class_of_name(f.attr, MODS[base[1]], set(), use_builtins=False)
            if k in CLASSES:
                return CLASSES[k]
    return None


def prefix_dispatch(call, scope):
    """getattr(self, 'prefix' + ...): every method of self's class (through its MRO) whose name starts with the prefix"""
    if not (isinstance(call.func, ast.Name) and call.func.id == 'getattr' and len(call.args) >= 2):
        return None
    obj, name = call.args[0], call.args[1]
    if not (isinstance(name, ast.BinOp) and isinstance(name.op, ast.Add) and isinstance(name.left, ast.Constant) and isinstance(name.left.value, str)):
        return None
    prefix = name.left.value
    selfname = enclosing_selfname(scope.func)
    if isinstance(obj, ast.Name) and obj.id == selfname and scope.selfclass is not None:
        classes = [scope.selfclass]
    else:
        classes = [c for c in CLASSES.values() if c.mod.is_lib]
    out = []
    for cls in classes:
        names = {n for c in mro(cls) for n in c.methods if n.startswith(prefix)}
        out += [('func', lookup_method(cls, n), cls) for n in sorted(names)]
    return out


def enclosing_selfname(func):
    while func is not None:
        if func.selfname:
            return func.selfname
        func = func.parent
    return None


def defining_class(func):
    while func is not None:
        if func.cls is not None:
            return func.cls
        func = func.parent
    return None


def targets_of_callee(e, scope, call=None):
    """what the call  e(...)  may invoke (call = the ast.Call when e is its callee)"""
    rel = scope.mod.rel
    if isinstance(e, ast.Name):
        imp = implicit(rel, e)
        # `open` etc. only when the name is not rebound in lib code
        if imp is not None and e.id not in scope.mod.funcs and e.id not in scope.mod.classes and not is_local(e.id, scope):
            return imp
        return targets_of_name(e.id, scope)
    if isinstance(e, ast.Attribute):
        base = module_of_expr(e.value, scope)
        if base is not None and base[0] == 'ext':
            dotted = base[1] + '.' + e.attr
            if dotted in EXTERNAL_ENTRY:
                files, pairs, raised = EXTERNAL_ENTRY[dotted]
                out = [('func', f, f.cls, dotted) for r in files for f in MODS[r].all_funcs if f.qual != '<module>']
                for r, q in pairs:
                    fs = [f for f in MODS[r].all_funcs if f.qual == q]
                    if not fs:
                        raise SystemExit('gen_raisesites: EXTERNAL_ENTRY names a missing function %s:%s' % (r, q))
                    out.append(('func', fs[0], fs[0].cls, dotted))
                if raised:
                    out.append(('raises', [builtin_key(c) or ext_key(c) for c in raised], dotted))
                return out
            imp = implicit(rel, ast.parse(dotted, mode='eval').body) or implicit(rel, e)
            return imp or []
        if base is not None:
            return targets_of_module_name(e.attr, MODS[base[1]], set(), use_builtins=False)
        imp = implicit(rel, e, call)
        if imp is not None:
            return imp
        selfname = enclosing_selfname(scope.func)
        v = e.value
        if isinstance(v, ast.Name) and v.id == selfname and selfname is not None and scope.selfclass is not None:
            f = lookup_method(scope.selfclass, e.attr)
            if f is not None:
                return [('func', f, scope.selfclass)]
            # not a method: an instance attribute, or inherited from a class outside lib/: unknown receiver below
        if isinstance(v, ast.Call) and isinstance(v.func, ast.Name) and v.func.id == 'super' and not v.args and scope.selfclass is not None:
            f = lookup_method(scope.selfclass, e.attr, after=defining_class(scope.func))
            return [('func', f, scope.selfclass)] if f is not None else []
        if isinstance(v, ast.Name) and class_of_expr(v, scope) is not None and not is_local(v.id, scope):
            k = class_of_expr(v, scope)                        # LookupError.__init__(self, ...), str.join(...)
            if k in CLASSES:
                f = lookup_method(CLASSES[k], e.attr)
                return [('func', f, CLASSES[k])] if f is not None else []
            return []
        if isinstance(v, ast.Name):                            # a local holding an instance built in this function
            f = scope.func
            while f is not None and f.qual != '<module>':
                bound, assigns = local_info(f)
                if v.id in bound or v.id in f.nested:
                    break
                if v.id in assigns:
                    kinds = [instance_class(x, Scope(f, scope.selfclass, scope.world)) if isinstance(x, ast.Call) else None for x in assigns[v.id]]
                    if all(k == 'external' for k in kinds):
                        return []
                    if all(isinstance(k, ClassInfo) for k in kinds):
                        out = []
                        for k in kinds:
                            m = lookup_method(k, e.attr)
                            if m is not None:
                                out.append(('func', m, k))
                        return out
                    break
                f = f.parent
        return all_with_method(e.attr, scope.mod)              # receiver of unknown type
    if isinstance(e, ast.Call):
        pd = prefix_dispatch(e, scope)
        if pd is not None:
            return pd
    if isinstance(e, ast.IfExp):
        return targets_of_callee(e.body, scope) + targets_of_callee(e.orelse, scope)
    return all_with_method('__call__')


def is_local(name, scope):
    f = scope.func
    while f is not None and f.qual != '<module>':
        bound, assigns = local_info(f)
        if name in bound or name in assigns or name in f.nested:
            return True
        f = f.parent
    return False


def targets_of_mention(e, scope):
    """a function passed / stored as a value (map(f, xs), re.sub(f, s), handler = f) counts as called where it is mentioned"""
    if isinstance(e, ast.Name):
        f = scope.func
        while f is not None and f.qual != '<module>':
            if e.id in f.nested:
                return [('func', f.nested[e.id], scope.selfclass)]
            bound, assigns = local_info(f)
            if e.id in bound or e.id in assigns:
                return []
            f = f.parent
        ts = targets_of_module_name(e.id, scope.mod, set()) if (e.id in scope.mod.funcs or scope.mod.imports.get(e.id, ('',))[0] == 'obj') else []
        return [t for t in ts if t[0] == 'func' and t[1].name != '__init__']
    if isinstance(e, ast.Attribute):
        base = module_of_expr(e.value, scope)
        if base is not None and base[0] == 'mod' and e.attr in MODS[base[1]].funcs:
            return [('func', MODS[base[1]].funcs[e.attr], None)]
        if base is not None and base[0] == 'ext' and base[1] + '.' + e.attr in EXTERNAL_ENTRY:
            return []      # constructor = polib.pofile: resolved where the local name is called
    return []


USED_OVERRIDES = set()


# ------------------------------------------------------------------------------------------------ events of a function body
def events(func):
    """[(kind, node, stack of enclosing ast.Try whose BODY contains the node, innermost last, enclosing ExceptHandler or None)]
    kind: 'call' | 'mention' | 'register' | 'install' | 'raise' | 'div' | 'assert'"""
    if func._events is not None:
        return func._events
    ev = []

    def visit(n, stack, handler, callee=False):
        if isinstance(n, (ast.FunctionDef, ast.AsyncFunctionDef)):
            for x in n.decorator_list + n.args.defaults + [d for d in n.args.kw_defaults if d is not None]:
                visit(x, stack, handler)
            return
        if isinstance(n, ast.ClassDef):
            if func.qual != '<module>':
                raise SystemExit('gen_raisesites: class inside function')
            for x in n.decorator_list + n.bases + n.body:
                visit(x, stack, handler)
            return
        if isinstance(n, ast.Lambda):
            visit(n.body, (), None)            # runs later, outside the handlers that enclose its definition
            return
        if isinstance(n, ast.Try):
            for x in n.body:
                visit(x, stack + (n,), handler)
            for h in n.handlers:
                for x in h.body:
                    visit(x, stack, h)
            for x in n.orelse + n.finalbody:
                visit(x, stack, handler)
            return
        if type(n).__name__ == 'TryStar':
            raise SystemExit('gen_raisesites: unsupported statement %s at %s:%d' % (type(n).__name__, func.mod.rel, n.lineno))
        if isinstance(n, ast.Assign) and isinstance(n.value, (ast.Name, ast.Attribute)) and all(external_attribute(t, func) for t in n.targets):
            ev.append(('install', n.value, stack, handler))     # polib.unescape = polib_unescape: not a call, see EXTERNAL_ENTRY
            return
        if isinstance(n, ast.Raise):
            ev.append(('raise', n, stack, handler))
        elif isinstance(n, ast.Assert):
            ev.append(('assert', n, stack, handler))
        elif isinstance(n, ast.Call):
            ev.append(('call', n, stack, handler))
            visit(n.func, stack, handler, callee=True)
            registration = ast.unparse(n.func) in REGISTRATION_CALLS
            for x in n.args + [k.value for k in n.keywords]:
                if registration and isinstance(x, (ast.Name, ast.Attribute)):
                    ev.append(('register', x, stack, handler))
                else:
                    visit(x, stack, handler)
            return
        elif isinstance(n, (ast.BinOp, ast.AugAssign)) and isinstance(n.op, (ast.FloorDiv, ast.Mod, ast.Div)):
            ev.append(('div', n, stack, handler))
        elif isinstance(n, (ast.Name, ast.Attribute)) and isinstance(n.ctx, ast.Load) and not callee:
            ev.append(('mention', n, stack, handler))
        for ch in ast.iter_child_nodes(n):
            visit(ch, stack, handler)

    body = func.node.body
    for s in body:
        visit(s, (), None)
    func._events = ev
    return ev


def external_attribute(t, func):
    """an assignment target  extmodule.a.b  (monkey-patching a module outside lib/)"""
    if not isinstance(t, ast.Attribute):
        return False
    while isinstance(t, ast.Attribute):
        t = t.value
    return isinstance(t, ast.Name) and func.mod.imports.get(t.id, ('',))[0] == 'ext' and not is_local(t.id, Scope(func, None, {}))


def handler_classes(h, scope):
    """class keys named by an except clause; ['*'] for a bare except; unresolvable names catch nothing"""
    if h.type is None:
        return ['*']
    exprs = h.type.elts if isinstance(h.type, ast.Tuple) else [h.type]
    out = []
    for x in exprs:
        k = class_of_expr(x, scope)
        if k is not None:
            out.append(k)
    return out


def catching_handler(cls, stack, scope):
    """the innermost except clause, among the try statements whose body encloses the node, that catches the class"""
    if cls.startswith('unknown:'):
        return None
    anc = ancestors(cls)
    for t in reversed(stack):
        for h in t.handlers:
            hs = handler_classes(h, scope)
            if '*' in hs or any(k in anc for k in hs):
                return h
    return None


def raised_by_statement(n, handler, scope):
    """class keys of a raise statement; 'unknown:<source>' when the translator cannot tell"""
    if n.exc is None:
        if handler is None:
            return ['unknown:bare raise outside except']
        hs = handler_classes(handler, scope)
        return ['builtins:BaseException' if k == '*' else k for k in hs] or ['unknown:' + ast.unparse(handler.type)]
    e = n.exc.func if isinstance(n.exc, ast.Call) else n.exc
    f = scope.func
    if isinstance(e, ast.Name) and isinstance(f.node, ast.FunctionDef) and is_local(e.id, scope):
        # raise exception(...) where `exception` is a parameter with a default that nobody overrides
        a = f.node.args
        names = [x.arg for x in a.args]
        if e.id in names and len(a.defaults) >= len(names) - names.index(e.id):
            d = a.defaults[names.index(e.id) - (len(names) - len(a.defaults))]
            k = class_of_expr(d, scope)
            overridden = any(isinstance(c, ast.Call) and any(kw.arg == e.id for kw in c.keywords) for m in MODS.values() for c in ast.walk(m.tree))
            if k is not None and is_exception(k) and not overridden:
                return [k]
        # for warn in <x>.warnings: ... raise warn    (checker side): the classes the backend passes to .warn()
        for p in own_nodes(f.node):
            if isinstance(p, ast.For) and isinstance(p.target, ast.Name) and p.target.id == e.id and \
                    isinstance(p.iter, ast.Attribute) and p.iter.attr == 'warnings' and any(x is n for x in ast.walk(p)):
                backend = module_of_expr(ast.Name('backend', ast.Load()), Scope(scope.mod.top, None, {}))
                if backend is not None and backend[0] == 'mod':
                    return warn_classes(MODS[backend[1]]) or ['unknown:no .warn() call in ' + backend[1]]
        return ['unknown:' + ast.unparse(e)]
    k = class_of_expr(e, scope)
    if k is None or not is_exception(k):
        return ['unknown:' + ast.unparse(e)]
    return [k]


# ------------------------------------------------------------------------------------------------ may-raise summaries
SUMMARY = {}       # (Func, selfclass) -> {class key: origin 'file:line'}
RAISE_SITES = {}   # (rel, line, func qual, class key) -> status
ASSERTS = set()
DEAD_COUNT = {}


def dead_key(func, cls):
    return (func.mod.rel, func.qual, show(cls).rsplit('.', 1)[-1])


def count_dead_sites():
    """number of raise sites per (file, function, class) in lib modules, to validate DEAD_RAISES"""
    for m in MODS.values():
        if not m.is_lib:
            continue
        for f in m.all_funcs:
            for kind, n, stack, handler in events(f):
                for cls in own_raises(kind, n, handler, Scope(f, f.cls, {})):
                    DEAD_COUNT[dead_key(f, cls)] = DEAD_COUNT.get(dead_key(f, cls), 0) + 1
    for k, (cnt, _) in DEAD_RAISES.items():
        if DEAD_COUNT.get(k, 0) != cnt:        # the review was about another state of the function: all its sites are live again
            REVOKED_DEAD.add(k)


def own_raises(kind, n, handler, scope):
    """classes raised by the event itself (not through a lib callee)"""
    if kind == 'raise':
        return raised_by_statement(n, handler, scope)
    if kind == 'div' and scope.mod.rel in DIVISION_FILES:
        right = n.right if isinstance(n, ast.BinOp) else n.value
        left_is_text = isinstance(n, ast.BinOp) and isinstance(n.left, (ast.Constant, ast.JoinedStr)) and not isinstance(getattr(n.left, 'value', 0), (int, float))
        if not (isinstance(right, ast.Constant) and isinstance(right.value, int) and right.value != 0) and not left_is_text:
            return ['builtins:ZeroDivisionError']
    if kind == 'call':
        out = []
        for t in targets_of_callee(n.func, scope, n):
            if t[0] == 'raises':
                out += t[1]
        return out
    return []


REVOKED_DEAD = set()


def is_dead(func, cls):
    return func.mod.is_lib and dead_key(func, cls) in DEAD_RAISES and dead_key(func, cls) not in REVOKED_DEAD


def flows(func, selfclass, world):
    """[(event kind, node, stack, handler, label of the callee, {class: origin})] for every event of the function"""
    scope = Scope(func, selfclass, world)
    out = []
    for kind, n, stack, handler in events(func):
        if kind == 'assert':
            ASSERTS.add((func.mod.rel, n.lineno, func.qual))
            continue
        if kind == 'register':
            continue
        if kind == 'install':
            ts = targets_of_mention(n, scope)
            if any(t[1].mod.rel not in fs for t in ts for (fs, _, _) in EXTERNAL_ENTRY.values()):
                raise SystemExit('gen_raisesites: %s:%d installs a function into an external module that EXTERNAL_ENTRY does not cover' % (func.mod.rel, n.lineno))
            continue
        here = '%s:%d' % (func.mod.rel, n.lineno)
        if kind in ('raise', 'div'):
            got = {}
            for cls in own_raises(kind, n, handler, scope):
                dead = is_dead(func, cls)
                if func.mod.is_lib:
                    RAISE_SITES[(func.mod.rel, n.lineno, func.qual, cls)] = ('Dead', DEAD_RAISES[dead_key(func, cls)][1]) if dead else \
                        (('Unclassified',) if cls.startswith('unknown:') else ('Live',))
                if not dead:
                    got[cls] = here
            if got:
                out.append((kind, n, stack, handler, 'raise' if kind == 'raise' else 'division', got))
            continue
        targets = targets_of_callee(n.func, scope, n) if kind == 'call' else targets_of_mention(n, scope)
        if kind == 'call' and isinstance(n.func, ast.Attribute) and '.' + n.func.attr in REGISTRY_USERS:
            enc = n.args[0] if n.args else next((k.value for k in n.keywords if k.arg == 'encoding'), None)
            if enc is not None and not (isinstance(enc, ast.Constant) and isinstance(enc.value, str)):
                other = {'decode': 'encode', 'encode': 'decode'}[n.func.attr]
                targets = targets + [('func', f, None, 'codec registry') for f in registered_codec_functions() if f.name != other]
        by_label = {}
        for t in targets:
            if t[0] == 'raises':
                got = by_label.setdefault(t[2], {})
                for cls in t[1]:
                    dead = is_dead(func, cls)
                    if func.mod.is_lib:
                        RAISE_SITES[(func.mod.rel, n.lineno, func.qual, cls)] = ('Dead', DEAD_RAISES[dead_key(func, cls)][1]) if dead else ('Live',)
                    if not dead:
                        got[cls] = here
            else:
                f, sc = t[1], t[2]
                if not f.mod.is_lib:
                    continue                       # a checker function: its own rows account for it
                label = t[3] if len(t) > 3 else f.qual if f.cls is not None or f.parent is not None else show(f.mod.rel + ':' + f.qual)
                got = by_label.setdefault(label, {})
                for cls, origin in summary(f, sc).items():
                    got.setdefault(cls, origin)
        for label, got in sorted(by_label.items()):
            if got:
                out.append((kind, n, stack, handler, label, got))
    return out


def registered_codec_functions():
    if REGISTERED[0] is None:
        fs = []
        for m in MODS.values():
            for f in m.all_funcs:
                for kind, n, stack, handler in events(f):
                    if kind == 'register':
                        ts = targets_of_mention(n, Scope(f, None, {}))
                        if ts and not m.is_lib:
                            raise SystemExit('gen_raisesites: unexpected codec registration at %s:%d' % (m.rel, n.lineno))
                        fs += [t[1] for t in ts]
        if len(fs) < 3:
            raise SystemExit('gen_raisesites: codec registrations of lib/encodings.py not found')
        REGISTERED[0] = sorted(set(fs), key=repr)
    return REGISTERED[0]


REGISTERED = [None]
IN_PROGRESS = set()
DONE = set()
CHANGED = [False]


def summary(func, selfclass):
    key = (func, selfclass)
    if key not in SUMMARY:
        SUMMARY[key] = {}
    if key in IN_PROGRESS or key in DONE:
        return SUMMARY[key]
    IN_PROGRESS.add(key)
    scope = Scope(func, selfclass, {})
    res = dict(SUMMARY[key])
    for kind, n, stack, handler, label, got in flows(func, selfclass, {}):
        for cls, origin in got.items():
            if catching_handler(cls, stack, scope) is None and cls not in res:
                res[cls] = origin
    IN_PROGRESS.discard(key)
    DONE.add(key)
    if res != SUMMARY[key]:
        SUMMARY[key] = res
        CHANGED[0] = True
    return res


def solve():
    """iterate all summaries to a fixpoint (the recursion above cuts cycles with the current approximation)"""
    for _ in range(50):
        CHANGED[0] = False
        DONE.clear()
        for key in list(SUMMARY):
            summary(*key)
        for m in MODS.values():
            if m.is_lib:
                for f in m.all_funcs:
                    if f.qual != '<module>':
                        for c in ([None] if defining_class(f) is None else [x for x in CLASSES.values() if defining_class(f) in mro(x)]):
                            summary(f, c)
        if not CHANGED[0]:
            return
    raise SystemExit('gen_raisesites: summaries did not converge')


# ------------------------------------------------------------------------------------------------ rows
def action_of(h):
    tags = any(isinstance(n, ast.Call) and isinstance(n.func, ast.Attribute) and n.func.attr == 'tag' for x in h.body for n in ast.walk(x))
    raises = any(isinstance(n, ast.Raise) for x in h.body for n in ast.walk(x))
    return 'HTagRaise' if tags and raises else 'HTag' if tags else 'HRaise' if raises else 'HIgnore'


def checker_call_sites(func):
    """[(calling Func, node, stack, handler)] for every call or mention of the checker function inside the checker files"""
    names = {func.name}
    if func.name == '__init__' and func.cls is not None:
        names = {c.name for c in CLASSES.values() if func.cls in mro(c)}
    out = []
    for m in MODS.values():
        if m.is_lib:
            continue
        for f in m.all_funcs:
            for kind, n, stack, handler in events(f):
                if kind == 'call':
                    e = n.func
                    nm = e.id if isinstance(e, ast.Name) else e.attr if isinstance(e, ast.Attribute) else None
                    if nm in names:
                        out.append((f, n, stack, handler, True))
                elif kind == 'mention':
                    nm = n.id if isinstance(n, ast.Name) else n.attr
                    if nm in names:
                        out.append((f, n, stack, handler, False))
    return out


def worlds_of(func):
    src = ast.unparse(func.node) if func.qual != '<module>' else ''
    ws = [{}]
    for expr, cands in ABSTRACT_MODULES.items():
        if expr in src:
            ws = [dict(w, **{expr: c}) for w in ws for c in cands]
    return ws


def rows():
    out = []
    for rel in LIB_FILES + CHECK_FILES:
        m = MODS[rel]
        funcs = m.all_funcs if not m.is_lib else [m.top]
        for func in funcs:
            for world in worlds_of(func):
                scope = Scope(func, func.cls or defining_class(func), world)
                wtag = ''.join(' [%s = %s]' % (k, show(v + ':')[:-1]) for k, v in sorted(world.items()))
                for kind, n, stack, handler, label, got in flows(func, scope.selfclass, world):
                    retry = '#retry' if handler is not None and label.startswith('polib.') else ''
                    for cls, origin in sorted(got.items()):
                        h = catching_handler(cls, stack, scope)
                        key = (rel, func.qual, label + retry, show(cls))
                        if h is not None:
                            disp = ('Caught', h.lineno, action_of(h))
                        elif func.qual == '<module>':
                            disp = ('ImportTime',)
                        elif key in WHITELIST:
                            USED_WHITELIST.add(key)
                            disp = ('Reviewed', WHITELIST[key])
                        elif key in KNOWN_DEFECTS:
                            USED_WHITELIST.add(key)
                            disp = ('KnownDefect',) + KNOWN_DEFECTS[key]
                        else:
                            disp = by_caller(func, cls) or ('Uncaught', 'no enclosing except clause names %s or a base of it' % show(cls))
                        out.append({'file': rel, 'line': n.lineno, 'func': func.qual + wtag, 'callee': label + retry, 'class': show(cls),
                                    'disp': disp, 'origin': origin})
    return out


USED_WHITELIST = set()


def by_caller(func, cls):
    if func.mod.is_lib:
        return None
    sites = checker_call_sites(func)
    if not sites:
        return None
    for f, n, stack, handler, is_call in sites:
        if not is_call:
            return None
        for world in worlds_of(f):
            if catching_handler(cls, stack, Scope(f, f.cls or defining_class(f), world)) is None:
                return None
    return ('CaughtByCaller', len(sites))


def implicit_methods():
    """dunder methods (other than __init__ / __call__, which are resolved at call expressions) and properties of lib classes"""
    out = []
    for c in sorted(CLASSES.values(), key=lambda c: c.key):
        if not c.mod.is_lib:
            continue
        for name, f in sorted(c.methods.items()):
            deco = {ast.unparse(d) for d in f.node.decorator_list}
            if (name.startswith('__') and name.endswith('__') and name not in ('__init__', '__call__')) or 'property' in deco:
                empty = all(not summary(f, x) for x in CLASSES.values() if c in mro(x))
                out.append((c.mod.rel, f.qual, empty))
    return out


# ------------------------------------------------------------------------------------------------ output
def q(s):
    s = ''.join(ch if 32 <= ord(ch) < 127 else '?' for ch in s)
    return '"' + s.replace('"', '""') + '"'


def main(emit):
    """A failure of the translator must fail C01 and nothing else: the other properties share gen_tables.py, so instead of
    aborting the whole regeneration the table is replaced by a single Uncaught row that carries the message."""
    try:
        translate(emit)
    except (SystemExit, Exception) as exc:   # noqa: BLE001
        msg = '%s: %s' % (type(exc).__name__, exc)
        emit('RaiseSites.v', '(* generated by tools/gen/gen_raisesites.py: THE TRANSLATOR FAILED *)\n'
             'From Coq Require Import NArith List String.\nFrom I18n Require Import Model.Handlers.\nImport ListNotations.\n'
             'Local Open Scope string_scope.\nLocal Open Scope N_scope.\n\n'
             'Definition checker_sites : list site := [\n  {| s_file := "tools/gen/gen_raisesites.py"; s_line := 0; s_func := "main"; s_callee := "translator";\n'
             '     s_class := "SystemExit"; s_disp := Uncaught %s |}\n].\n'
             'Definition lib_raise_sites : list raise_site := [].\nDefinition implicit_methods : list implicit_method := [].\n'
             'Definition assert_site_count : N := 0.\n' % q(msg))
        emit('RaiseSites.json', json.dumps({
            'rows': 1, 'by_disposition': {'Uncaught': 1}, 'reviewed': [], 'known_defects': [], 'unclassified_raises': [], 'lib_raise_sites': 0,
            'dead_raise_sites': 0, 'implicit_methods_nonempty': [], 'asserts': 0,
            'uncaught': [{'file': 'tools/gen/gen_raisesites.py', 'line': 0, 'func': 'main', 'callee': 'translator', 'class': 'SystemExit',
                          'origin': 'tools/gen/gen_raisesites.py', 'disp': ['Uncaught', 'the translator failed: ' + msg]}]}, indent=1, sort_keys=True) + '\n')


def translate(emit):
    load()
    verify_plural_forms_data()
    verify_installation_data()
    count_dead_sites()
    solve()
    table = rows()
    before = {k: dict(v) for k, v in SUMMARY.items() if v}
    solve()
    if before != {k: v for k, v in SUMMARY.items() if v}:
        raise SystemExit('gen_raisesites: summaries changed while the rows were produced')
    for rel, src in IMPLICIT_ANCHORS:
        if (rel, src) not in SEEN_IMPLICIT:
            raise SystemExit('gen_raisesites: implicit raiser %r no longer found in %s: review IMPLICIT' % (src, rel))
    # A whitelist entry that matches no uncaught row any more is harmless (the code got more careful): reported in the JSON only.
    # A recorded defect that is no longer there must be un-recorded (here and in Props/C01.v): that fails the theorem.
    stale_whitelist = [list(k) for k in WHITELIST if k not in USED_WHITELIST]
    for k in KNOWN_DEFECTS:
        if k not in USED_WHITELIST:
            table.append({'file': k[0], 'line': 0, 'func': k[1], 'callee': k[2], 'class': k[3], 'origin': 'tools/gen/gen_raisesites.py',
                          'disp': ('Uncaught', 'stale KNOWN_DEFECTS entry of the generator: there is no such uncaught row any more; remove it')})
    stale_overrides = [list(k) for k in CALLEE_OVERRIDES if k not in USED_OVERRIDES]      # harmless: nothing resolves through them
    table.sort(key=lambda r: (r['file'], r['line'], r['func'], r['callee'], r['class']))
    seen, uniq = set(), []
    for r in table:
        k = (r['file'], r['line'], r['func'], r['callee'], r['class'])
        if k not in seen:
            seen.add(k)
            uniq.append(r)
    table = uniq

    def disp(d):
        if d[0] == 'Caught':
            return 'Caught %d %s' % (d[1], d[2])
        if d[0] == 'CaughtByCaller':
            return 'CaughtByCaller %d' % d[1]
        if d[0] == 'KnownDefect':
            return 'KnownDefect %s %s' % (q(d[1]), q(d[2]))
        if d[0] == 'ImportTime':
            return 'ImportTime'
        return '%s %s' % (d[0], q(d[1]))
    L = ['(* generated by tools/gen/gen_raisesites.py from the python ast of %s/lib -- do not edit *)' % ('/repo' if REPO == '/repo' else 'a copy of /repo'),
         'From Coq Require Import NArith List String.', 'From I18n Require Import Model.Handlers.', 'Import ListNotations.',
         'Local Open Scope string_scope.', 'Local Open Scope N_scope.', '',
         '(* one row per (call / function mention / raise in the checker or at import time, exception class that may come out of it) *)',
         'Definition checker_sites : list site := [']
    L.append(';\n'.join('  {| s_file := %s; s_line := %d; s_func := %s; s_callee := %s; s_class := %s;\n     s_disp := %s |}  (* raised at %s *)'
                        % (q(r['file']), r['line'], q(r['func']), q(r['callee']), q(r['class']), disp(r['disp']), r['origin']) for r in table))
    L += ['].', '', '(* every raise statement and implicit raiser of the summarised modules *)', 'Definition lib_raise_sites : list raise_site := [']
    rs = []
    for (rel, line, func, cls), st in sorted(RAISE_SITES.items()):
        status = 'Live' if st[0] == 'Live' else 'Unclassified' if st[0] == 'Unclassified' else 'Dead %s' % q(st[1])
        rs.append('  {| r_file := %s; r_line := %d; r_func := %s; r_class := %s; r_status := %s |}' % (q(rel), line, q(func), q(show(cls)), status))
    L.append(';\n'.join(rs))
    L += ['].', '', '(* operator / attribute-access methods of lib classes (not followed by the translator): summary must be empty *)',
          'Definition implicit_methods : list implicit_method := [']
    ims = implicit_methods()
    L.append(';\n'.join('  {| m_file := %s; m_name := %s; m_summary_empty := %s |}' % (q(a), q(b), 'true' if c else 'false') for a, b, c in ims))
    L += ['].', '', '(* assert statements (expected dead; the component theorems are about them), not counted as own errors: %d sites *)' % len(ASSERTS),
          'Definition assert_site_count : N := %d.' % len(ASSERTS), '',
          '(* may-raise summaries of the summarised functions (non-empty ones), for the reader:']
    for (f, sc), s in sorted(SUMMARY.items(), key=lambda kv: (kv[0][0].mod.rel, kv[0][0].qual, kv[0][1].key if kv[0][1] else '')):
        if s and f.mod.is_lib:
            L.append('   %s:%s%s: %s' % (f.mod.rel, f.qual, ' [self: %s]' % sc.name if sc is not None and sc is not f.cls else '',
                                         ', '.join(sorted(show(c) for c in s)).replace('*)', '* )')))
    L.append('*)')
    emit('RaiseSites.v', '\n'.join(L) + '\n')
    emit('RaiseSites.json', json.dumps({
        'rows': len(table), 'by_disposition': {d: sum(1 for r in table if r['disp'][0] == d) for d in ('Caught', 'CaughtByCaller', 'ImportTime', 'Reviewed', 'KnownDefect', 'Uncaught')},
        'uncaught': [r for r in table if r['disp'][0] == 'Uncaught'],
        'reviewed': [r for r in table if r['disp'][0] == 'Reviewed'],
        'known_defects': [r for r in table if r['disp'][0] == 'KnownDefect'],
        'unclassified_raises': ['%s:%d %s %s' % (k[0], k[1], k[2], show(k[3])) for k, st in sorted(RAISE_SITES.items()) if st[0] == 'Unclassified'],
        'lib_raise_sites': len(RAISE_SITES), 'dead_raise_sites': sum(1 for st in RAISE_SITES.values() if st[0] == 'Dead'),
        'implicit_methods_nonempty': [b for a, b, c in ims if not c], 'asserts': len(ASSERTS),
        'stale_whitelist': stale_whitelist, 'stale_overrides': stale_overrides, 'revoked_dead': sorted(list(k) for k in REVOKED_DEAD)},
        indent=1, sort_keys=True) + '\n')


if __name__ == '__main__':
    import sys
    sys.path.insert(0, os.path.dirname(os.path.abspath(__file__)))
    out = {}
    main(lambda name, text: out.__setitem__(name, text))
    sys.stdout.write(out['RaiseSites.json'] if '--json' in sys.argv else out['RaiseSites.v'])

"""Source translator: lib/strformat/python.py -> coq/Generated/FmtPythonSrc.v   (property C12, notes/SRC11.md)

Translated, statement by statement: FormatString.__init__ (the scanner), FormatString.add_argument, Conversion.__init__;
FormatString.warn and the classes VariableWidth / VariablePrecision are matched against the one shape the rules assume.
Each function becomes a Gallina function returning `fres T` (Model/FmtPythonPy.v: FOk v | FRaise cls arg | FAssert | FFuel).
Proofs/FmtPythonSrc*.v prove every generated function equal to the hand-written model Model/FmtPython.v.
FAIL CLOSED: anything not listed here raises Unsupported; then a definition-free file is written and the error re-raised.

Interface (SPECS: the model's representation of the objects).
  FormatString.__init__(self, s)            s : str                     result: the public attributes assigned, in order of
                                                                          first assignment (warnings, seq_arguments, ...)
  FormatString.add_argument(self, key, arg) key : None | str, arg : an argument object; self._seq_arguments and
                                            self._map_arguments are inputs and the result
  Conversion.__init__(self, parent, s, *, key, flags, width, var_width, prec, var_prec, length, conv)
                                            parent._seq_arguments / _map_arguments / warnings are inputs and the result
                                            (the Conversion object is observable through .type only)
  attribute kinds: _seq_arguments seq_arguments seq_conversions : list of argument objects; _map_arguments map_arguments :
  defaultdict(list) = association list in insertion order; warnings : list of warnings.
  `x is None` on a value whose static kind is not optional is decided statically (so the RuntimeError test of add_argument,
  which is about calls after construction, disappears; `self._map_arguments = self._seq_arguments = None` is accepted only
  as the last statement of FormatString.__init__).
  IGNORED: the literal-text bookkeeping (`items`, `self._items`, `text` and the io.StringIO calls on it) is not an observable
  of the model: statements that touch only those are skipped; `items += [Conversion(...)]` keeps the call.

Values = (Gallina text, kind).  Python local x is the Gallina variable v_x, self.a is a_a, parent.a is p_a; every assignment
is a `let` (shadowing), so no expression text is ever moved.  Kinds: Z, bool, chr (a one-character str: its code point, N),
str (list N), optstr / optchr (option), pnum (None | Ellipsis | int), none, ellipsis, enum (enumerate(s): next index and
remaining characters), counter (collections.Counter: list (N * nat), only `c[k] += 1`, `k in c`, `c.items()`), args, map,
warns, arg, strs.

Expressions.  int / str / None / Ellipsis / bool constants (a one-character constant is a chr, turned into a str where a str
is needed); names; self.a / parent.a; _info.X, i.X after `i = _info` -> the field i_X of the table record `inf` (the tables
stay generated data, C12_info_sync); SSIZE_MAX -> i_ssize_max inf; + - * on Z; + on str; s[a:b] s[a:] -> pyslice /
pyslice_from (CPython's index normalisation); == != on chr / Z / str / bool; < <= > >= on Z and chr, chained a o b o c ->
(a o b) && (b o c); `c in S` / `c not in S` for a chr c and a str S -> mem, for a counter S -> counter_mem; `x is None` /
`x is not None`; and / or / not; truth of a bool or of a list / dict (non-empty); len(frozenset) -> set_len;
frozenset(a.type for a in L) -> map src_arg_type L; [a for a in L if isinstance(a, Conversion)] -> filter; a.type on an
argument object -> src_arg_type (generated from the `type = '...'` class attributes); int(ch) -> Z.of_N (ch - 48) ONLY inside
`while '0' <= ch <= '9':` before ch is reassigned (otherwise int() can raise or mean something else: rejected);
collections.Counter() / collections.defaultdict(list) / [] -> empty; enumerate(s) -> (0, s); VariableWidth(self) /
VariablePrecision(self) -> AVarWidth / AVarPrec; `self` as an argument object -> AConv a_type (only once self.type is set).
`//`, `%`, `/` do not occur and are rejected.

Statements (k = the translation of what follows).
  v = e, self.a = e, v op= e (+ - * on Z), L += [e], c[k] += 1, d[k] += [e] -> let ... in k;  i = _info -> alias; pass -> k
  a, b = next(si) inside `try: ... except StopIteration: H` -> match enum_next v_si with None => H | Some (a, b, si) => k
  a, b = next_si() where next_si is exactly `try: return next(si) / except StopIteration: H` -> the same with that H, read
      in the caller's scope at the call (closure over s and i)
  if c: A else: B -> fbind (if c then A' else B') (fun '(x, y, ..) => k): A', B' end in FOk (x, y, ..), the variables assigned
      in a branch and bound on every completing branch (others go out of scope); kinds are joined (none / ellipsis / Z ->
      pnum, none / str -> optstr, none / chr -> optchr).  `if x is None` / `is not None` on an optional x -> match (x is the
      plain value in the other branch).  `if x > e` on a pnum x -> match x with PInt z => .. | _ => FRaise KTypeError.
      An `if` that contains break / continue of the enclosing loop duplicates k into its branches instead.
  assert c[, msg] -> if c then k else FAssert (msg dropped); s[-1] inside an assert -> py_getitem hoisted in front
      (None => FRaise KIndexError)
  raise C(args) / raise C -> FRaise KC arg: the argument is kept for Error (one str), dropped for the other classes (it must be
      a plain expression of the subset); the classes must derive from Error exactly as today
  parent.warn(C, s, a..) -> let p_warnings := p_warnings ++ [PWarn KC [a..]] (FormatString.warn must read exactly
      `self.warnings += [exc_type(*args, **kwargs)]`; first argument must be `s`; chr -> AChr, str constant -> AStr,
      anything else -> AOther)
  try: parent.add_argument(K, A) except IndexError: H -> fbind (ftry (src_FormatString_add_argument ..) KIndexError H') (fun '(p_seq, p_map) => k)
  items += [Conversion(self, S, key=.., ..)] -> fbind (src_Conversion_init inf seq map warnings S ..) (fun '(seq, map, warnings) => k)
  while True: B / while c: B -> Fixpoint <f>_while<n> inf F fuel <every variable in scope that B mentions> : fres (variables B
      assigns that were in scope): O => FFuel; continue / end of B => recursive call with the current values; break (and a false
      c) => FOk (..).  At the loop: fbind (<f>_while<n> inf F F ..) (fun '(..) => k).  F is the fuel parameter of the function.
  for a, b in c.items() / d.items(): B -> Fixpoint <f>_for<n> over the list (no break / continue)
  for a, b in [(const, const), ..]: B -> unrolled
Module checks: the named classes exist once, bases as expected; signatures exactly as in SPECS; no module-level rebinding of a name
the rules interpret; inside a translated function the names in RESERVED (int, len, next, enumerate, the class names, ...) are never
assigned, and there is no global / nonlocal / lambda / walrus; a `for` body may not change the object it iterates over.
"""
import ast
import os

REPO = os.environ.get('VERIF_REPO') or '/repo'
SRC = 'lib/strformat/python.py'


class Unsupported(Exception):
    pass


TYPES = {'Z': 'Z', 'bool': 'bool', 'chr': 'N', 'str': 'pystr', 'optstr': 'option pystr', 'optchr': 'option N',
         'pnum': 'pnum', 'enum': '(Z * pystr)', 'counter': 'counter', 'args': 'list parg', 'map': 'argmap',
         'warns': 'list pwarn', 'arg': 'parg', 'strs': 'list pystr'}
ATTR_KINDS = {'_seq_arguments': 'args', '_map_arguments': 'map', 'warnings': 'warns', 'seq_arguments': 'args',
              'seq_conversions': 'args', 'map_arguments': 'map', 'type': 'str'}
INFO = {'flags': 'i_flags', 'lengths': 'i_lengths', 'oct_cvt': 'i_oct', 'hex_cvt': 'i_hex', 'int_cvt': 'i_int',
        'float_cvt': 'i_float', 'other_cvt': 'i_other', 'all_cvt': 'i_all'}
ERR_CLASSES = {'Error': 'Exception', 'ObsoleteConversion': 'Error', 'ForbiddenArgumentKey': 'Error',
               'ArgumentIndexingMixture': 'Error', 'ArgumentTypeMismatch': 'Error', 'RedundantFlag': 'Error',
               'WidthRangeError': 'Error', 'RedundantPrecision': 'Error', 'PrecisionRangeError': 'Error',
               'RedundantLength': 'Error'}
BUILTIN_EXC = {'IndexError', 'RuntimeError'}
CONV_PARAMS = [('key', 'optstr'), ('flags', 'counter'), ('width', 'pnum'), ('var_width', 'bool'), ('prec', 'pnum'),
               ('var_prec', 'bool'), ('length', 'optchr'), ('conv', 'chr')]
PARENT = ['_seq_arguments', '_map_arguments', 'warnings']
IGNORED_NAMES = {'items', 'text', 'self._items'}
WARN_TEXT = 'self.warnings += [exc_type(*args, **kwargs)]'
NEXT = 'next(si)'
# names the rules give a fixed meaning to: never assignable inside a translated function
RESERVED = {'self', 'parent', 'int', 'len', 'next', 'enumerate', 'frozenset', 'isinstance', 'list', 'collections', 'Conversion', 'VariableWidth',
            'VariablePrecision', '_info', 'SSIZE_MAX', 'next_si', 'StopIteration', 'IndexError', 'RuntimeError'} | set(ERR_CLASSES)


def lit_str(s):
    return '[' + '; '.join(str(ord(c)) for c in s) + ']%N'


def tname(e):
    """name of an assignable: x, self.a, parent.a"""
    if isinstance(e, ast.Name):
        return e.id
    if isinstance(e, ast.Attribute) and isinstance(e.value, ast.Name) and e.value.id in ('self', 'parent'):
        return e.value.id + '.' + e.attr
    return None


def gvar(name):
    if name.startswith('self.'):
        return 'a_' + name[5:]
    if name.startswith('parent.'):
        return 'p_' + name[7:]
    return 'v_' + name


def tup(texts):
    return 'tt' if not texts else texts[0] if len(texts) == 1 else '(' + ', '.join(texts) + ')'


def pat(names):
    return '_' if not names else gvar(names[0]) if len(names) == 1 else "'(" + ', '.join(gvar(n) for n in names) + ')'


def ttype(kinds):
    return 'unit' if not kinds else ' * '.join(TYPES[k] for k in kinds)


JOIN = {frozenset(['none', 'ellipsis', 'Z', 'pnum']): 'pnum', frozenset(['none', 'str', 'optstr']): 'optstr',
        frozenset(['none', 'chr', 'optchr']): 'optchr'}


def join_kinds(ks):
    ks = set(ks)
    if len(ks) == 1:
        return ks.pop()
    for dom, k in JOIN.items():
        plain = {'pnum': {'Z', 'ellipsis', 'pnum'}, 'optstr': {'str', 'optstr'}, 'optchr': {'chr', 'optchr'}}[k]
        if ks <= dom and ks & plain:
            return k
    raise Unsupported('cannot join kinds %s' % sorted(ks))


def coerce(v, to):
    t, k = v
    if k == to:
        return t
    table = {('none', 'pnum'): 'PNone', ('ellipsis', 'pnum'): 'PEllipsis', ('Z', 'pnum'): '(PInt %s)' % t,
             ('none', 'optstr'): 'None', ('str', 'optstr'): '(Some %s)' % t,
             ('none', 'optchr'): 'None', ('chr', 'optchr'): '(Some %s)' % t}
    if (k, to) in table:
        return table[(k, to)]
    raise Unsupported('cannot use a %s as a %s' % (k, to))


def names_in(node, next_si_reads):
    """every variable name mentioned (read or assigned) in a statement list, in the naming of tname"""
    out = []
    for n in ast.walk(node) if isinstance(node, ast.AST) else [x for s in node for x in ast.walk(s)]:
        t = tname(n) if isinstance(n, (ast.Name, ast.Attribute)) else None
        if t is not None and t not in out:
            out.append(t)
        if isinstance(n, ast.Call):
            u = ast.unparse(n)
            if u == 'next_si()':
                for x in ['si'] + next_si_reads:
                    if x not in out:
                        out.append(x)
            if u.startswith('Conversion('):
                for x in PARENT:
                    if 'self.' + x not in out:
                        out.append('self.' + x)
            if u.startswith('parent.warn(') and 'parent.warnings' not in out:
                out.append('parent.warnings')
            if u.startswith('parent.add_argument('):
                for x in PARENT[:2]:
                    if 'parent.' + x not in out:
                        out.append('parent.' + x)
    return out


def assigned_in(stmts):
    """variables a statement list can assign, in order of first occurrence"""
    out = []

    def add(x):
        if x is not None and x not in out:
            out.append(x)

    def targets(t):
        if isinstance(t, (ast.Tuple, ast.List)):
            for e in t.elts:
                targets(e)
        elif isinstance(t, ast.Subscript):
            add(tname(t.value))
        else:
            add(tname(t))
    for s in stmts:
        for n in ast.walk(s):
            if isinstance(n, ast.Assign):
                for t in n.targets:
                    targets(t)
            elif isinstance(n, (ast.AugAssign, ast.AnnAssign)):
                targets(n.target)
            elif isinstance(n, ast.For):
                targets(n.target)
            if isinstance(n, ast.Call):
                u = ast.unparse(n)
                if u in (NEXT, 'next_si()'):
                    add('si')
                if u.startswith('Conversion('):
                    for x in PARENT:
                        add('self.' + x)
                if u.startswith('parent.warn('):
                    add('parent.warnings')
                if u.startswith('parent.add_argument('):
                    add('parent._seq_arguments')
                    add('parent._map_arguments')
    return out


def has_loop_control(stmts):
    """break / continue belonging to the enclosing loop (not to a nested one)"""
    for s in stmts:
        if isinstance(s, (ast.Break, ast.Continue)):
            return True
        if isinstance(s, ast.If) and (has_loop_control(s.body) or has_loop_control(s.orelse)):
            return True
        if isinstance(s, ast.Try) and (has_loop_control(s.body) or any(has_loop_control(h.body) for h in s.handlers)):
            return True
    return False


def is_ignored(s):
    if isinstance(s, ast.Assign):
        return all(tname(t) in IGNORED_NAMES for t in s.targets)
    if isinstance(s, ast.Expr) and isinstance(s.value, ast.Call) and ast.unparse(s.value.func).startswith('text.'):
        return all(isinstance(a, (ast.Name, ast.Constant)) for a in s.value.args)
    if isinstance(s, ast.AugAssign) and ast.unparse(s) == 'items += [text.getvalue()]':
        return True
    if isinstance(s, ast.If) and ast.unparse(s.test) == 'text.tell()' and not s.orelse:
        return all(is_ignored(b) for b in s.body)
    return False


class Fn:
    """translation of one function"""

    def __init__(self, mod, cname, fdef):
        self.mod, self.cname, self.fdef = mod, cname, fdef
        self.coqname = 'src_%s_%s' % (cname, fdef.name.strip('_'))
        self.aux = []           # (name, text) of loop Fixpoints, innermost first
        self.loop_ids = {}

        def number(node):       # loops are numbered in source order
            if isinstance(node, (ast.While, ast.For)):
                self.loop_ids[id(node)] = len(self.loop_ids) + 1
            for c in ast.iter_child_nodes(node):
                number(c)
        number(fdef)
        self.has_while = any(isinstance(x, ast.While) for x in ast.walk(fdef))
        bad = [x for x in assigned_in(fdef.body) if x in RESERVED]
        if bad or any(isinstance(x, (ast.Global, ast.Nonlocal, ast.Lambda, ast.NamedExpr)) for x in ast.walk(fdef)):
            raise Unsupported('a name with a fixed meaning is rebound in %s: %s' % (fdef.name, bad))
        self.next_si = None     # handler statements of the local function next_si
        self.next_si_reads = []
        self.loop = None        # (continue_k, break_k) of the innermost loop being translated
        self.digit_guard = set()
        self.hoists = None

    # ------------------------------------------------------------ expressions
    def expr(self, e, env):
        if isinstance(e, ast.Constant):
            v = e.value
            if v is None:
                return ('tt', 'none')
            if v is Ellipsis:
                return ('tt', 'ellipsis')
            if isinstance(v, bool):
                return ('true' if v else 'false', 'bool')
            if isinstance(v, int):
                return ('(%d)%%Z' % v, 'Z')
            if isinstance(v, str):
                return ('%d%%N' % ord(v), 'chr') if len(v) == 1 else (lit_str(v), 'str')
            raise Unsupported('constant %r' % (v,))
        if isinstance(e, ast.Name):
            if e.id == 'SSIZE_MAX' and e.id not in env:
                return ('(i_ssize_max inf)', 'Z')
            if e.id == 'self' and self.cname == 'Conversion':
                if env.get('self.type') != 'str':
                    raise Unsupported('self used as an argument object before self.type is set')
                return ('(AConv a_type)', 'arg')
            if e.id not in env:
                raise Unsupported('unbound or unsupported name %s (line %d)' % (e.id, e.lineno))
            if env[e.id] == 'info':
                raise Unsupported('_info used as a value')
            return (gvar(e.id), env[e.id])
        if isinstance(e, ast.Attribute):
            base = e.value
            if isinstance(base, ast.Name) and ((base.id == '_info' and '_info' not in env) or env.get(base.id) == 'info'):
                if e.attr not in INFO:
                    raise Unsupported('_info.%s' % e.attr)
                return ('(%s inf)' % INFO[e.attr], 'str')
            t = tname(e)
            if t is not None:
                if t not in env:
                    raise Unsupported('attribute %s not set (line %d)' % (t, e.lineno))
                return (gvar(t), env[t])
            if e.attr == 'type':
                v = self.expr(base, env)
                if v[1] == 'arg':
                    return ('(src_arg_type %s)' % v[0], 'str')
            raise Unsupported('attribute ' + ast.unparse(e))
        if isinstance(e, ast.BinOp):
            a, b = self.expr(e.left, env), self.expr(e.right, env)
            if isinstance(e.op, (ast.Add, ast.Sub, ast.Mult)) and a[1] == b[1] == 'Z':
                return ('(%s %s %s)%%Z' % (a[0], {ast.Add: '+', ast.Sub: '-', ast.Mult: '*'}[type(e.op)], b[0]), 'Z')
            if isinstance(e.op, ast.Add) and {a[1], b[1]} <= {'str', 'chr'}:
                return ('(%s ++ %s)' % (self.as_str(a, e.left), self.as_str(b, e.right)), 'str')
            raise Unsupported('operator in ' + ast.unparse(e))
        if isinstance(e, ast.Subscript):
            v = self.expr(e.value, env)
            if v[1] != 'str':
                raise Unsupported('subscript of a %s' % v[1])
            if isinstance(e.slice, ast.Slice):
                if e.slice.step is not None or e.slice.lower is None:
                    raise Unsupported('slice ' + ast.unparse(e))
                lo = self.expr(e.slice.lower, env)
                if lo[1] != 'Z':
                    raise Unsupported('slice bound')
                if e.slice.upper is None:
                    return ('(pyslice_from %s %s)' % (v[0], lo[0]), 'str')
                hi = self.expr(e.slice.upper, env)
                if hi[1] != 'Z':
                    raise Unsupported('slice bound')
                return ('(pyslice %s %s %s)' % (v[0], lo[0], hi[0]), 'str')
            ix = self.expr(e.slice, env)
            if ix[1] != 'Z' or self.hoists is None:
                raise Unsupported('indexing outside an assert: ' + ast.unparse(e))
            g = 'g%d' % (len(self.hoists) + 1)
            self.hoists.append((g, '(py_getitem %s %s)' % (v[0], ix[0])))
            return (g, 'chr')
        if isinstance(e, ast.UnaryOp) and isinstance(e.op, ast.Not):
            return ('(negb %s)' % self.truth(e.operand, env), 'bool')
        if isinstance(e, ast.UnaryOp) and isinstance(e.op, ast.USub) and isinstance(e.operand, ast.Constant) and type(e.operand.value) is int:
            return ('(-%d)%%Z' % e.operand.value, 'Z')
        if isinstance(e, ast.BoolOp):
            op = ' && ' if isinstance(e.op, ast.And) else ' || '
            return ('(' + op.join(self.truth(x, env) for x in e.values) + ')', 'bool')
        if isinstance(e, ast.Compare):
            parts, left = [], e.left
            for op, right in zip(e.ops, e.comparators):
                parts.append(self.compare(left, op, right, env))
                left = right
            return (parts[0] if len(parts) == 1 else '(' + ' && '.join(parts) + ')', 'bool')
        if isinstance(e, ast.Call):
            return self.call(e, env)
        if isinstance(e, ast.List) and not e.elts:
            return ('[]', 'emptylist')
        if isinstance(e, ast.List) and len(e.elts) == 1:
            v = self.expr(e.elts[0], env)
            if v[1] == 'arg':
                return ('[%s]' % v[0], 'args')
            raise Unsupported('list of a %s' % v[1])
        if isinstance(e, ast.ListComp):
            u = e.generators
            if (len(u) == 1 and isinstance(u[0].target, ast.Name) and len(u[0].ifs) == 1 and not u[0].is_async
                    and isinstance(e.elt, ast.Name) and e.elt.id == u[0].target.id):
                src = self.expr(u[0].iter, env)
                if src[1] == 'args':
                    x = u[0].target.id
                    c = self.truth(u[0].ifs[0], dict(env, **{x: 'arg'}))
                    return ('(filter (fun %s => %s) %s)' % (gvar(x), c, src[0]), 'args')
            raise Unsupported('comprehension ' + ast.unparse(e))
        raise Unsupported('expression %s (line %d)' % (ast.unparse(e), getattr(e, 'lineno', 0)))

    def as_str(self, v, node):
        if v[1] == 'str':
            return v[0]
        if v[1] == 'chr' and isinstance(node, ast.Constant):
            return lit_str(node.value)
        raise Unsupported('a str is needed: ' + ast.unparse(node))

    def truth(self, e, env):
        v = self.expr(e, env)
        if v[1] == 'bool':
            return v[0]
        if v[1] in ('args', 'map', 'warns'):
            return '(negb (is_nil %s))' % v[0]
        raise Unsupported('truth value of a %s: %s' % (v[1], ast.unparse(e)))

    def compare(self, l, op, r, env):
        if isinstance(op, (ast.Is, ast.IsNot)):
            if not (isinstance(r, ast.Constant) and r.value is None):
                raise Unsupported('is: ' + ast.unparse(r))
            v = self.expr(l, env)
            if v[1] == 'none':
                t = 'true'
            elif v[1] in ('optstr', 'optchr'):
                t = '(is_none %s)' % v[0]
            elif v[1] == 'pnum':
                t = '(pnum_is_none %s)' % v[0]
            elif v[1] in TYPES or v[1] == 'ellipsis':
                t = 'false'
            else:
                raise Unsupported('is None on a %s' % v[1])
            return t if isinstance(op, ast.Is) else '(negb %s)' % t
        a, b = self.expr(l, env), self.expr(r, env)
        if isinstance(op, (ast.In, ast.NotIn)):
            if a[1] != 'chr':
                raise Unsupported('`in` with a left operand of kind ' + a[1])
            if b[1] == 'counter':
                t = '(counter_mem %s %s)' % (a[0], b[0])
            else:
                t = '(mem %s %s)' % (a[0], self.as_str(b, r))
            return t if isinstance(op, ast.In) else '(negb %s)' % t
        ka, kb = a[1], b[1]
        if ka == 'nat' and isinstance(r, ast.Constant) and type(r.value) is int and r.value >= 0 and isinstance(op, (ast.Eq, ast.NotEq)):
            t = '(Nat.eqb %s %d)' % (a[0], r.value)       # a Counter value
            return t if isinstance(op, ast.Eq) else '(negb %s)' % t
        if ka == kb == 'chr':
            sc, ops = 'N', {ast.Eq: '=?', ast.NotEq: '=?', ast.Lt: '<?', ast.LtE: '<=?'}
        elif ka == kb == 'Z':
            sc, ops = 'Z', {ast.Eq: '=?', ast.NotEq: '=?', ast.Lt: '<?', ast.LtE: '<=?', ast.Gt: '>?', ast.GtE: '>=?'}
        elif {ka, kb} <= {'str', 'chr'} and isinstance(op, (ast.Eq, ast.NotEq)):
            t = '(list_eqb %s %s)' % (self.as_str(a, l), self.as_str(b, r))
            return t if isinstance(op, ast.Eq) else '(negb %s)' % t
        elif ka == kb == 'bool' and isinstance(op, (ast.Eq, ast.NotEq)):
            t = '(Bool.eqb %s %s)' % (a[0], b[0])
            return t if isinstance(op, ast.Eq) else '(negb %s)' % t
        else:
            raise Unsupported('comparison of a %s with a %s: %s %s' % (ka, kb, ast.unparse(l), ast.unparse(r)))
        if type(op) not in ops:
            if sc == 'N' and isinstance(op, (ast.Gt, ast.GtE)):       # a > b as b < a
                return '(%s %s %s)%%N' % (b[0], '<?' if isinstance(op, ast.Gt) else '<=?', a[0])
            raise Unsupported('comparison operator')
        t = '(%s %s %s)%%%s' % (a[0], ops[type(op)], b[0], sc)
        return '(negb %s)' % t if isinstance(op, ast.NotEq) else t

    def call(self, e, env):
        u = ast.unparse(e)
        f = ast.unparse(e.func)
        if e.keywords and f != 'Conversion':
            raise Unsupported('keywords in ' + u)
        if u == 'collections.Counter()':
            return ('[]', 'counter')
        if u == 'collections.defaultdict(list)':
            return ('[]', 'map')
        if f == 'enumerate' and len(e.args) == 1:
            v = self.expr(e.args[0], env)
            if v[1] == 'str':
                return ('(0%%Z, %s)' % v[0], 'enum')
        if f in ('VariableWidth', 'VariablePrecision') and u == f + '(self)' and self.cname == 'Conversion':
            return ('AVarWidth' if f == 'VariableWidth' else 'AVarPrec', 'arg')
        if f == 'int' and len(e.args) == 1 and isinstance(e.args[0], ast.Name) and e.args[0].id in self.digit_guard:
            v = self.expr(e.args[0], env)
            if v[1] == 'chr':
                return ('(Z.of_N (%s - 48)%%N)' % v[0], 'Z')
        if f == 'len' and len(e.args) == 1:
            v = self.expr(e.args[0], env)
            if v[1] == 'strs':
                return ('(set_len %s)' % v[0], 'Z')
        if f == 'frozenset' and len(e.args) == 1 and isinstance(e.args[0], ast.GeneratorExp):
            g = e.args[0]
            u0 = g.generators
            if len(u0) == 1 and isinstance(u0[0].target, ast.Name) and not u0[0].ifs and not u0[0].is_async:
                src = self.expr(u0[0].iter, env)
                if src[1] == 'args':
                    x = u0[0].target.id
                    el = self.expr(g.elt, dict(env, **{x: 'arg'}))
                    if el[1] == 'str':
                        return ('(map (fun %s => %s) %s)' % (gvar(x), el[0], src[0]), 'strs')
        if f == 'isinstance' and len(e.args) == 2 and ast.unparse(e.args[1]) == 'Conversion':
            v = self.expr(e.args[0], env)
            if v[1] == 'arg':
                return ('(parg_is_conv %s)' % v[0], 'bool')
        raise Unsupported('call %s (line %d)' % (u, e.lineno))

    # ------------------------------------------------------------ statements
    def block(self, stmts, env, k):
        if not stmts:
            return k(env)
        s, rest = stmts[0], stmts[1:]
        if isinstance(s, (ast.Raise, ast.Break, ast.Continue)) and rest:
            raise Unsupported('statements after raise / break / continue (line %d)' % s.lineno)
        return self.stmt(s, env, lambda env2: self.block(rest, env2, k), rest)

    def let(self, name, v, env, k):
        if v[1] in ('none', 'ellipsis'):
            return k(dict(env, **{name: v[1]}))
        if v[1] not in TYPES:
            raise Unsupported('cannot bind a %s to %s' % (v[1], name))
        return 'let %s := %s in\n%s' % (gvar(name), v[0], k(dict(env, **{name: v[1]})))

    def stmt(self, s, env, k, rest):
        if is_ignored(s) or isinstance(s, ast.Pass):
            return k(env)
        if isinstance(s, ast.FunctionDef):
            return self.def_next_si(s, env, k)
        if isinstance(s, ast.Assign):
            return self.assign(s, env, k, rest)
        if isinstance(s, ast.AugAssign):
            return self.augassign(s, env, k)
        if isinstance(s, ast.If):
            return self.if_(s, env, k)
        if isinstance(s, ast.While):
            return self.while_(s, env, k)
        if isinstance(s, ast.For):
            return self.for_(s, env, k)
        if isinstance(s, ast.Try):
            return self.try_(s, env, k)
        if isinstance(s, ast.Assert):
            if isinstance(s.test, ast.Constant) and s.test.value is False:
                if rest:
                    raise Unsupported('statements after assert False')
                return 'FAssert'
            self.hoists = []
            c = self.truth(s.test, env)
            hoists, self.hoists = self.hoists, None
            t = 'if %s then\n%s\nelse FAssert' % (c, k(env))
            for g, call in reversed(hoists):
                t = 'match %s with None => FRaise KIndexError None | Some %s =>\n%s\nend' % (call, g, t)
            return t
        if isinstance(s, ast.Raise):
            return self.raise_(s, env)
        if isinstance(s, ast.Break):
            if self.loop is None or self.loop[1] is None:
                raise Unsupported('break outside a while loop')
            return self.loop[1](env)
        if isinstance(s, ast.Continue):
            if self.loop is None:
                raise Unsupported('continue outside a loop')
            return self.loop[0](env)
        if isinstance(s, ast.Expr) and isinstance(s.value, ast.Call):
            u = ast.unparse(s.value.func)
            if u == 'parent.warn':
                return self.warn(s.value, env, k)
            raise Unsupported('call statement %s (only inside try for add_argument)' % ast.unparse(s))
        raise Unsupported('statement %s (line %d)' % (type(s).__name__, s.lineno))

    def def_next_si(self, s, env, k):
        ok = (s.name == 'next_si' and self.cname == 'FormatString' and not s.args.args and not s.decorator_list and len(s.body) == 1
              and isinstance(s.body[0], ast.Try) and len(s.body[0].body) == 1 and ast.unparse(s.body[0].body[0]) == 'return ' + NEXT
              and len(s.body[0].handlers) == 1 and ast.unparse(s.body[0].handlers[0].type) == 'StopIteration'
              and s.body[0].handlers[0].name is None and not s.body[0].orelse and not s.body[0].finalbody)
        if not ok or self.next_si is not None:
            raise Unsupported('local function %s is not the expected next_si' % s.name)
        h = s.body[0].handlers[0].body
        if assigned_in(h):
            raise Unsupported('next_si handler assigns')
        self.next_si = h
        self.next_si_reads = [x for x in names_in(h, []) if x not in ERR_CLASSES]
        return k(env)

    def assign(self, s, env, k, rest):
        if len(s.targets) > 1:
            # self._map_arguments = self._seq_arguments = None : end of construction
            if (isinstance(s.value, ast.Constant) and s.value.value is None and not rest and self.loop is None
                    and self.fdef.name == '__init__' and all((tname(t) or '').startswith('self._') for t in s.targets)):
                env2 = dict(env)
                for t in s.targets:
                    env2[tname(t)] = 'none'
                return k(env2)
            raise Unsupported('multiple targets: ' + ast.unparse(s))
        t = s.targets[0]
        if isinstance(t, ast.Tuple):
            if ast.unparse(s.value) != 'next_si()' or self.next_si is None or 'next_si' in env:
                raise Unsupported('tuple assignment: ' + ast.unparse(s))

            def dead(e):
                raise Unsupported('the handler of next_si does not raise')
            return self.next_match(t.elts, env, self.block(self.next_si, env, dead), k)
        name = tname(t)
        if name is None:
            raise Unsupported('assignment target ' + ast.unparse(t))
        if name in RESERVED:
            raise Unsupported('assignment to ' + name)
        if isinstance(s.value, ast.Name) and s.value.id == '_info' and '_info' not in env and isinstance(t, ast.Name):
            return k(dict(env, **{name: 'info'}))
        v = self.expr(s.value, env)
        if v[1] == 'emptylist':
            if '.' not in name or name.split('.')[1] not in ATTR_KINDS:
                raise Unsupported('[] assigned to ' + name)
            v = ('[]', ATTR_KINDS[name.split('.')[1]])
        if '.' in name:
            want = ATTR_KINDS.get(name.split('.')[1])
            if want is None or (v[1] != want and v[1] != 'none'):
                raise Unsupported('attribute %s of kind %s' % (name, v[1]))
        self.digit_guard.discard(name)
        return self.let(name, v, env, k)

    def augassign(self, s, env, k):
        t = s.target
        if isinstance(t, ast.Subscript):
            base, key = self.expr(t.value, env), self.expr(t.slice, env)
            name = tname(t.value)
            if name is None or not isinstance(s.op, ast.Add):
                raise Unsupported(ast.unparse(s))
            if base[1] == 'counter' and key[1] == 'chr' and ast.unparse(s.value) == '1':
                return self.let(name, ('(counter_incr %s %s)' % (key[0], base[0]), 'counter'), env, k)
            if base[1] == 'map' and key[1] == 'str' and isinstance(s.value, ast.List) and len(s.value.elts) == 1:
                a = self.expr(s.value.elts[0], env)
                if a[1] == 'arg':
                    return self.let(name, ('(dd_append %s %s %s)' % (base[0], key[0], a[0]), 'map'), env, k)
            raise Unsupported(ast.unparse(s))
        name = tname(t)
        if name == 'items' and isinstance(s.value, ast.List) and len(s.value.elts) == 1 and isinstance(s.value.elts[0], ast.Call) \
                and ast.unparse(s.value.elts[0].func) == 'Conversion' and isinstance(s.op, ast.Add):
            return self.conversion_call(s.value.elts[0], env, k)
        if name is None or name not in env:
            raise Unsupported('augmented assignment to ' + ast.unparse(t))
        cur = (gvar(name), env[name])
        if cur[1] == 'Z' and isinstance(s.op, (ast.Add, ast.Sub, ast.Mult)):
            b = self.expr(s.value, env)
            if b[1] != 'Z':
                raise Unsupported(ast.unparse(s))
            op = {ast.Add: '+', ast.Sub: '-', ast.Mult: '*'}[type(s.op)]
            return self.let(name, ('(%s %s %s)%%Z' % (cur[0], op, b[0]), 'Z'), env, k)
        if cur[1] == 'args' and isinstance(s.op, ast.Add):
            b = self.expr(s.value, env)
            if b[1] == 'args':
                return self.let(name, ('(%s ++ %s)' % (cur[0], b[0]), 'args'), env, k)
        raise Unsupported(ast.unparse(s))

    def raise_(self, s, env):
        if s.cause is not None or s.exc is None:
            raise Unsupported('raise form')
        cls, args = (ast.unparse(s.exc.func), s.exc.args) if isinstance(s.exc, ast.Call) else (ast.unparse(s.exc), [])
        if isinstance(s.exc, ast.Call) and s.exc.keywords:
            raise Unsupported('raise with keywords')
        if cls not in ERR_CLASSES and cls not in BUILTIN_EXC:
            raise Unsupported('raise of ' + cls)
        vals = [self.expr(a, env) for a in args]
        if cls == 'Error':
            if len(vals) != 1 or vals[0][1] != 'str':
                raise Unsupported('Error(...) takes one str here')
            return 'FRaise KError (Some %s)' % vals[0][0]
        return 'FRaise K%s None' % cls

    def warn(self, c, env, k):
        if len(c.args) < 2 or c.keywords or ast.unparse(c.args[1]) != 's' or env.get('s') != 'str':
            raise Unsupported('warn call ' + ast.unparse(c))
        cls = ast.unparse(c.args[0])
        if cls not in ERR_CLASSES:
            raise Unsupported('warning class ' + cls)
        out = []
        for a in c.args[2:]:
            v = self.expr(a, env)
            if v[1] == 'chr':
                out.append('AChr %s' % v[0])
            elif v[1] == 'str' and isinstance(a, ast.Constant):
                out.append('AStr %s' % v[0])
            elif isinstance(a, (ast.Name, ast.Constant)):
                out.append('AOther')
            else:
                raise Unsupported('warning argument ' + ast.unparse(a))
        new = '(p_warnings ++ [PWarn K%s [%s]])' % (cls, '; '.join(out))
        if env.get('parent.warnings') != 'warns':
            raise Unsupported('parent.warnings')
        return self.let('parent.warnings', (new, 'warns'), env, k)

    def conversion_call(self, c, env, k):
        if len(c.args) != 2 or ast.unparse(c.args[0]) != 'self' or self.cname != 'FormatString':
            raise Unsupported('Conversion call')
        kw = {x.arg: x.value for x in c.keywords}
        if sorted(kw) != sorted(n for n, _ in CONV_PARAMS) or len(kw) != len(c.keywords):
            raise Unsupported('Conversion keywords')
        args = [gvar('self.' + x) for x in PARENT]
        for x in PARENT:
            if env.get('self.' + x) != ATTR_KINDS[x]:
                raise Unsupported('self.%s not available' % x)
        args.append(coerce(self.expr(c.args[1], env), 'str'))
        for n, kind in CONV_PARAMS:
            args.append(coerce(self.expr(kw[n], env), kind))
        names = ['self.' + x for x in PARENT]
        return 'fbind (src_Conversion_init inf %s) (fun %s =>\n%s)' % (' '.join(args), pat(names), k(env))

    def next_match(self, targets, env, on_stop, k):
        if env.get('si') != 'enum' or len(targets) != 2 or not all(isinstance(t, ast.Name) for t in targets):
            raise Unsupported('next(si) unpacking')
        a, b = targets[0].id, targets[1].id
        if len({a, b, 'si'}) != 3:
            raise Unsupported('next(si) targets')
        self.digit_guard.discard(a)
        self.digit_guard.discard(b)
        env2 = dict(env, **{a: 'Z', b: 'chr'})
        return 'match enum_next v_si with\n| None => %s\n| Some (%s, %s, v_si) =>\n%s\nend' % (on_stop, gvar(a), gvar(b), k(env2))

    def try_(self, s, env, k):
        if s.orelse or s.finalbody or len(s.handlers) != 1 or len(s.body) != 1 or s.handlers[0].name is not None:
            raise Unsupported('try form (line %d)' % s.lineno)
        h, b = s.handlers[0], s.body[0]
        hcls = ast.unparse(h.type) if h.type is not None else None
        if hcls == 'StopIteration' and isinstance(b, ast.Assign) and len(b.targets) == 1 and isinstance(b.targets[0], ast.Tuple) \
                and ast.unparse(b.value) == NEXT:
            on_stop = self.block(h.body, env, k)
            return self.next_match(b.targets[0].elts, env, on_stop, k)
        if hcls == 'IndexError' and isinstance(b, ast.Expr) and isinstance(b.value, ast.Call) and ast.unparse(b.value.func) == 'parent.add_argument' \
                and len(b.value.args) == 2 and not b.value.keywords and self.cname == 'Conversion':
            key = coerce(self.expr(b.value.args[0], env), 'optstr')
            arg = coerce(self.expr(b.value.args[1], env), 'arg')
            names = ['parent._seq_arguments', 'parent._map_arguments']
            if [env.get(n) for n in names] != ['args', 'map']:
                raise Unsupported('parent state')
            if assigned_in(h.body):
                raise Unsupported('handler assigns')
            done = lambda env2: 'FOk ' + tup([gvar(n) for n in names])   # noqa: E731
            handler = self.block(h.body, env, done)
            return 'fbind (ftry (src_FormatString_add_argument inf p__seq_arguments p__map_arguments %s %s) KIndexError (%s)) (fun %s =>\n%s)' % (
                key, arg, handler, pat(names), k(env))
        raise Unsupported('try statement (line %d)' % s.lineno)

    def if_(self, s, env, k):
        test = s.test
        # shape of the test
        wrap = None
        if isinstance(test, ast.Compare) and len(test.ops) == 1 and isinstance(test.ops[0], (ast.Is, ast.IsNot)) \
                and isinstance(test.left, (ast.Name,)) and env.get(test.left.id) in ('optstr', 'optchr') \
                and isinstance(test.comparators[0], ast.Constant) and test.comparators[0].value is None:
            x = test.left.id
            plain = env[x][3:]
            none_first = isinstance(test.ops[0], ast.Is)

            def wrap(a_text, b_text):
                n, sm = (a_text, b_text) if none_first else (b_text, a_text)
                return 'match %s with\n| None => %s\n| Some %s => %s\nend' % (gvar(x), n, gvar(x), sm)
            env_a = env if none_first else dict(env, **{x: plain})
            env_b = dict(env, **{x: plain}) if none_first else env
        elif isinstance(test, ast.Compare) and len(test.ops) == 1 and isinstance(test.left, ast.Name) and env.get(test.left.id) == 'pnum' \
                and isinstance(test.ops[0], (ast.Gt, ast.GtE, ast.Lt, ast.LtE)):
            x = test.left.id
            z = gvar(x) + '_z'
            c = self.compare(ast.Name(id=x + '_z', ctx=ast.Load()), test.ops[0], test.comparators[0], dict(env, **{x + '_z': 'Z'}))

            def wrap(a_text, b_text):
                return 'match %s with\n| PInt %s => if %s then %s else %s\n| _ => FRaise KTypeError None\nend' % (gvar(x), z, c, a_text, b_text)
            env_a = env_b = env
        else:
            c = self.truth(test, env)
            if c in ('true', 'false', '(negb true)', '(negb false)'):       # statically decided: only that branch exists
                return self.block(s.body if c in ('true', '(negb false)') else s.orelse, env, k)

            def wrap(a_text, b_text):
                return 'if %s then %s else %s' % (c, a_text, b_text)
            env_a = env_b = env
        if has_loop_control(s.body) or has_loop_control(s.orelse):
            return wrap(self.block(s.body, env_a, k), self.block(s.orelse, env_b, k))
        # join: first learn the final environments of the completing branches
        finals = []
        saved = (list(self.aux), set(self.digit_guard))
        rec = lambda e: (finals.append(e), 'X')[1]      # noqa: E731
        self.block(s.body, env_a, rec)
        self.block(s.orelse, env_b, rec)
        self.aux, self.digit_guard = saved[0], saved[1]
        cand = assigned_in(s.body + s.orelse)
        if not finals:
            return wrap(self.block(s.body, env_a, rec), self.block(s.orelse, env_b, rec))
        out = [v for v in cand if all(v in f for f in finals)]
        kinds = {v: join_kinds([f[v] for f in finals]) for v in out}
        if any(kinds[v] in ('none', 'ellipsis', 'info') for v in out):
            carried = [v for v in out if kinds[v] not in ('none', 'ellipsis', 'info')]
        else:
            carried = out
        done = lambda e: 'FOk ' + tup([coerce((gvar(v), e[v]), kinds[v]) for v in carried])      # noqa: E731
        a_text = self.block(s.body, env_a, done)
        b_text = self.block(s.orelse, env_b, done)
        env2 = dict(env)
        for v in list(env2):
            if v in cand and v not in out:
                del env2[v]
        env2.update(kinds)
        for v in carried:
            self.digit_guard.discard(v)
        return 'fbind (%s) (fun %s =>\n%s)' % (wrap(a_text, b_text), pat(carried), k(env2))

    def loop_sig(self, s, env, extra_assigned=()):
        body = [s]
        mentioned = names_in(body, self.next_si_reads)
        params = [v for v in env if v in mentioned and env[v] in TYPES]
        bad = [v for v in env if v in mentioned and env[v] not in TYPES and env[v] != 'info']
        assigned = [v for v in assigned_in(body) if v in env and v not in extra_assigned]
        for v in assigned:
            if v in bad:
                raise Unsupported('loop changes %s of kind %s' % (v, env[v]))
        return params, assigned

    def while_(self, s, env, k):
        if s.orelse:
            raise Unsupported('while/else')
        name = '%s_while%d' % (self.coqname, self.loop_ids[id(s)])
        params, assigned = self.loop_sig(s, env)
        kinds = {v: env[v] for v in params}

        def again(e):
            for v in params:
                if e.get(v) != kinds[v]:
                    raise Unsupported('loop changes the kind of %s' % v)
            return '%s inf F fuel %s' % (name, ' '.join(gvar(v) for v in params))

        def leave(e):
            for v in assigned:
                if e.get(v) != kinds[v]:
                    raise Unsupported('loop changes the kind of %s' % v)
            return 'FOk ' + tup([gvar(v) for v in assigned])
        saved_loop, saved_guard = self.loop, set(self.digit_guard)
        self.loop = (again, leave)
        const_true = isinstance(s.test, ast.Constant) and s.test.value is True
        if const_true:
            body = self.block(s.body, env, again)
        else:
            c = self.truth(s.test, env)
            t = s.test
            if (isinstance(t, ast.Compare) and len(t.ops) == 2 and ast.unparse(t.left) == "'0'" and ast.unparse(t.comparators[1]) == "'9'"
                    and all(isinstance(o, ast.LtE) for o in t.ops) and isinstance(t.comparators[0], ast.Name)):
                self.digit_guard.add(t.comparators[0].id)
            body = 'if %s then\n%s\nelse %s' % (c, self.block(s.body, env, again), leave(env))
        self.loop, self.digit_guard = saved_loop, saved_guard
        sig = ' '.join('(%s : %s)' % (gvar(v), TYPES[kinds[v]]) for v in params)
        text = 'Fixpoint %s (inf : pyinfo) (F fuel : nat) %s {struct fuel} : fres (%s) :=\nmatch fuel with\n| O => FFuel\n| S fuel =>\n%s\nend.' % (
            name, sig, ttype([kinds[v] for v in assigned]), body)
        self.add_aux(name, text)
        for v in assigned:
            self.digit_guard.discard(v)
        env2 = {v: kd for v, kd in env.items() if not (v in assigned_in([s]) and v not in assigned)}
        return 'fbind (%s inf F F %s) (fun %s =>\n%s)' % (name, ' '.join(gvar(v) for v in params), pat(assigned), k(env2))

    def add_aux(self, name, text):
        for n, t in self.aux:
            if n == name:
                if t != text:
                    raise Unsupported('loop %s translated in two different ways' % name)
                return
        self.aux.append((name, text))

    def for_(self, s, env, k):
        if s.orelse or has_loop_control(s.body):
            raise Unsupported('for with else / break / continue')
        if not (isinstance(s.target, ast.Tuple) and len(s.target.elts) == 2 and all(isinstance(t, ast.Name) for t in s.target.elts)):
            raise Unsupported('for target')
        a, b = [t.id for t in s.target.elts]
        it = s.iter
        if isinstance(it, ast.List):       # constant pairs: unrolled
            steps = []
            for el in it.elts:
                if not (isinstance(el, ast.Tuple) and len(el.elts) == 2 and all(isinstance(x, ast.Constant) for x in el.elts)):
                    raise Unsupported('for over a non-constant list')
                steps.append([ast.Assign(targets=[ast.Name(id=a, ctx=ast.Store())], value=el.elts[0], lineno=s.lineno),
                              ast.Assign(targets=[ast.Name(id=b, ctx=ast.Store())], value=el.elts[1], lineno=s.lineno)] + s.body)
            flat = [x for st in steps for x in st]

            def after(e):
                return k({v: kd for v, kd in e.items() if v not in (a, b) or v in env})
            return self.block(flat, env, after)
        if not (isinstance(it, ast.Call) and isinstance(it.func, ast.Attribute) and it.func.attr == 'items' and not it.args and not it.keywords):
            raise Unsupported('for over ' + ast.unparse(it))
        src = self.expr(it.func.value, env)
        if src[1] == 'counter':
            lt = 'counter'
            elem = {a: 'chr', b: 'nat'}
        elif src[1] == 'map':
            lt = 'argmap'
            elem = {a: 'str', b: 'args'}
        else:
            raise Unsupported('for over the items of a %s' % src[1])
        if a in env or b in env:
            raise Unsupported('for target shadows a variable')
        if tname(it.func.value) in assigned_in(s.body):
            raise Unsupported('the loop changes the object it iterates over')
        name = '%s_for%d' % (self.coqname, self.loop_ids[id(s)])
        params, assigned = self.loop_sig(ast.Module(body=s.body, type_ignores=[]), env)
        kinds = {v: env[v] for v in params}

        def again(e):
            for v in params:
                if e.get(v) != kinds[v]:
                    raise Unsupported('loop changes the kind of %s' % v)
            return '%s inf l %s' % (name, ' '.join(gvar(v) for v in params))
        saved_loop = self.loop
        self.loop = (again, None)
        body = self.block(s.body, dict(env, **elem), again)
        self.loop = saved_loop
        sig = ' '.join('(%s : %s)' % (gvar(v), TYPES[kinds[v]]) for v in params)
        text = 'Fixpoint %s (inf : pyinfo) (l : %s) %s {struct l} : fres (%s) :=\nmatch l with\n| [] => FOk %s\n| (%s, %s) :: l =>\n%s\nend.' % (
            name, lt, sig, ttype([kinds[v] for v in assigned]), tup([gvar(v) for v in assigned]), gvar(a), gvar(b), body)
        self.add_aux(name, text)
        return 'fbind (%s inf %s %s) (fun %s =>\n%s)' % (name, src[0], ' '.join(gvar(v) for v in params), pat(assigned), k(env))

    # ------------------------------------------------------------ whole function
    def translate(self, params, env, result):
        body = list(self.fdef.body)
        if body and isinstance(body[0], ast.Expr) and isinstance(body[0].value, ast.Constant) and isinstance(body[0].value.value, str):
            body = body[1:]

        def done(e):
            names = result(e)
            for n in names:
                if e.get(n) not in TYPES:
                    raise Unsupported('result %s is not available at the end' % n)
            self.result = [(n, e[n]) for n in names]
            return 'FOk ' + tup([gvar(n) for n in names])
        text = self.block(body, env, done)
        sig = ' '.join('(%s : %s)' % (g, t) for g, t in params)
        head = 'Definition %s (inf : pyinfo) %s%s : fres (%s) :=\n' % (
            self.coqname, '(F : nat) ' if self.has_while else '', sig, ttype([kd for _, kd in self.result]))
        return '\n\n'.join([t for _, t in self.aux] + [head + text + '.'])


def check_args(fdef, pos, kwonly):
    a = fdef.args
    if ([x.arg for x in a.args] != pos or [x.arg for x in a.kwonlyargs] != kwonly or a.vararg or a.kwarg or a.posonlyargs
            or a.defaults or any(d is not None for d in a.kw_defaults) or fdef.decorator_list):
        raise Unsupported('signature of %s' % fdef.name)


def generate():
    tree = ast.parse(open(os.path.join(REPO, SRC)).read())
    classes = {}
    for node in tree.body:
        if isinstance(node, ast.ClassDef):
            if node.name in classes:
                raise Unsupported('class %s defined twice' % node.name)
            classes[node.name] = node
        elif isinstance(node, (ast.FunctionDef, ast.Assign)):
            names = [node.name] if isinstance(node, ast.FunctionDef) else [ast.unparse(t) for t in node.targets]
            for n in names:
                if n in ERR_CLASSES or n in ('FormatString', 'Conversion', 'VariableWidth', 'VariablePrecision', '_info', 'next', 'enumerate',
                                             'len', 'int', 'isinstance', 'frozenset', 'IndexError', 'StopIteration', 'collections'):
                    raise Unsupported('module-level rebinding of ' + n)
    for c, base in ERR_CLASSES.items():
        if c not in classes or [ast.unparse(b) for b in classes[c].bases] != [base] or classes[c].keywords or classes[c].decorator_list:
            raise Unsupported('exception class %s is not `class %s(%s)`' % (c, c, base))
        for st in classes[c].body:
            if not (isinstance(st, ast.Assign) and ast.unparse(st.targets[0]) == 'message' and isinstance(st.value, ast.Constant)):
                raise Unsupported('body of class ' + c)
    types = {}
    for c in ('VariableWidth', 'VariablePrecision'):
        node = classes.get(c)
        if node is None or node.bases or node.decorator_list or len(node.body) != 2:
            raise Unsupported('class ' + c)
        a, f = node.body
        if not (isinstance(a, ast.Assign) and ast.unparse(a.targets[0]) == 'type' and isinstance(a.value, ast.Constant) and isinstance(a.value.value, str)
                and len(a.value.value) > 1 and isinstance(f, ast.FunctionDef) and ast.unparse(f).split('\n') == ['def __init__(self, parent):', '    self.parent = parent']):
            raise Unsupported('class %s is not `type = <str>` + the trivial constructor' % c)
        types[c] = a.value.value

    def methods(c):
        node = classes.get(c)
        if node is None or node.bases or node.decorator_list:
            raise Unsupported('class ' + c)
        out = {}
        for st in node.body:
            if not isinstance(st, ast.FunctionDef) or st.name in out:
                raise Unsupported('unexpected statement in class ' + c)
            out[st.name] = st
        return out
    fs, cv = methods('FormatString'), methods('Conversion')
    if sorted(fs) != ['__init__', '__iter__', '__len__', 'add_argument', 'warn'] or sorted(cv) != ['__init__']:
        raise Unsupported('methods of FormatString / Conversion')
    if ast.unparse(fs['warn']).split('\n') != ['def warn(self, exc_type, *args, **kwargs):', '    ' + WARN_TEXT]:
        raise Unsupported('FormatString.warn is not `%s`' % WARN_TEXT)
    check_args(fs['__init__'], ['self', 's'], [])
    check_args(fs['add_argument'], ['self', 'key', 'arg'], [])
    check_args(cv['__init__'], ['self', 'parent', 's'], [n for n, _ in CONV_PARAMS])

    out = ['(* generated by tools/gen/gen_fmtpython_src.py from %s of the working tree; do not edit *)' % SRC,
           'From Coq Require Import List NArith ZArith Bool.',
           'From I18n Require Import Lib.Outcome Model.FmtPython Model.FmtPythonPy.',
           'Import ListNotations.', '',
           '(* `type` of an object stored in the argument lists: class attribute of VariableWidth / VariablePrecision, self.type of a Conversion *)',
           'Definition src_arg_type (a : parg) : pystr :=\n  match a with AVarWidth => %s | AVarPrec => %s | AConv t => t end.' % (
               lit_str(types['VariableWidth']), lit_str(types['VariablePrecision'])), '']

    f = Fn(tree, 'FormatString', fs['add_argument'])
    env = {'self._seq_arguments': 'args', 'self._map_arguments': 'map', 'key': 'optstr', 'arg': 'arg'}
    params = [('a__seq_arguments', 'list parg'), ('a__map_arguments', 'argmap'), ('v_key', 'option pystr'), ('v_arg', 'parg')]
    out.append(f.translate(params, env, lambda e: ['self._seq_arguments', 'self._map_arguments']))
    out.append('')

    f = Fn(tree, 'Conversion', cv['__init__'])
    f.coqname = 'src_Conversion_init'
    env = {'parent.' + x: ATTR_KINDS[x] for x in PARENT}
    env['s'] = 'str'
    env.update(CONV_PARAMS)
    params = [(gvar('parent.' + x), TYPES[ATTR_KINDS[x]]) for x in PARENT] + [('v_s', 'pystr')] + [(gvar(n), TYPES[kd]) for n, kd in CONV_PARAMS]
    out.append(f.translate(params, env, lambda e: ['parent.' + x for x in PARENT]))
    out.append('')

    f = Fn(tree, 'FormatString', fs['__init__'])
    f.coqname = 'src_FormatString_init'

    def public(e):
        return [n for n in e if n.startswith('self.') and not n.startswith('self._')]
    out.append(f.translate([('v_s', 'pystr')], {'s': 'str'}, public))
    return '\n'.join(out) + '\n'


def main(emit):
    try:
        text = generate()
    except Exception as exc:
        # fail closed: the file below compiles (so its .vo is replaced) but defines none of the functions
        why = ('%s: %s' % (type(exc).__name__, exc)).replace('(*', '( *').replace('*)', '* )')
        emit('FmtPythonSrc.v', '(* TRANSLATION FAILED: %s *)\nDefinition fmtpython_source_translation_failed := tt.\n' % why)
        raise
    emit('FmtPythonSrc.v', text)


if __name__ == '__main__':
    main(lambda name, text: print(text))

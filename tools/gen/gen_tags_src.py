"""Source translator for C02:  lib/tags.py (OrderedEnum, severities, certainties, _is_safe, safestr, _escape, safe_format,
Tag.get_priority, Tag.get_colors, Tag.format) and lib/terminal.py (attr_fg, attr_reset)  ->  coq/Generated/TagsSrc.v
(python `ast` -> Gallina text).  Proofs/TagsSrc.v proves every generated definition equal to the hand-written model
(Model/Tags.v, Model/Terminal.v); Props/C02.v restates that (C02_source_tie_*).  An edit of that Python code changes the
generated text and those proofs no longer compile.
FAIL CLOSED: anything outside the subset below raises Unsupported; that definition (and every one calling it) is then
emitted with type `unit` (its tie lemma cannot compile) and main() exits non-zero after writing the file.

Result of a function: `sres T` (Lib/PySrc.v): `return e` -> SRet e; an exception -> SRaise; every path must end in `return e`.
Vocabulary: Model/TagsPy.v (is_safestr is_bytes content py_str text_eqb nonempty or_else dict_get smap), Lib/PySrc.v (sbind1),
and from Model/Tags.v only the type `arg`, in_range and join.  str / bytes = list N (code points / byte values).

Interface (table SPEC: signature that must match up to the names of positional / starred parameters, kinds of the
parameters, kind returned).  Kinds: str, bytes, bool,
obj (a value handed to _escape: Model/Tags.v `arg`; obj:safestr / obj:bytes after a positive isinstance test), objs (tuple of
obj: *args), kwobjs (**kwargs: list of (name, obj), names distinct), strs, kwstrs, colour (a terminal.colors value, abstract
type C), pair (2-tuple of str), optbytes (None or bytes), enum:E (a member of E, represented by its .value), truth.
self.severity / self.certainty / self.name -> parameters self_severity, self_certainty : N (the member's value), self_name.
Oracles (parameters, added where used; external code, exactly the oracles of the hand-written model):
  repr_str, repr_bytes = repr() of a str / bytes;  str_format t a k = t.format(*a, **k) (may raise);  tigetstr, tparm =
  _curses.*;  strip_delay = terminal._strip_delay (the regex substitution itself is NOT translated);  decode = bytes.decode()
  (may raise);  colors NAME = terminal.colors.NAME (NAME must be assigned in class colors).

Module level.
  E = OrderedEnum('X', [names]) -> src_E : list (list N); member values are 1, 2, ... in list order (functional Enum API).
  class OrderedEnum(enum.Enum) decorated with functools.total_ordering and consisting of exactly __lt__, __eq__, __hash__:
    __lt__ / __eq__ must be `if type(self) is not type(other): return NotImplemented` + `return self.value OP other.value`
    -> src_enum_lt / src_enum_eq (a b : N) := a OP b  (both operands members of one enum);  __hash__ must return self.value.
  _is_safe = re.compile(r'\\A[CLASS]+\\Z').match, CLASS = single characters and ranges x-y (a final `-` is literal)
    -> src_is_safe s := s is not empty and every character is in CLASS;  class safestr(str): pass  must be exactly that.
Expressions.
  str / bytes literal -> its list;  local name;  f'..{e}..' (no conversion, no format spec; e of kind str) and a + b on str -> ++
  isinstance(x, safestr | bytes) -> is_safestr x | is_bytes x;  x of kind obj:safestr used as a str -> content x
  repr(x): x str -> repr_str x; x obj:bytes -> repr_bytes (content x).   str(x): x obj -> py_str repr_bytes x
  x[1:] on a str -> tl x;   'ab'[c] (a 2-character literal, c of kind bool) -> if c then "b" else "a"
  a == b, a != b on str -> text_eqb;  truth of a str / bytes / tuple -> nonempty;  X or b'..' (X optbytes) -> or_else X ..
  E.name (E one of the enums, or a local alias of it) -> the member's value;  a < b, a == b on enum:E -> src_enum_lt, src_enum_eq;
    total_ordering: a >= b -> negb (a < b);  a <= b -> a < b || a == b;  a > b -> negb (a < b) && negb (a == b);  != -> negb ==
  {k: v, ...}[x] (keys distinct members of one enum) / dict(K=v, ...)[x] (x str) -> dict_get eqb [(k, v); ...] x : KeyError if
    absent; the values are evaluated first and must not contain calls
  safestr(x) -> ASafe x;  _is_safe(x) -> src_is_safe x (kind truth);  _strip_delay(x) -> strip_delay x;  str.join(s, l) -> join s l
  _curses.tigetstr('cap') -> tigetstr "cap";  _curses.tparm(s, i) -> tparm s i;  terminal.colors.NAME -> colors "NAME";  (a, b)
Calls that may raise are hoisted, in evaluation order, in front of the statement as `sbind1 CALL (fun tN => ..)` (expressions
  are otherwise pure; such a call is rejected under `or` and inside dict values, where evaluation is conditional / eager):
  f(args) for a translated f (_escape, self.get_priority(), self.get_colors(), terminal.attr_fg(n), terminal.attr_reset());
  x.decode();  t.format(*a, **k);  D[x];  [e for v in l] -> smap (fun v => ..) l;  map(f, l) likewise, but only directly as
  the argument of str.join (a map object is a one-shot lazy iterator: it may not be stored);
  {k: e for k, v in d.items()} -> smap over the pairs of d.
Statements.  v = e, a = b = e, (a, b) = e (e a pair), v += e -> let;  V = <enum> only records the alias;
  D = {..} / D = dict(..) only records the (pure) display, which is translated where D[x] is used;
  if / elif / else -> if c then (A; rest) else (B; rest) (rest duplicated; after `if isinstance(v, K):` v has kind obj:K in A);
  return e.  Anything else raises.
NOT translated (tied by the harness correspondence only): the regex of terminal._strip_delay and terminal.initialize; the Tag
  constructor and registry (_set_*, _read_tags: Generated/TagsData.v); repr() / str.isprintable (CPython, Model/Tags.v repr_str).
"""
import ast
import os
import re
import string

REPO = os.environ.get('VERIF_REPO') or '/repo'
TYPES = {'str': 'list N', 'bytes': 'list N', 'bool': 'bool', 'obj': 'arg', 'obj:safestr': 'arg', 'obj:bytes': 'arg', 'objs': 'list arg',
         'kwobjs': 'list (list N * arg)', 'strs': 'list (list N)', 'kwstrs': 'list (list N * list N)', 'colour': 'C',
         'pair': '(list N * list N)', 'optbytes': 'option (list N)'}
ORACLES = [('repr_str', 'list N -> list N'), ('repr_bytes', 'list N -> list N'),
           ('str_format', 'list N -> list (list N) -> list (list N * list N) -> sres (list N)'),
           ('tigetstr', 'list N -> option (list N)'), ('strip_delay', 'list N -> list N'), ('tparm', 'list N -> C -> list N'),
           ('decode', 'list N -> sres (list N)'), ('colors', 'list N -> C')]
SELF = {'severity': 'enum:severities', 'certainty': 'enum:certainties', 'name': 'str'}
# python name -> (module, class, coq name, text of the signature, kinds of the parameters, kind returned)
SPEC = {
    'attr_fg': ('terminal', None, 'src_attr_fg', 'i', {'i': 'colour'}, 'str'),
    'attr_reset': ('terminal', None, 'src_attr_reset', '', {}, 'str'),
    '_escape': ('tags', None, 'src_escape', 's', {'s': 'obj'}, 'str'),
    'safe_format': ('tags', None, 'src_safe_format', 'template, *args, **kwargs', {'template': 'str', 'args': 'objs', 'kwargs': 'kwobjs'}, 'obj'),
    'get_priority': ('tags', 'Tag', 'src_get_priority', 'self', {}, 'str'),
    'get_colors': ('tags', 'Tag', 'src_get_colors', 'self', {}, 'pair'),
    'format': ('tags', 'Tag', 'src_format', 'self, target, *extra, color=False', {'target': 'str', 'extra': 'objs', 'color': 'bool'}, 'str'),
}
ENUMS = {}     # 'severities' -> [member names]
COLORS = set()  # names assigned in class colors of terminal.py
DONE = {}      # python name -> Fn (translated)
NCMP = {ast.Lt: '(a <? b)', ast.LtE: '(a <=? b)', ast.Gt: '(b <? a)', ast.GtE: '(b <=? a)', ast.Eq: '(a =? b)', ast.NotEq: '(negb (a =? b))'}


class Unsupported(Exception):
    pass


def bad(node, why):
    raise Unsupported('%s: line %s: %s' % (why, getattr(node, 'lineno', '?'), ast.unparse(node)[:100]))


def lit(s):
    return '[' + '; '.join(str(c if isinstance(c, int) else ord(c)) for c in s) + ']'


def ind(t):
    return '\n'.join('  ' + ln for ln in t.split('\n'))


def is_doc(s):
    return isinstance(s, ast.Expr) and isinstance(s.value, ast.Constant) and isinstance(s.value.value, str)


class Fn:
    def __init__(self, pyname, fdef):
        self.mod, self.cls, self.coq, self.sig, self.kinds, self.ret = SPEC[pyname]
        self.fdef, self.ctx, self.selfattrs, self.pending, self.n = fdef, [], [], [], 0

    def use(self, o):
        if o not in self.ctx:
            self.ctx.append(o)
        return o

    def hoist(self, text, kind):
        self.n += 1
        self.pending.append(('t%d' % self.n, text))
        return ('t%d' % self.n, kind)

    def take(self, since=0):
        p, self.pending = self.pending[since:], self.pending[:since]
        return p

    @staticmethod
    def wrap(p, body):
        for v, t in reversed(p):
            body = 'sbind1 (%s) (fun %s =>\n%s)' % (t, v, body)
        return body

    def pure(self, e, env):
        n0 = len(self.pending)
        r = self.ex(e, env)
        if len(self.pending) != n0:
            bad(e, 'a call that may raise, where evaluation is conditional or eager')
        return r

    def as_str(self, e, env):
        t, k = self.ex(e, env)
        if k == 'obj:safestr':
            return '(content %s)' % t
        if k != 'str':
            bad(e, 'str expected, got ' + k)
        return t

    def callee(self, f):
        """the translated function a call target names, or None"""
        if isinstance(f, ast.Name):
            key, ok = f.id, lambda fn: fn.mod == self.mod and fn.cls is None
        elif isinstance(f, ast.Attribute) and isinstance(f.value, ast.Name) and f.value.id == 'self':
            key, ok = f.attr, lambda fn: fn.cls is not None and fn.cls == self.cls
        elif isinstance(f, ast.Attribute) and isinstance(f.value, ast.Name) and f.value.id == 'terminal' and self.mod == 'tags':
            key, ok = f.attr, lambda fn: fn.mod == 'terminal'
        else:
            return None
        return DONE[key] if key in DONE and ok(DONE[key]) else None

    def apply(self, fn, args):
        for a in fn.selfattrs:
            if a not in self.selfattrs:
                self.selfattrs.append(a)
        return ' '.join([fn.coq] + [self.use(o) for o, _ in ORACLES if o in fn.ctx] + ['self_' + a for a in SELF if a in fn.selfattrs] + args)

    # ------------------------------------------------------------ expressions -> (text, kind)
    def ex(self, e, env):
        if isinstance(e, ast.Constant) and type(e.value) in (str, bytes):
            return (lit(e.value), 'str' if type(e.value) is str else 'bytes')
        if isinstance(e, ast.Name):
            if e.id in env and env[e.id][1] != 'dictexpr':
                return env[e.id]
            if e.id in ENUMS and self.mod == 'tags':
                return ('', 'enumcls:' + e.id)
        elif isinstance(e, ast.Attribute):
            if isinstance(e.value, ast.Name) and e.value.id == 'self' and self.cls and e.attr in SELF and 'self' not in env:
                if e.attr not in self.selfattrs:
                    self.selfattrs.append(e.attr)
                return ('self_' + e.attr, SELF[e.attr])
            if ast.unparse(e.value) == 'terminal.colors' and self.mod == 'tags' and e.attr in COLORS and 'terminal' not in env:
                return ('(%s %s)' % (self.use('colors'), lit(e.attr)), 'colour')
            t, k = self.ex(e.value, env)
            if k.startswith('enumcls:') and e.attr in ENUMS[k[8:]]:
                return ('%d' % (ENUMS[k[8:]].index(e.attr) + 1), 'enum:' + k[8:])
        elif isinstance(e, ast.JoinedStr):
            parts = []
            for v in e.values:
                if isinstance(v, ast.Constant) and type(v.value) is str:
                    parts.append(lit(v.value))
                elif isinstance(v, ast.FormattedValue) and v.conversion == -1 and v.format_spec is None:
                    parts.append(self.as_str(v.value, env))
                else:
                    bad(e, 'f-string field')
            return ('(%s)' % ' ++ '.join(parts or ['[]']), 'str')
        elif isinstance(e, ast.BinOp) and isinstance(e.op, ast.Add):
            return ('(%s ++ %s)' % (self.as_str(e.left, env), self.as_str(e.right, env)), 'str')
        elif isinstance(e, ast.BoolOp) and isinstance(e.op, ast.Or) and len(e.values) == 2:
            (a, ka), (b, kb) = self.pure(e.values[0], env), self.pure(e.values[1], env)
            if (ka, kb) == ('optbytes', 'bytes'):
                return ('(or_else %s %s)' % (a, b), 'bytes')
        elif isinstance(e, ast.UnaryOp) and isinstance(e.op, ast.Not):
            return ('(negb %s)' % self.truth(e.operand, env), 'bool')
        elif isinstance(e, ast.Compare) and len(e.ops) == 1:
            (a, ka), (b, kb), op = self.ex(e.left, env), self.ex(e.comparators[0], env), type(e.ops[0])
            if ka == kb and ka.startswith('enum:'):
                lt, eq = '(src_enum_lt %s %s)' % (a, b), '(src_enum_eq %s %s)' % (a, b)
                tab = {ast.Lt: lt, ast.GtE: '(negb %s)' % lt, ast.LtE: '(%s || %s)' % (lt, eq), ast.Gt: '(negb %s && negb %s)' % (lt, eq),
                       ast.Eq: eq, ast.NotEq: '(negb %s)' % eq}
                if op in tab:
                    return (tab[op], 'bool')
            if ka == kb and ka in ('str', 'bytes') and op in (ast.Eq, ast.NotEq):
                return (('(text_eqb %s %s)' if op is ast.Eq else '(negb (text_eqb %s %s))') % (a, b), 'bool')
        elif isinstance(e, ast.Subscript):
            return self.subscript(e, env)
        elif isinstance(e, ast.Tuple) and len(e.elts) == 2:
            return ('(%s, %s)' % (self.as_str(e.elts[0], env), self.as_str(e.elts[1], env)), 'pair')
        elif isinstance(e, (ast.ListComp, ast.DictComp)) and len(e.generators) == 1:
            return self.comprehension(e, e.generators[0], env)
        elif isinstance(e, ast.Call):
            return self.call(e, env)
        bad(e, 'expression')

    def truth(self, e, env):
        t, k = self.ex(e, env)
        if k in ('bool', 'truth'):
            return t
        if k in ('str', 'bytes', 'objs', 'strs'):
            return '(nonempty %s)' % t
        bad(e, 'truth value of ' + k)

    def subscript(self, e, env):
        v, s, denv = e.value, e.slice, env
        if isinstance(v, ast.Name) and env.get(v.id, ('', ''))[1] == 'dictexpr':      # D = {..}; ..; D[x]
            v, denv = env[v.id][0], env[v.id][2]
        if isinstance(s, ast.Slice):
            if ast.unparse(s) == '1:':
                return ('(tl %s)' % self.as_str(v, env), 'str')
            bad(e, 'slice')
        if isinstance(v, ast.Constant) and type(v.value) is str and len(v.value) == 2:
            c, k = self.pure(s, env)
            if k == 'bool':      # False == 0, True == 1; both indexes exist
                return ('(if %s then %s else %s)' % (c, lit(v.value[1]), lit(v.value[0])), 'str')
            bad(e, 'index of kind ' + k)
        if isinstance(v, ast.Dict) and v.keys and all(k is not None for k in v.keys):
            keys, eqb = [self.pure(k, denv) for k in v.keys], 'src_enum_eq'
            if len({k for _, k in keys}) != 1 or not keys[0][1].startswith('enum:') or len({t for t, _ in keys}) != len(keys):
                bad(v, 'dict keys must be distinct members of one enum')
            vals = [self.pure(x, denv) for x in v.values]
        elif isinstance(v, ast.Call) and ast.unparse(v.func) == 'dict' and 'dict' not in denv and not v.args and v.keywords and all(k.arg for k in v.keywords):
            keys, eqb = [(lit(k.arg), 'str') for k in v.keywords], 'text_eqb'
            vals = [self.pure(k.value, denv) for k in v.keywords]
        else:
            bad(e, 'subscript')
        x, kx = self.ex(s, env)
        if kx != keys[0][1] or len({k for _, k in vals}) != 1 or vals[0][1] not in TYPES:
            bad(e, 'dict lookup: kinds')
        return self.hoist('dict_get %s [%s] %s' % (eqb, '; '.join('(%s, %s)' % (k[0], x_[0]) for k, x_ in zip(keys, vals)), x), vals[0][1])

    def comprehension(self, e, g, env):
        if g.ifs or g.is_async:
            bad(e, 'comprehension')
        n0 = len(self.pending)
        if isinstance(e, ast.ListComp) and isinstance(g.target, ast.Name):
            xs, k = self.pure(g.iter, env)
            v = 'v_' + g.target.id
            if k != 'objs':
                bad(e, 'comprehension over ' + k)
            body = 'SRet %s' % self.as_str(e.elt, dict(env, **{g.target.id: (v, 'obj')}))
            return self.hoist('smap (fun %s =>\n%s) %s' % (v, ind(self.wrap(self.take(n0), body)), xs), 'strs')
        it = g.iter
        if (isinstance(e, ast.DictComp) and isinstance(g.target, ast.Tuple) and len(g.target.elts) == 2 and all(isinstance(x, ast.Name) for x in g.target.elts)
                and isinstance(it, ast.Call) and isinstance(it.func, ast.Attribute) and it.func.attr == 'items' and not it.args and not it.keywords):
            xs, k = self.pure(it.func.value, env)
            a, b = ['v_' + x.id for x in g.target.elts]
            if k != 'kwobjs' or a == b or not (isinstance(e.key, ast.Name) and e.key.id == g.target.elts[0].id):
                bad(e, 'dict comprehension')
            val = self.as_str(e.value, dict(env, **{g.target.elts[0].id: (a, 'str'), g.target.elts[1].id: (b, 'obj')}))
            body = self.wrap(self.take(n0), 'SRet (%s, %s)' % (a, val))
            return self.hoist("smap (fun kv_ => let '(%s, %s) := kv_ in\n%s) %s" % (a, b, ind(body), xs), 'kwstrs')
        bad(e, 'comprehension')

    def call(self, e, env):
        f, args, kws = e.func, e.args, e.keywords
        name = ast.unparse(f)
        plain = not kws and not any(isinstance(a, ast.Starred) for a in args)
        shadow = isinstance(f, ast.Name) and f.id in env or isinstance(f, ast.Attribute) and isinstance(f.value, ast.Name) and f.value.id in env
        if shadow and not (isinstance(f, ast.Attribute) and f.attr in ('decode', 'format')):
            bad(e, 'call of a local')
        if plain and len(args) == 1:
            if name in ('repr', 'str'):
                t, k = self.ex(args[0], env)
                if name == 'repr' and k == 'str':
                    return ('(%s %s)' % (self.use('repr_str'), t), 'str')
                if name == 'repr' and k == 'obj:bytes':
                    return ('(%s (content %s))' % (self.use('repr_bytes'), t), 'str')
                if name == 'str' and k == 'obj':
                    return ('(py_str %s %s)' % (self.use('repr_bytes'), t), 'str')
                bad(e, '%s of %s' % (name, k))
            if name == 'safestr' and self.mod == 'tags':
                return ('(ASafe %s)' % self.as_str(args[0], env), 'obj:safestr')
            if name == '_is_safe' and self.mod == 'tags':
                return ('(src_is_safe %s)' % self.as_str(args[0], env), 'truth')
            if name == '_strip_delay' and self.mod == 'terminal' and self.ex(args[0], env)[1] == 'bytes':
                return ('(%s %s)' % (self.use('strip_delay'), self.ex(args[0], env)[0]), 'bytes')
            if name == '_curses.tigetstr' and self.mod == 'terminal' and isinstance(args[0], ast.Constant) and type(args[0].value) is str:
                return ('(%s %s)' % (self.use('tigetstr'), lit(args[0].value)), 'optbytes')
        if plain and len(args) == 2 and name == 'isinstance':
            a, ka = self.ex(args[0], env)
            if ka == 'obj' and isinstance(args[1], ast.Name) and args[1].id in ('safestr', 'bytes') and args[1].id not in env:
                return ('(is_%s %s)' % (args[1].id, a), 'bool')
        elif plain and len(args) == 2 and name == 'map':
            fn, (b, kb) = self.callee(args[0]), self.ex(args[1], env)
            if fn and list(fn.kinds.values()) == ['obj'] and fn.ret == 'str' and kb == 'objs' and args[0].id not in env:
                return self.hoist('smap (fun x_ => %s) %s' % (self.apply(fn, ['x_']), b), 'iter')
        elif plain and len(args) == 2 and name in ('_curses.tparm', 'str.join'):
            (a, ka), (b, kb) = self.ex(args[0], env), self.ex(args[1], env)
            if name == '_curses.tparm' and self.mod == 'terminal' and (ka, kb) == ('bytes', 'colour'):
                return ('(%s %s %s)' % (self.use('tparm'), a, b), 'bytes')
            if name == 'str.join' and ka == 'str' and kb in ('strs', 'iter'):
                return ('(join %s %s)' % (a, b), 'str')
        if isinstance(f, ast.Attribute) and f.attr == 'decode' and not args and not kws:
            t, k = self.ex(f.value, env)
            if k == 'bytes':
                return self.hoist('%s %s' % (self.use('decode'), t), 'str')
        if (isinstance(f, ast.Attribute) and f.attr == 'format' and len(args) == 1 and isinstance(args[0], ast.Starred)
                and len(kws) == 1 and kws[0].arg is None):
            (t, k), (a, ka), (b, kb) = self.ex(f.value, env), self.ex(args[0].value, env), self.ex(kws[0].value, env)
            if (k, ka, kb) == ('str', 'strs', 'kwstrs'):
                return self.hoist('%s %s %s %s' % (self.use('str_format'), t, a, b), 'str')
        fn = self.callee(f)
        if fn and plain and len(args) == len(fn.kinds) and not any(k in ('objs', 'kwobjs', 'bool') for k in fn.kinds.values()):
            ts = [self.ex(a, env) for a in args]
            if [k.split(':')[0] for _, k in ts] == list(fn.kinds.values()):
                return self.hoist(self.apply(fn, [t for t, _ in ts]), fn.ret)
        bad(e, 'call')

    # ------------------------------------------------------------ statements -> text
    def tr(self, stmts, env):
        if not stmts:
            bad(self.fdef, 'a path ends without `return <value>`')
        s, rest = stmts[0], stmts[1:]
        if self.pending:
            bad(s, 'internal: pending calls')
        if isinstance(s, ast.Return) and s.value is not None:
            if self.ret == 'str':
                t = self.as_str(s.value, env)
            else:
                t, k = self.ex(s.value, env)
                if k.split(':')[0] != self.ret:
                    bad(s, 'return of kind ' + k)
            return self.wrap(self.take(), 'SRet %s' % t)
        if isinstance(s, ast.AugAssign) and isinstance(s.target, ast.Name) and isinstance(s.op, ast.Add):
            s = ast.copy_location(ast.Assign([s.target], ast.BinOp(ast.Name(s.target.id, ast.Load()), s.op, s.value)), s)
        if (isinstance(s, ast.Assign) and len(s.targets) == 1 and isinstance(s.targets[0], ast.Name) and s.targets[0].id != 'self'
                and (isinstance(s.value, ast.Dict) or isinstance(s.value, ast.Call) and ast.unparse(s.value.func) == 'dict')):
            return self.tr(rest, dict(env, **{s.targets[0].id: (s.value, 'dictexpr', env)}))     # only usable as D[x]: translated there
        if isinstance(s, ast.Assign):
            t, k = self.ex(s.value, env)
            p, tg = self.take(), s.targets[0]
            if all(isinstance(x, ast.Name) and x.id != 'self' for x in s.targets):
                if k.startswith('enumcls:') and len(s.targets) == 1:
                    return self.tr(rest, dict(env, **{tg.id: (t, k)}))
                if k in TYPES or k.startswith('enum:'):
                    names = ['v_' + x.id for x in s.targets]
                    lets = ''.join('let %s := %s in\n' % (n, t if i == 0 else names[0]) for i, n in enumerate(names))
                    return self.wrap(p, lets + self.tr(rest, dict(env, **{x.id: ('v_' + x.id, k) for x in s.targets})))
            elif (len(s.targets) == 1 and isinstance(tg, ast.Tuple) and len(tg.elts) == 2 and k == 'pair'
                  and all(isinstance(x, ast.Name) and x.id != 'self' for x in tg.elts) and tg.elts[0].id != tg.elts[1].id):
                a, b = [x.id for x in tg.elts]
                return self.wrap(p, "let '(v_%s, v_%s) := %s in\n" % (a, b, t) + self.tr(rest, dict(env, **{a: ('v_' + a, 'str'), b: ('v_' + b, 'str')})))
            bad(s, 'assignment')
        if isinstance(s, ast.If):
            c = self.truth(s.test, env)
            p, envt, t = self.take(), env, s.test
            if (isinstance(t, ast.Call) and ast.unparse(t.func) == 'isinstance' and len(t.args) == 2 and isinstance(t.args[0], ast.Name)
                    and env.get(t.args[0].id, ('', ''))[1] == 'obj'):
                envt = dict(env, **{t.args[0].id: (env[t.args[0].id][0], 'obj:' + t.args[1].id)})
            return self.wrap(p, 'if %s then\n%s\nelse\n%s' % (c, ind(self.tr(s.body + rest, envt)), ind(self.tr(s.orelse + rest, env))))
        bad(s, 'statement')

    @staticmethod
    def shape(a):
        """(names of the positional / starred parameters, everything else of a signature).  Those names are free: every call site in
        /repo passes them positionally; keyword-only parameters (color=False) are part of the shape."""
        names = [x.arg for x in a.posonlyargs + a.args] + [x.arg for x in (a.vararg, a.kwarg) if x]
        kwonly = ast.unparse(ast.arguments(posonlyargs=[], args=[], vararg=None, kwonlyargs=a.kwonlyargs, kw_defaults=a.kw_defaults, kwarg=None, defaults=[]))
        return names, (len(a.posonlyargs), len(a.args), bool(a.vararg), bool(a.kwarg), kwonly, [ast.unparse(d) for d in a.defaults])

    def run(self):
        (ref, want), (names, got) = self.shape(ast.parse('def f(%s): pass' % self.sig).body[0].args), self.shape(self.fdef.args)
        if got != want or self.fdef.decorator_list or (ref[:1] == ['self']) != (names[:1] == ['self']) or len(set(names)) != len(names):
            bad(self.fdef, 'signature (expected the shape of `%s`)' % self.sig)
        self.kinds = {dict(zip(ref, names)).get(v, v): k for v, k in self.kinds.items()}
        for v in self.kinds:
            if v in ('self', 'terminal') or not v.isidentifier():
                bad(self.fdef, 'parameter name')
        body = self.tr([s for s in self.fdef.body if not is_doc(s)], {v: ('v_' + v, k) for v, k in self.kinds.items()})
        ps = ['(%s : %s)' % (o, ty) for o, ty in ORACLES if o in self.ctx]
        ps += ['(self_%s : %s)' % (a, 'N' if SELF[a].startswith('enum:') else TYPES[SELF[a]]) for a in SELF if a in self.selfattrs]
        ps += ['(v_%s : %s)' % (v, TYPES[k]) for v, k in self.kinds.items()]
        sig = ' '.join(ps)
        imp = ' {C : Type}' if any(w == 'C' for w in sig.replace('(', ' ').replace(')', ' ').split()) else ''
        return 'Definition %s%s%s : sres (%s) :=\n%s.' % (self.coq, imp, ' ' + sig if sig else '', TYPES[self.ret], ind(body))


# ---------------------------------------------------------------- module level
def parse(rel):
    return ast.parse(open(os.path.join(REPO, rel), encoding='utf-8').read())


def one(nodes, what):
    nodes = list(nodes)
    if len(nodes) != 1:
        raise Unsupported('expected exactly one %s, found %d' % (what, len(nodes)))
    return nodes[0]


def binders(tree, name):
    """every node anywhere in the module that (re)binds the global `name` (a parameter / local of that name is caught by `shadow`)"""
    return [s for s in ast.walk(tree) if
            isinstance(s, ast.Name) and isinstance(s.ctx, (ast.Store, ast.Del)) and s.id == name
            or isinstance(s, (ast.FunctionDef, ast.AsyncFunctionDef, ast.ClassDef)) and s.name == name
            or isinstance(s, ast.alias) and (s.asname or s.name.split('.')[0]) == name
            or isinstance(s, (ast.Global, ast.Nonlocal)) and name in s.names]


def top(tree, name, kind):
    """the single binding of `name` in the module: a top-level statement of class `kind`"""
    one(binders(tree, name), 'binding of ' + name)
    s = one((s for s in tree.body if isinstance(s, kind) and (getattr(s, 'name', None) == name or [ast.unparse(t) for t in getattr(s, 'targets', [])] == [name])),
            'top-level definition of ' + name)
    return s


def assigned(tree, name):
    return top(tree, name, ast.Assign).value


def gen_enums(tags):
    cls = top(tags, 'OrderedEnum', ast.ClassDef)
    if [ast.unparse(d) for d in cls.decorator_list] != ['functools.total_ordering'] or [ast.unparse(b) for b in cls.bases] != ['enum.Enum'] or cls.keywords:
        bad(cls, 'class header of OrderedEnum')
    body = [s for s in cls.body if not is_doc(s)]
    if sorted(getattr(s, 'name', '?') for s in body) != ['__eq__', '__hash__', '__lt__'] or not all(isinstance(s, ast.FunctionDef) for s in body):
        bad(cls, 'OrderedEnum must consist of __lt__, __eq__, __hash__')
    out, found = [], {}
    for m in body:
        st = [s for s in m.body if not is_doc(s)]
        if m.decorator_list or ast.unparse(m.args) != ('self' if m.name == '__hash__' else 'self, other'):
            bad(m, 'signature')
        if m.name == '__hash__':
            if [ast.unparse(s) for s in st] != ['return self.value']:
                bad(m, '__hash__')
            continue
        r = st[-1]
        if (len(st) != 2 or ast.unparse(st[0]) != 'if type(self) is not type(other):\n    return NotImplemented' or not isinstance(r, ast.Return)
                or not isinstance(r.value, ast.Compare) or len(r.value.ops) != 1 or type(r.value.ops[0]) not in NCMP
                or ast.unparse(r.value.left) != 'self.value' or ast.unparse(r.value.comparators[0]) != 'other.value'):
            bad(m, 'body of ' + m.name)
        out.append('(* OrderedEnum.%s for two members of one enum; a, b = self.value, other.value *)\nDefinition src_enum_%s (a b : N) : bool := %s.'
                   % (m.name, m.name.strip('_'), NCMP[type(r.value.ops[0])]))
    for name in ('severities', 'certainties'):
        v = assigned(tags, name)
        if not (isinstance(v, ast.Call) and ast.unparse(v.func) == 'OrderedEnum' and not v.keywords and len(v.args) == 2 and isinstance(v.args[1], ast.List)
                and all(isinstance(x, ast.Constant) and type(x.value) is str for x in [v.args[0]] + v.args[1].elts)):
            bad(v, 'definition of ' + name)
        names = [x.value for x in v.args[1].elts]
        if not names or len(set(names)) != len(names):
            bad(v, 'member names')
        found[name] = names
        out.append('(* %s = %s: member values 1.. in this order *)\nDefinition src_%s : list (list N) := [%s].' % (name, ast.unparse(v)[:60], name, '; '.join(lit(n) for n in names)))
    ENUMS.update(found)
    return '\n'.join(out)


def gen_is_safe(tags):
    v = assigned(tags, '_is_safe')
    if not (isinstance(v, ast.Attribute) and v.attr == 'match' and isinstance(v.value, ast.Call) and ast.unparse(v.value.func) == 're.compile' and not v.value.keywords
            and len(v.value.args) == 1 and isinstance(v.value.args[0], ast.Constant) and type(v.value.args[0].value) is str):
        bad(v, 'definition of _is_safe')
    pat = v.value.args[0].value
    if not (pat.startswith('\\A[') and pat.endswith(']+\\Z') and len(pat) > 8):
        bad(v, 'pattern must be \\A[CLASS]+\\Z')
    body, items, i = pat[3:-4], [], 0
    plain = set(string.ascii_letters + string.digits + '_.!<>=,:;@%/+~#&')
    while i < len(body):
        c = body[i]
        if i + 2 < len(body) and body[i + 1] == '-':
            d = body[i + 2]
            if not (c.isalnum() and d.isalnum() and c.isascii() and d.isascii() and ord(c) <= ord(d)):
                bad(v, 'range %s-%s in the character class' % (c, d))
            items.append('in_range %d %d c' % (ord(c), ord(d)))
            i += 3
        elif c in plain or (c == '-' and i == len(body) - 1):
            items.append('N.eqb c %d' % ord(c))
            i += 1
        else:
            bad(v, 'character %r in the character class' % c)
    cls = top(tags, 'safestr', ast.ClassDef)
    if ast.unparse(cls) != 'class safestr(str):\n    pass':
        bad(cls, 'class safestr must be an empty subclass of str')
    return ('(* _is_safe = %s *)\nDefinition src_is_safe_char (c : N) : bool :=\n  %s.\n'
            'Definition src_is_safe (s : list N) : bool := match s with [] => false | _ => forallb src_is_safe_char s end.' % (ast.unparse(v), '\n  || '.join(items)))


def find_def(tree, pyname):
    mod, cls, *_ = SPEC[pyname]
    if cls is None:
        return top(tree, pyname, ast.FunctionDef)
    return one((f for f in top(tree, cls, ast.ClassDef).body if pyname in [getattr(f, 'name', None)] + [ast.unparse(t) for t in getattr(f, 'targets', [])]),
               'definition of %s.%s' % (cls, pyname))


def main(emit):
    out = ['(* generated by tools/gen/gen_tags_src.py from the python ast of lib/tags.py and lib/terminal.py - do not edit *)',
           'From Coq Require Import List NArith Bool.', 'From I18n Require Import Lib.Outcome Lib.PySrc Model.Tags Model.TagsPy.',
           'Import ListNotations.', 'Local Open Scope N_scope.', 'Local Open Scope bool_scope.', '']
    errors = []
    ENUMS.clear(), COLORS.clear(), DONE.clear()
    trees = {}

    def load():
        trees['tags'], trees['terminal'] = parse('lib/tags.py'), parse('lib/terminal.py')
        imp = [a for s in trees['tags'].body if isinstance(s, ast.ImportFrom) and s.module == 'lib' and s.level == 0 for a in s.names if a.name == 'terminal' and a.asname is None]
        one(imp, '`from lib import terminal`')
        one(binders(trees['tags'], 'terminal'), 'binding of terminal')
        top(trees['terminal'], '_strip_delay', ast.Assign)     # bound once; WHAT it is bound to is not looked at (oracle strip_delay)
        for t in trees.values():     # the builtins the rules give a meaning to are the builtins
            for b in ('repr', 'str', 'bytes', 'isinstance', 'type', 'map', 'dict', 'functools', 'enum', 're'):
                if [x for x in binders(t, b) if not (isinstance(x, ast.alias) and x.name == b and x.asname is None)]:
                    raise Unsupported('the name %s is rebound' % b)
        tag = top(trees['tags'], 'Tag', ast.ClassDef)     # self.severity / .certainty / .name are plain instance attributes
        hooks = {'__getattr__', '__getattribute__', '__slots__', '__setattr__'} | set(SELF)
        if tag.bases or tag.keywords or tag.decorator_list or any(getattr(x, 'name', None) in hooks or getattr(x, 'id', None) in hooks for st in tag.body for x in [st] + [
                t for t in getattr(st, 'targets', [])]):
            bad(tag, 'class Tag must be a plain class without attribute hooks')
        col = one((c for c in trees['terminal'].body if isinstance(c, ast.ClassDef) and c.name == 'colors'), 'class colors')
        COLORS.update(t.id for s in col.body if isinstance(s, ast.Assign) for t in s.targets if isinstance(t, ast.Name))
        return '(* terminal.colors has: %s *)' % ' '.join(sorted(COLORS))

    def fn(pyname):
        def job():
            f = find_def(trees[SPEC[pyname][0]], pyname)
            if not isinstance(f, ast.FunctionDef):
                bad(f, 'not a plain function')
            t = Fn(pyname, f)
            text = t.run()
            DONE[pyname] = t
            return '(* %s.%s%s *)\n%s' % (t.mod, t.cls + '.' if t.cls else '', pyname, text)
        return job
    jobs = [('src_sources', load), ('src_enum_lt src_enum_eq src_severities src_certainties', lambda: gen_enums(trees['tags'])),
            ('src_is_safe_char src_is_safe', lambda: gen_is_safe(trees['tags']))] + [(SPEC[p][2], fn(p)) for p in SPEC]
    failed = set()
    for names, job in jobs:
        try:
            text = job()
            dead = failed & set(re.findall(r'\bsrc_\w+', text))
            if dead:     # the generated file must always compile: a definition that mentions an untranslatable one is untranslatable
                raise Unsupported('uses %s, which could not be translated' % ' '.join(sorted(dead)))
            out.append(text + '\n')
        except (Unsupported, KeyError, ValueError, IndexError, AttributeError, TypeError, OSError, SyntaxError) as e:
            msg = '%s: %s: %s' % (names, type(e).__name__, e)
            errors.append(msg)
            failed.update(names.split())
            out.append('(* NOT TRANSLATABLE - %s *)' % msg.replace('*)', '* )').replace('(*', '( *').replace('"', "'"))
            out += ['Definition %s : unit := tt.' % n for n in names.split()] + ['']
    emit('TagsSrc.v', '\n'.join(out))
    if errors:
        raise SystemExit('gen_tags_src: the source left the supported subset (tie broken):\n  ' + '\n  '.join(errors))


if __name__ == '__main__':
    import gen_tables
    main(gen_tables.emit)

"""Source translator for C16:  lib/check/__init__.py  `is_header_entry`, `Checker._check_message_flags`,
`Checker._check_message_xml_format`, `Checker._check_message_formats`, `Checker.check_messages` (and the keys of the dict
literal `self._message_format_checkers` in `Checker.__init__`)  ->  coq/Generated/MessagesSrc.v  (python `ast` -> Gallina text).

Proofs/MessagesSrc*.v prove every generated definition equal to the hand-written model (Model/Messages.v); Props/C16.v restates
that (C16_source_tie_*).  An edit of the Python code changes the generated text and breaks those proofs.
FAIL CLOSED: any construct outside the subset below raises Unsupported; that function is then emitted with type `unit` (its tie
lemma and every caller stop compiling) and main() exits non-zero after writing the file (gen_rc != 0 = broken tie).
The Gallina helpers (py_*, pd_*, ps_*, re_range, pyinfo, msg_view) are hand-written in coq/Model/MessagesPy.v.

SHAPE.  A function becomes one Definition; a statement becomes `let v_<name> := e in` (total) or `do t <- e;` (an operation that
can raise: the outcome monad, Crash = the exception; tags emitted before an exception are lost, as in the model).  A block is a
pure expression when it contains no operation that can raise, otherwise it is in the monad (and ends `Ok (..)`).  `out` is the list
of tags emitted so far.  Values have no identity: an in-place update of a list / set / dict that was given a second name
(x = y, x = d[k], [x] = d.values()) is rejected.
  x = e;  x op= e (+= on counts and lists, |= on sets);  a.f = e (a = types.SimpleNamespace(): one variable per field);
  d[k] = e; d[k][k2] = e; d[k] += e; d[k][k2] += e -> rebinding of x / d (pd_set; inner values are read with the default of a
        Counter / defaultdict; python's order: container and keys of an augmented target before the value, otherwise value first)
  i, j = map(int, m.groups())   -> do i <- py_int maxd (fst m); do j <- py_int maxd (snd m)   (m matched by the 2-group range regex)
  [a, b] = heapq.nsmallest(2, S) -> do (a, b) <- py_two_smallest cmp S;      [x] = L -> do x <- py_single L
  self.tag(NAME, args..)  -> out ++ [CTOR data..] (table TAGS); message_repr(..) / the variable bound to it are decoration and dropped;
        tags.safestr(e) -> e; tags.safe_format(f'(implied by {e})') -> e.  Inside the loop over ctx.file a tag is AtMsg <position> (..).
  v = self._check_message_flags(message) / self._check_message_formats(ctx, message, flags) / self._check_message_xml_format(..)
        -> do r <- src_<callee> ..; the callee's tags are appended to out;  is_header_entry(message) -> src_is_header_entry e
  checker.check_message(ctx, message, flags) -> out ++ [MDispatch <key the checker was looked up with>]
  if c: A else: B  where a branch ENDS in continue / break / return (only at the top level of a loop / function body, not inside a
        merged branch): `if c then A else B`, the statements after the `if` go into the branch that does not jump;
     otherwise a MERGE: `let '(vars) := if c then A;(vars) else B;(vars) in`, vars = the variables assigned in A or B that may be read
        later.  A variable bound on one side only becomes an `option` (Some = bound); reading it is `do x <- py_bound v` (Crash
        CUnboundLocal, proved dead).  The types of the two sides are joined: None | T -> option T, 1e999 | int -> option Z (None = inf).
  if x is None / if x is not None, x a variable or message.<field> of optional type -> `match x with Some x => .. | None => ..`
        (x has the narrowed type in each branch); on a value that is None on every path only the live branch is translated
  for T in L: body -> py_fold / py_forb (break) / py_for (can raise) L (state) (fun st x => ..): state = the variables assigned in the
        body that were bound before the loop and may be read in a later iteration or after the loop; other variables assigned in the
        body are local to ONE iteration and unknown after the loop (a read of a stale value from an earlier iteration is therefore
        a read of an unbound variable: rejected, or Crash CUnboundLocal, which no outcome of the model is).
        L must be ordered (a list, sorted(..), a literal); `for message in ctx.file` iterates py_enumerate cat (position, (entry, view)).
        continue / break as above; loop `else` is not supported.
  try: v = self._message_format_checkers[k]  except KeyError: continue  -> `if ps_mem str_eqb k src_format_checkers then .. else <continue>`
  try: xml.check_fragment(s)  except xml.SyntaxError as exc: H   -> `match c_xml cfg s with Some exc => H | None => .. end` (the expat oracle)
  return e / return / end of body -> Ok (out, e) / Ok out;  is_header_entry is a pure boolean function.
EXPRESSIONS (typed; an operation that can raise is hoisted, in evaluation order, in front of its statement, and is rejected inside
  the later operands of and / or and inside generator expressions):
  constants; names; == != < > <= >= on numbers, strings (code point order), bools, optional values; `in` a set literal / dict;
  not / and / or; bool(x), truth of str / list / set = non-empty; x or '' for an optional string;
  s.startswith(c) s.endswith(c) s.strip(c) s.rstrip(c) s[k:] s[len(p):-m] len(..);  [..] lists, 2-tuples, {..} set literals
  set() set(l) frozenset(d) | - & sorted(S) len(S) -> ps_* (a list stands for the set of its elements);
  Counter() Counter(l) defaultdict(dict) defaultdict(Counter) -> association lists, newest binding first (pd_*):
     d[k]: dict -> pd_item (KeyError); Counter -> 0 when missing; defaultdict (a local variable) -> the default, and because the
     insertion of the default is not represented, len / keys / values / items / `in` of THAT defaultdict are rejected on every path
     that continues from such a read (until the variable is rebound);
     sorted(d.items()) (by key: keys are distinct) d.keys() (a set) d.values() (a bag: only sum / any / all / [x] =) len(d)
  any(l) all(l) any(<cond> for x in l); min(S) -> py_min (ValueError); sum(bag)
  EXTERNAL, kept as in the model: find_unusual_characters(s) -> find_unusual (c_isword cfg) s; gettext.search_for_conflict_marker(s) ->
  search_marker s (.group(0) = the line found); re.match(<the range regex>, s) -> re_range s; re.match(<the XML trigger regex>, c) ->
  xml_trigger c; gettext.string_formats -> c_formats cfg; misc.sorted_vk(message.msgstr_plural) -> me_msgstr_plural e;
  str.join(', ', (f'U+{ord(ch):04X} {encinfo.get_character_name(ch)}' for ch in L)) -> py_char_names (c_ctlnames cfg) L
INPUT (tables MSG / CTX): message.msgid, .msgctxt, .msgid_plural, .flags, .obsolete -> fields of msg_entry; message.msgstr -> me_msgstr (None is
  identified with '', as in the model); message.comment or '' -> me_comment; message.msgstr_plural.values() -> mv_values (insertion
  order) and message.previous_* -> mv_prev_* of the msg_view that accompanies each entry (tie lemmas assume view_ok);
  ctx.is_template, .is_binary, .file.possible_hidden_strings, ctx.encoding is [not] None -> fields of config.
"""
import ast
import os
import re

REPO = os.environ.get('VERIF_REPO') or '/repo'
SRC = 'lib/check/__init__.py'


class Unsupported(Exception):
    pass


class NeedMonad(Exception):
    pass


def bad(node, why):
    raise Unsupported('%s: line %s: %s' % (why, getattr(node, 'lineno', '?'), ast.unparse(node)[:100] if isinstance(node, ast.AST) else node))


class V:
    """a translated value: Gallina text + type"""
    def __init__(self, text, ty, aux=None, name=None):
        self.text, self.ty, self.aux, self.name = text, ty, aux, name      # name: the python variable it was read from


# ---------------------------------------------------------------------------------------------------------------- types
# atoms: Bool Nat Z Int(literal) Str Char NoneT InfT Unbound Deco Info Msg Ctx File Enc Match0 Match2 Checker Registry Namespace PluralDict CommentOrNone CharNames
# ('Opt',T) ('OrInf',T) ('Unb',T) ('List',T) ('Set',T) ('Bag',T) ('Tup',A,B) ('Map',kind,K,V) kind = dict counter ddict
# None inside a compound type = not yet known
UNIT = {'NoneT': 'Opt', 'InfT': 'OrInf', 'Unbound': 'Unb'}


def join(a, b):
    if a == b or b is None:
        return a
    if a is None:
        return b
    if 'Int' in (a, b) and (a in ('Nat', 'Z') or b in ('Nat', 'Z')):
        return a if b == 'Int' else b
    for x, y in ((a, b), (b, a)):          # None | T = option T
        if x in UNIT and y not in UNIT:
            return y if isinstance(y, tuple) and y[0] == UNIT[x] else (UNIT[x], y)
    for x, y in ((a, b), (b, a)):          # option T | T' = option (T | T')
        if isinstance(x, tuple) and x[0] in UNIT.values() and not (isinstance(y, tuple) and y[0] == x[0]) and y not in UNIT:
            return (x[0], join(x[1], y))
    if isinstance(a, tuple) and isinstance(b, tuple) and a[0] == b[0] and len(a) == len(b):
        if a[0] == 'Map' and a[1] != b[1]:
            raise Unsupported('cannot join dict kinds %s and %s' % (a[1], b[1]))
        return (a[0],) + tuple(join(x, y) for x, y in zip(a[1:], b[1:]))
    raise Unsupported('cannot join types %s and %s' % (a, b))


def coerce(v, ty):
    """the text of v seen at the joined type ty"""
    if v is None:
        v = V('None', 'Unbound')
    if v.ty == ty:
        return v.text
    if v.ty == 'Int' and ty in ('Nat', 'Z'):
        return '(%s)%%%s' % (v.text, 'nat' if ty == 'Nat' else 'Z')
    if isinstance(ty, tuple) and ty[0] in UNIT.values() and not (isinstance(v.ty, tuple) and v.ty[0] == ty[0]):
        if UNIT.get(v.ty) == ty[0]:
            return 'None'
        return '(Some %s)' % coerce(v, ty[1])
    if join(v.ty, ty) == ty and isinstance(v.ty, tuple) and v.ty[0] == ty[0] and v.ty[0] in ('List', 'Set', 'Bag', 'Map', 'Opt', 'OrInf', 'Unb'):
        return v.text                      # only unknown parts differ
    raise Unsupported('cannot use a value of type %s as %s' % (v.ty, ty))


def eqb(t):
    if t in ('Str', 'Char', 'Bool', 'Nat', 'Z'):
        return {'Str': 'str_eqb', 'Char': 'N.eqb', 'Bool': 'Bool.eqb', 'Nat': 'Nat.eqb', 'Z': 'Z.eqb'}[t]
    if isinstance(t, tuple) and t[0] == 'Tup':
        return '(pair_eqb %s %s)' % (eqb(t[1]), eqb(t[2]))
    if isinstance(t, tuple) and t[0] == 'Opt':
        return '(option_eqb %s)' % eqb(t[1])
    raise Unsupported('no equality for type %s' % (t,))


def cmp_(t):
    if t in ('Str', 'Char', 'Z'):
        return {'Str': 'str_compare', 'Char': 'N.compare', 'Z': 'Z.compare'}[t]
    if isinstance(t, tuple) and t[0] == 'Tup':
        return '(pair_cmp %s %s)' % (cmp_(t[1]), cmp_(t[2]))
    raise Unsupported('no order for type %s' % (t,))


def strlit(s):
    return '[' + ';'.join(str(ord(c)) for c in s) + ']%N' if s else '[]'


def gname(name):
    return 'out' if name == '$out' else 'v_' + name.replace('.', '_')


def tup(texts):
    return texts[0] if len(texts) == 1 else '(' + ', '.join(texts) + ')'


def pat(names):
    return names[0] if len(names) == 1 else "'(" + ', '.join(names) + ')'


# ------------------------------------------------------------------------------------------------------- tables
TAGS = {   # tag name -> constructor, slots
    'range-flag-without-plural-string': ('MRangeNoPlural', ''), 'invalid-range-flag': ('MInvalidRange', 'Str'),
    'unknown-message-flag': ('MUnknownFlag', 'Str'), 'duplicate-message-flag': ('MDupFlag', 'Str'),
    'conflicting-message-flags': ('MConflictFlags', 'Str Str'), 'redundant-message-flag': ('MRedundantFlag', 'Str Str'),
    'malformed-xml': ('MMalformedXml', 'Str'), 'duplicate-message-definition': ('MDuplicateDef', ''),
    'translation-in-template': ('MTranslationInTemplate', ''), 'stray-previous-msgid': ('MStrayPrevious', ''),
    'inconsistent-leading-newlines': ('MLeadingNL', ''), 'inconsistent-trailing-newlines': ('MTrailingNL', ''),
    'unusual-character-in-translation': ('MUnusual', 'CharNames'), 'conflict-marker-in-translation': ('MConflictMarker', 'Str'),
    'partially-translated-message': ('MPartial', ''), 'empty-file': ('EmptyFile', ''),
}
MSG = {   # message.<attr> -> (projection, type); %e = the msg_entry, %v = its msg_view
    'msgid': ('(me_msgid %e)', 'Str'), 'msgctxt': ('(me_ctxt %e)', ('Opt', 'Str')), 'msgid_plural': ('(me_plural %e)', ('Opt', 'Str')),
    'msgstr': ('(me_msgstr %e)', 'Str'), 'flags': ('(me_flags %e)', ('List', 'Str')), 'obsolete': ('(me_obsolete %e)', 'Bool'),
    'comment': ('(me_comment %e)', 'CommentOrNone'), 'msgstr_plural': ('%e', 'PluralDict'),
    'previous_msgctxt': ('(mv_prev_ctxt %v)', ('Opt', 'Str')), 'previous_msgid': ('(mv_prev_id %v)', ('Opt', 'Str')),
    'previous_msgid_plural': ('(mv_prev_plural %v)', ('Opt', 'Str')),
}
CTX = {'is_template': ('(c_template cfg)', 'Bool'), 'is_binary': ('(c_binary cfg)', 'Bool'), 'encoding': ('(c_encoding cfg)', 'Enc'),
       'file': ('cat', 'File')}
INFO = [('fuzzy', 'pi_fuzzy', 'Bool'), ('range_min', 'pi_range_min', 'Z'), ('range_max', 'pi_range_max', ('OrInf', 'Z')),
        ('formats', 'pi_formats', ('Set', 'Str'))]
RE_RANGE = r"'\\A([0-9]+)[.][.]([0-9]+)\\Z'"
RE_XML = r"f'\\Atype: Content of: (<{xml.name_re}>)+\\Z'"
CHAR_NAMES = "(f'U+{ord(%s):04X} {encinfo.get_character_name(%s)}' for %s in %s)"
FUNCS = {   # name -> (python parameters, Gallina parameters, result)
    'is_header_entry': ('entry', '(e : msg_entry)', 'bool'),
    '_check_message_flags': ('self, message', '(cfg : config) (e : msg_entry)', 'outcome (list mdiag * pyinfo) Empty_set'),
    '_check_message_xml_format': ('self, ctx, message, flags', '(cfg : config) (e : msg_entry) (flags : pyinfo)', 'outcome (list mdiag) Empty_set'),
    '_check_message_formats': ('self, ctx, message, flags', '(cfg : config) (e : msg_entry) (flags : pyinfo)', 'outcome (list mdiag) Empty_set'),
    'check_messages': ('self, ctx', '(cfg : config) (cat : list (msg_entry * msg_view))', 'outcome (list cdiag) Empty_set'),
}
CALLEES = {'self._check_message_flags': ('src_check_message_flags', ['Msg'], 'Info'),
           'self._check_message_formats': ('src_check_message_formats', ['Ctx', 'Msg', 'Info'], None),
           'self._check_message_xml_format': ('src_check_message_xml_format', ['Ctx', 'Msg', 'Info'], None)}


# ------------------------------------------------------------------------------------------- reads / assignments
def live_before(stmts, live):
    """names that may be read by stmts or afterwards (an unconditional `x = e` ends the life of the old x)"""
    for s in reversed(stmts):
        if isinstance(s, ast.Assign) and len(s.targets) == 1 and isinstance(s.targets[0], ast.Name):
            live = live - {s.targets[0].id}
        live = live | reads([s])
    return live


_READS = {}


def reads(stmts):
    """names read (over-approximated) by the statements; a.f counts for the field variable a.f"""
    out = set()
    for s in stmts:
        if id(s) not in _READS:
            r = set()
            for n in ast.walk(s):
                if isinstance(n, ast.Name) and isinstance(n.ctx, ast.Load):
                    r.add(n.id)
                elif isinstance(n, ast.Attribute) and isinstance(n.value, ast.Name):
                    r.add(n.value.id + '.' + n.attr)
                elif isinstance(n, ast.AugAssign) and isinstance(n.target, ast.Name):
                    r.add(n.target.id)
            _READS[id(s)] = (s, r)
        out |= _READS[id(s)][1]
    return out


def is_live(name, live):
    return name == '$out' or name in live or ('.' in name and name.split('.')[0] in live)


def target_names(t):
    if isinstance(t, ast.Name):
        return [t.id]
    if isinstance(t, (ast.Tuple, ast.List)):
        return [x for e in t.elts for x in target_names(e)]
    if isinstance(t, ast.Attribute) and isinstance(t.value, ast.Name):
        return [t.value.id + '.' + t.attr]
    if isinstance(t, ast.Subscript):
        return target_names(t.value)
    bad(t, 'assignment target')


def assigned(stmts):
    """names (re)bound by the statements, in order of first occurrence; '$out' stands for emitted tags"""
    out = []

    def add(x):
        if x not in out:
            out.append(x)
    for s in stmts:
        if isinstance(s, ast.Assign):
            for t in s.targets:
                for x in target_names(t):
                    add(x)
        elif isinstance(s, ast.AugAssign):
            for x in target_names(s.target):
                add(x)
        elif isinstance(s, ast.Expr):
            add('$out')
        elif isinstance(s, ast.If):
            for x in assigned(s.body) + assigned(s.orelse):
                add(x)
        elif isinstance(s, ast.For):
            for x in target_names(s.target) + assigned(s.body):
                add(x)
        elif isinstance(s, ast.Try):
            for x in assigned(s.body) + [h.name for h in s.handlers if h.name] + [x for h in s.handlers for x in assigned(h.body)]:
                add(x)
        elif not isinstance(s, (ast.Pass, ast.Continue, ast.Break, ast.Return)):
            bad(s, 'statement')
    return out


def jumps(stmts):
    return bool(stmts) and isinstance(stmts[-1], (ast.Continue, ast.Break, ast.Return))


def has_break(stmts):
    return any(isinstance(n, ast.Break) for s in stmts for n in walk_no_loops(s))


def walk_no_loops(s):
    yield s
    if not isinstance(s, ast.For):
        for c in ast.iter_child_nodes(s):
            yield from walk_no_loops(c)


class Tail:
    """what follows a block: end(env) -> text;  live = names read afterwards;  jumps = {'continue' | 'break' | 'return': fn}"""
    def __init__(self, end, live, jumps):
        self.end, self.live, self.jumps = end, live, jumps


class Tr:
    def __init__(self, fname, checkers):
        self.fname, self.checkers, self.n, self.mon, self.shared, self.impure = fname, checkers, 0, [], set(), set()

    def fresh(self):
        self.n += 1
        return 't%d' % self.n

    def monadic(self):
        if not self.mon[-1]:
            raise NeedMonad()

    def region(self, gen, key):
        """gen(mon) -> result; first as a pure expression, again in the monad when an operation that can raise turns up
        (remembered per statement `key`, so that later passes over the same statement start in the right mode)"""
        for mon in ((True,) if key in self.impure else (False, True)):
            self.mon.append(mon)
            try:
                return gen(mon), mon
            except NeedMonad:
                self.impure.add(key)
                if mon:
                    raise
            finally:
                self.mon.pop()

    @staticmethod
    def binds(pre):
        return ''.join('do %s <- %s;\n' % (p, t) if kind == 'do' else 'let %s := %s in\n' % (p, t) for kind, p, t in pre)

    def hoist(self, pre, node, text, ty):
        if pre is None:
            bad(node, 'an operation that can raise in a position where it cannot be hoisted')
        self.monadic()
        t = self.fresh()
        pre.append(('do', t, text))
        return V(t, ty)

    # ------------------------------------------------------------------------------------------------ expressions
    def num(self, v, want, node):
        if v.ty == 'Int':
            return coerce(v, want)
        if v.ty != want:
            bad(node, 'expected %s, got %s' % (want, v.ty))
        return v.text

    def ev(self, n, env, pre):
        if isinstance(n, ast.Constant):
            c = n.value
            if c is True or c is False:
                return V('true' if c else 'false', 'Bool')
            if c is None:
                return V('None', 'NoneT')
            if type(c) is int and c >= 0:
                return V(str(c), 'Int')
            if type(c) is str:
                return V(strlit(c), 'Str')
            if type(c) is float and c == float('inf'):
                return V('None', 'InfT')
            bad(n, 'constant')
        if isinstance(n, ast.Name):
            v = env.get(n.id)
            if not isinstance(v, V) or v.ty == 'Namespace':
                bad(n, 'name without a value here (unknown, or local to another iteration / branch)')
            if isinstance(v.ty, tuple) and v.ty[0] == 'Unb':
                return self.hoist(pre, n, 'py_bound %s' % v.text, v.ty[1])
            return V(v.text, v.ty, v.aux, n.id)
        if isinstance(n, ast.Attribute):
            if isinstance(env.get(ast.unparse(n)), V) and isinstance(n.value, ast.Name):     # narrowed by an enclosing `is [not] None` test
                return env[ast.unparse(n)]
            if isinstance(n.value, ast.Name) and isinstance(env.get(n.value.id), V) and env[n.value.id].ty == 'Namespace':
                return self.ev(ast.Name(id=n.value.id + '.' + n.attr, ctx=ast.Load()), env, pre)
            if ast.unparse(n) == 'gettext.string_formats':
                return V('(c_formats cfg)', ('Map', 'dict', 'Str', ('Set', 'Str')))
            if ast.unparse(n) == 'self._message_format_checkers' and self.checkers is not None:
                return V('src_format_checkers', 'Registry')
            if ast.unparse(n) == 'ctx.file.possible_hidden_strings' and self.ev(n.value, env, pre).ty == 'File':
                return V('(c_hidden cfg)', 'Bool')
            o = self.ev(n.value, env, pre)
            if o.ty == 'Msg' and n.attr in MSG:
                text, ty = MSG[n.attr]
                if '%v' in text and o.aux is None:
                    bad(n, 'this function does not receive the msg_view')
                return V(text.replace('%e', o.text).replace('%v', str(o.aux)), ty)
            if o.ty == 'Ctx' and n.attr in CTX:
                return V(*CTX[n.attr])
            if o.ty == 'Info' and n.attr in [f for f, _, _ in INFO]:
                [(p, ty)] = [(p, ty) for f, p, ty in INFO if f == n.attr]
                return V('(%s %s)' % (p, o.text), ty)
            bad(n, 'attribute of ' + str(o.ty))
        if isinstance(n, ast.Subscript):
            return self.subscript(n, env, pre)
        if isinstance(n, ast.Tuple) and len(n.elts) == 2:
            a, b = [self.ev(e, env, pre) for e in n.elts]
            for x in (a, b):
                if x.ty == 'Int':
                    bad(n, 'bare integer in a tuple')
            return V('(%s, %s)' % (a.text, b.text), ('Tup', a.ty, b.ty))
        if isinstance(n, (ast.List, ast.Set)):
            vs = [self.ev(e, env, pre) for e in n.elts]
            ty = None
            for v in vs:
                ty = join(ty, v.ty)
            return V('[' + '; '.join(coerce(v, ty) for v in vs) + ']', ('List' if isinstance(n, ast.List) else 'Set', ty))
        if isinstance(n, ast.BinOp):
            a, b = self.ev(n.left, env, pre), self.ev(n.right, env, pre)
            if isinstance(a.ty, tuple) and isinstance(b.ty, tuple) and a.ty[0] == b.ty[0] == 'Set':
                t = join(a.ty[1], b.ty[1])
                if isinstance(n.op, ast.BitOr):
                    return V('(ps_union %s %s)' % (a.text, b.text), ('Set', t))
                if isinstance(n.op, (ast.Sub, ast.BitAnd)):
                    return V('(%s %s %s %s)' % ('ps_diff' if isinstance(n.op, ast.Sub) else 'ps_inter', eqb(t), a.text, b.text), ('Set', t))
            if isinstance(n.op, ast.Add) and {a.ty, b.ty} <= {'Nat', 'Int'} and 'Nat' in (a.ty, b.ty):
                return V('(%s + %s)%%nat' % (self.num(a, 'Nat', n), self.num(b, 'Nat', n)), 'Nat')
            bad(n, 'binary operator on %s, %s' % (a.ty, b.ty))
        if isinstance(n, ast.BoolOp) and isinstance(n.op, ast.Or) and len(n.values) == 2 and ast.unparse(n.values[1]) == "''":
            a = self.ev(n.values[0], env, pre)
            if a.ty == 'CommentOrNone':
                return V(a.text, 'Str')
            if a.ty == ('Opt', 'Str'):
                return V('(match %s with Some s => s | None => [] end)' % a.text, 'Str')
            bad(n, "`or ''` on " + str(a.ty))
        if isinstance(n, (ast.BoolOp, ast.Compare)) or (isinstance(n, ast.UnaryOp) and isinstance(n.op, ast.Not)):
            return V(self.cond(n, env, pre), 'Bool')
        if isinstance(n, ast.Call):
            return self.call(n, env, pre)
        bad(n, 'expression')

    def subscript(self, n, env, pre):
        o = self.ev(n.value, env, pre)
        if isinstance(n.slice, ast.Slice):
            lo, hi = n.slice.lower, n.slice.upper
            if o.ty != 'Str' or n.slice.step is not None or lo is None:
                bad(n, 'slice')
            k = self.num(self.ev(lo, env, pre), 'Nat', n)
            if hi is None:
                return V('(skipn %s %s)' % (k, o.text), 'Str')
            if isinstance(hi, ast.UnaryOp) and isinstance(hi.op, ast.USub) and isinstance(hi.operand, ast.Constant) \
                    and type(hi.operand.value) is int and hi.operand.value > 0:
                return V('(py_slice_mid %s %d %s)' % (k, hi.operand.value, o.text), 'Str')
            bad(n, 'slice bound')
        if not (isinstance(o.ty, tuple) and o.ty[0] == 'Map'):
            bad(n, 'subscript of ' + str(o.ty))
        k = self.ev(n.slice, env, pre)
        _, kind, kt, vt = o.ty
        kt = join(kt, k.ty)
        if kind == 'dict':
            v = self.hoist(pre, n, 'pd_item %s %s %s' % (eqb(kt), coerce(k, kt), o.text), vt)
            return V(v.text, v.ty, name=o.name)
        if kind == 'counter':
            return V('(pd_getd %s %s 0%%nat %s)' % (eqb(kt), coerce(k, kt), o.text), 'Nat')
        if not (isinstance(vt, tuple) and vt[0] == 'Map'):
            bad(n, 'defaultdict of ' + str(vt))
        if o.name is None:
            bad(n, 'read of a defaultdict that is not a local variable')
        env['$taint'] = env['$taint'] | {o.name}      # the insertion of the default is not represented: its key set is unknown from here on
        return V('(pd_getd %s %s [] %s)' % (eqb(kt), coerce(k, kt), o.text), vt, name=o.name)

    def whole(self, v, node, env):
        """operations that see the key set of a dict"""
        if not (isinstance(v.ty, tuple) and v.ty[0] == 'Map'):
            bad(node, 'expected a dict, got ' + str(v.ty))
        if v.ty[1] == 'ddict' and (v.name is None or v.name in env['$taint']):
            bad(node, 'key set of a defaultdict after a read that may have inserted a default')
        return v.ty[2], v.ty[3]

    def truth(self, v, node):
        if v.ty == 'Bool':
            return v.text
        if v.ty == 'Str' or (isinstance(v.ty, tuple) and v.ty[0] in ('List', 'Set')):
            return '(py_truthy %s)' % v.text
        bad(node, 'truth value of ' + str(v.ty))

    def cond(self, n, env, pre):
        if isinstance(n, ast.BoolOp):
            parts = [self.cond(v, env, pre if i == 0 else None) for i, v in enumerate(n.values)]
            return '(' + (' && ' if isinstance(n.op, ast.And) else ' || ').join(parts) + ')'
        if isinstance(n, ast.UnaryOp) and isinstance(n.op, ast.Not):
            return '(negb %s)' % self.cond(n.operand, env, pre)
        if isinstance(n, ast.Compare):
            if len(n.ops) != 1:
                bad(n, 'chained comparison')
            op, a, b = type(n.ops[0]), self.ev(n.left, env, pre), self.ev(n.comparators[0], env, pre)
            if op in (ast.Is, ast.IsNot):
                if b.ty != 'NoneT':
                    bad(n, '`is` with something other than None')
                if a.ty == 'Enc':
                    return '(negb %s)' % a.text if op is ast.Is else a.text
                if isinstance(a.ty, tuple) and a.ty[0] == 'Opt':
                    return '(%s %s)' % ('is_none' if op is ast.Is else 'is_some', a.text)
                if a.ty == 'NoneT':
                    return 'true' if op is ast.Is else 'false'
                bad(n, 'None test on ' + str(a.ty))
            if op in (ast.In, ast.NotIn):
                if isinstance(b.ty, tuple) and b.ty[0] == 'Set':
                    t = '(ps_mem %s %s %s)' % (eqb(join(a.ty, b.ty[1])), a.text, b.text)
                elif isinstance(b.ty, tuple) and b.ty[0] == 'Map':
                    kt, _ = self.whole(b, n, env)
                    t = '(ps_mem %s %s (pd_keys %s))' % (eqb(join(a.ty, kt)), a.text, b.text)
                else:
                    bad(n, '`in` ' + str(b.ty))
                return t if op is ast.In else '(negb %s)' % t
            ty = join(a.ty, b.ty)
            if ty == 'Int':
                ty = 'Z'
            at, bt = coerce(a, ty), coerce(b, ty)
            if op in (ast.Eq, ast.NotEq):
                t = '(%s %s %s)' % (eqb(ty), at, bt)
                return t if op is ast.Eq else '(negb %s)' % t
            fn = {'Nat': ('Nat.ltb', 'Nat.leb'), 'Z': ('Z.ltb', 'Z.leb'), 'Str': ('str_ltb', 'str_leb')}.get(ty)
            if fn is None or op not in (ast.Lt, ast.Gt, ast.LtE, ast.GtE):
                bad(n, 'comparison of ' + str(ty))
            x, y = (at, bt) if op in (ast.Lt, ast.LtE) else (bt, at)
            return '(%s %s %s)' % (fn[0] if op in (ast.Lt, ast.Gt) else fn[1], x, y)
        return self.truth(self.ev(n, env, pre), n)

    def call(self, n, env, pre):
        f = ast.unparse(n.func)
        kw = {k.arg: k.value for k in n.keywords}
        if None in kw or any(isinstance(a, ast.Starred) for a in n.args):
            bad(n, 'star arguments')
        src = ast.unparse(n)
        na = len(n.args)
        if f == 'message_repr' and src in ('message_repr(message)', "message_repr(message, template='{}:')") and env['message'].ty == 'Msg':
            return V(None, 'Deco')
        if kw:
            bad(n, 'keyword arguments')
        if f in ('types.SimpleNamespace', 'set', 'collections.Counter') and na == 0:
            return {'types.SimpleNamespace': V(None, 'Namespace'), 'set': V('[]', ('Set', None)),
                    'collections.Counter': V('[]', ('Map', 'counter', None, 'Nat'))}[f]
        if f == 'collections.Counter' and na == 1:
            L = self.ev(n.args[0], env, pre)
            if isinstance(L.ty, tuple) and L.ty[0] == 'List':
                return V('(py_counter %s %s)' % (eqb(L.ty[1]), L.text), ('Map', 'counter', L.ty[1], 'Nat'))
            bad(n, 'Counter of ' + str(L.ty))
        if f == 'collections.defaultdict' and na == 1 and ast.unparse(n.args[0]) in ('dict', 'collections.Counter'):
            inner = ('Map', 'dict', None, None) if ast.unparse(n.args[0]) == 'dict' else ('Map', 'counter', None, 'Nat')
            return V('[]', ('Map', 'ddict', None, inner))
        if f == 'tags.safe_format' and na == 1 and isinstance(n.args[0], ast.JoinedStr):
            parts = n.args[0].values
            if len(parts) == 3 and isinstance(parts[1], ast.FormattedValue) and parts[1].conversion == -1 and parts[1].format_spec is None \
                    and [getattr(parts[0], 'value', None), getattr(parts[2], 'value', None)] == ['(implied by ', ')']:
                return self.ev(parts[1].value, env, pre)
            bad(n, 'safe_format')
        if f == 'str.join' and na == 2 and ast.unparse(n.args[0]) == "', '" and isinstance(n.args[1], ast.GeneratorExp):
            g = n.args[1]
            [gen] = g.generators
            x = gen.target.id if isinstance(gen.target, ast.Name) else '?'
            if ast.unparse(g) == CHAR_NAMES % (x, x, x, ast.unparse(gen.iter)) and not gen.ifs:
                L = self.ev(gen.iter, env, pre)
                if L.ty == ('List', 'Char'):
                    return self.hoist(pre, n, 'py_char_names (c_ctlnames cfg) %s' % L.text, 'CharNames')
            bad(n, 'str.join')
        if f == 're.match' and na == 2:
            s = self.ev(n.args[1], env, pre)
            if s.ty == 'Str' and ast.unparse(n.args[0]) == RE_RANGE:
                return V('(re_range %s)' % s.text, ('Opt', 'Match2'))
            if s.ty == 'Str' and ast.unparse(n.args[0]) == RE_XML:
                return V('(xml_trigger %s)' % s.text, 'Bool')
            bad(n, 'unknown regular expression')
        if f in ('any', 'all') and na == 1:
            fn = 'existsb' if f == 'any' else 'forallb'
            if isinstance(n.args[0], ast.GeneratorExp):
                g = n.args[0]
                [gen] = g.generators
                L = self.ev(gen.iter, env, pre)
                if gen.ifs or gen.is_async or not isinstance(gen.target, ast.Name) or not (isinstance(L.ty, tuple) and L.ty[0] in ('List', 'Bag')):
                    bad(n, 'generator')
                x = gname(gen.target.id)
                return V('(%s (fun %s => %s) %s)' % (fn, x, self.cond(g.elt, dict(env, **{gen.target.id: V(x, L.ty[1])}), None), L.text), 'Bool')
            L = self.ev(n.args[0], env, pre)
            if isinstance(L.ty, tuple) and L.ty[0] in ('List', 'Bag') and L.ty[1] == 'Str':
                return V('(%s (fun s => py_truthy s) %s)' % (fn, L.text), 'Bool')
            bad(n, f)
        if f == 'misc.sorted_vk' and na == 1:
            d = self.ev(n.args[0], env, pre)
            if d.ty == 'PluralDict':
                return V('(me_msgstr_plural %s)' % d.text, ('List', 'Str'))
        if isinstance(n.func, ast.Attribute) and f not in CALLEES and not f.startswith(('gettext.', 'tags.', 'xml.', 're.', 'heapq.', 'misc.')):
            o = self.ev(n.func.value, env, pre)
            m = n.func.attr
            if o.ty == 'Str' and m in ('startswith', 'endswith', 'strip', 'rstrip') and na == 1:
                c = self.ev(n.args[0], env, pre)
                if c.ty != 'Str':
                    bad(n, 'argument of ' + m)
                if m in ('strip', 'rstrip'):
                    if not isinstance(n.args[0], ast.Constant):
                        bad(n, 'argument of ' + m)
                    return V('(py_%s %s %s)' % (m, c.text, o.text), 'Str')
                return V('(%s %s %s)' % ('starts_with' if m == 'startswith' else 'ends_with', c.text, o.text), 'Bool')
            if o.ty == 'Match0' and m == 'group' and ast.unparse(n) .endswith('.group(0)'):
                return V(o.text, 'Str')
            if o.ty == 'PluralDict' and m == 'values' and na == 0:
                if env['message'].aux is None:
                    bad(n, 'this function does not receive the msg_view')
                return V('(mv_values %s)' % env['message'].aux, ('List', 'Str'))
            if m in ('keys', 'values') and na == 0:
                kt, vt = self.whole(o, n, env)
                if m == 'keys':
                    return V('(pd_keys %s)' % o.text, ('Set', kt))
                return V('(pd_values %s %s %s)' % (cmp_(kt), eqb(kt), o.text), ('Bag', vt), name=o.name)
            bad(n, 'method call')
        if na != 1:
            bad(n, 'call')
        a = n.args[0]
        if f == 'sorted' and isinstance(a, ast.Call) and isinstance(a.func, ast.Attribute) and a.func.attr == 'items' and not a.args and not a.keywords:
            d = self.ev(a.func.value, env, pre)
            kt, vt = self.whole(d, n, env)
            return V('(pd_items %s %s %s)' % (cmp_(kt), eqb(kt), d.text), ('List', ('Tup', kt, vt)))
        if f == 'tags.safestr':
            return self.ev(a, env, pre)
        x = self.ev(a, env, pre)
        col = x.ty[0] if isinstance(x.ty, tuple) else None
        if f == 'bool':
            return V(self.truth(x, n), 'Bool')
        if f == 'len':
            if col == 'Map':
                return V('(pd_len %s %s)' % (eqb(self.whole(x, n, env)[0]), x.text), 'Nat')
            if col == 'Set':
                return V('(ps_len %s %s)' % (eqb(x.ty[1]), x.text), 'Nat')
            if col == 'List' or x.ty == 'Str':
                return V('(length %s)' % x.text, 'Nat')
        if f in ('set', 'frozenset'):
            if col in ('List', 'Set'):
                return V(x.text, ('Set', x.ty[1]))
            if col == 'Map':
                return V('(pd_keys %s)' % x.text, ('Set', self.whole(x, n, env)[0]))
        if f == 'sorted' and col == 'Set':
            return V('(ps_sorted %s %s)' % (cmp_(x.ty[1]), x.text), ('List', x.ty[1]))
        if f == 'min' and x.ty == ('Set', 'Str'):
            return self.hoist(pre, n, 'py_min str_ltb %s' % x.text, 'Str')
        if f == 'sum' and x.ty == ('Bag', 'Nat'):
            return V('(py_sum %s)' % x.text, 'Nat')
        if f == 'find_unusual_characters' and x.ty == 'Str':
            return V('(find_unusual (c_isword cfg) %s)' % x.text, ('List', 'Char'))
        if f == 'gettext.search_for_conflict_marker' and x.ty == 'Str':
            return V('(search_marker %s)' % x.text, ('Opt', 'Match0'))
        if f == 'is_header_entry' and x.ty == 'Msg':
            return V('(src_is_header_entry %s)' % x.text, 'Bool')
        bad(n, 'call')

    # ------------------------------------------------------------------------------------------------- statements
    def block(self, stmts, env, tail):
        if not stmts:
            return tail.end(env)
        s, rest = stmts[0], stmts[1:]
        return self.stmt(s, dict(env), rest, tail, live_before(rest, tail.live))

    def emit(self, env, text):
        old = env['$out']
        env['$out'] = V('out', old.ty)
        return 'let out := %s ++ %s in\n' % (old.text, text)

    def rebound(self, env, name, keep_fields=False):
        """name gets a new value: forget what was known about the old one"""
        for x in [x for x in env if x.startswith(name + '.') and not keep_fields]:
            del env[x]                        # `is None` facts about attributes of the old value
        env['$taint'] = env['$taint'] - {name}

    @staticmethod
    def mutable(ty):
        return isinstance(ty, tuple) and ty[0] in ('List', 'Set', 'Map', 'Bag')

    def bind(self, env, name, v):
        """name = v: a let, except for typeless constants, which are substituted"""
        self.rebound(env, name, v.ty == 'Namespace')
        if v.ty in ('Int', 'NoneT', 'InfT', 'Namespace', 'Deco') or v.text in ('[]', 'true', 'false'):
            env[name] = v
            return ''
        env[name] = V(gname(name), v.ty, v.aux)
        return 'let %s := %s in\n' % (gname(name), v.text)

    def store(self, t, env, pre, value, aug):
        """assignment `t = value()` / `t op= ..` (aug(old) -> new value) through subscripts; python evaluates the container and the
        keys of an augmented target before the value, and the value of a plain assignment first.  Returns the text of the lets."""
        keys, base = [], t
        while isinstance(base, ast.Subscript) and not isinstance(base.slice, ast.Slice):
            keys.insert(0, base.slice)
            base = base.value
        if not (isinstance(base, ast.Name) or (isinstance(base, ast.Attribute) and isinstance(base.value, ast.Name) and not keys
                                               and isinstance(env.get(base.value.id), V) and env[base.value.id].ty == 'Namespace')):
            bad(t, 'assignment target')
        name = target_names(base)[0]
        if (keys or aug) and name in self.shared:
            bad(t, 'in-place update of an object that is reachable under another name (values are translated without identity)')
        v = None if aug else value()
        if not aug and not keys and v.name is not None and self.mutable(v.ty):
            self.shared |= {name, v.name}      # x = y / x = d[k]: two names for one mutable object
        cur = env.get(name)
        if isinstance(cur, V) and isinstance(cur.ty, tuple) and cur.ty[0] == 'Unb':
            cur = None
        lets, path = '', []
        for i, kn in enumerate(keys):              # d[k1]..[kn]: read the inner containers (Counter / defaultdict defaults)
            k = self.ev(kn, env, pre)
            if cur is None or not (isinstance(cur.ty, tuple) and cur.ty[0] == 'Map'):
                bad(t, 'item assignment on something that is not a dict')
            _, kind, kt, vt = cur.ty
            kt = join(kt, k.ty)
            path.append((cur, kind, kt, coerce(k, kt)))
            if i < len(keys) - 1 or aug:
                if kind == 'dict':
                    bad(t, 'update through a plain dict item')
                x = self.fresh()
                lets += 'let %s := pd_getd %s %s %s %s in\n' % (x, eqb(kt), coerce(k, kt), '0%nat' if kind == 'counter' else '[]', cur.text)
                cur = V(x, vt)
            else:
                cur = None
        if aug:
            if cur is None:
                bad(t, 'augmented assignment to an unbound name')
            v = aug(cur)
        if isinstance(cur, V) and v.ty == 'Int' and cur.ty in ('Nat', 'Z'):
            v = V(coerce(v, cur.ty), cur.ty)
        for d, kind, kt, ktext in reversed(path):
            vt = join(d.ty[3], v.ty)
            v = V('(pd_set %s %s %s)' % (ktext, coerce(v, vt), d.text), ('Map', kind, kt, vt))
        return lets + self.bind(env, name, v)

    def stmt(self, s, env, rest, tail, live):
        k = lambda e: self.block(rest, e, tail)
        pre = []
        if isinstance(s, ast.Pass):
            return k(env)
        if isinstance(s, (ast.Continue, ast.Break, ast.Return)):
            kind = type(s).__name__.lower()
            if rest or kind not in tail.jumps:
                bad(s, 'jump here (inside a merged branch, or followed by dead code)')
            return tail.jumps[kind](env, s.value) if kind == 'return' else tail.jumps[kind](env)
        if isinstance(s, ast.Assign) and len(s.targets) == 1:
            t = s.targets[0]
            if isinstance(t, ast.Tuple) and ast.unparse(t.elts[0]) != ast.unparse(t.elts[1]) and len(t.elts) == 2 \
                    and all(isinstance(e, ast.Name) for e in t.elts) and isinstance(s.value, ast.Call) and ast.unparse(s.value.func) == 'map' \
                    and len(s.value.args) == 2 and ast.unparse(s.value.args[0]) == 'int' and ast.unparse(s.value.args[1]).endswith('.groups()'):
                m = self.ev(s.value.args[1].func.value, env, pre)
                if m.ty != 'Match2':
                    bad(s, 'groups() of ' + str(m.ty))
                self.monadic()
                text = ''
                for e, proj in zip(t.elts, ('fst', 'snd')):
                    text += 'do %s <- py_int (c_maxd cfg) (%s %s);\n' % (gname(e.id), proj, m.text)
                    self.rebound(env, e.id)
                    env[e.id] = V(gname(e.id), 'Z')
                return self.binds(pre) + text + k(env)
            if isinstance(t, ast.List) and all(isinstance(e, ast.Name) for e in t.elts) and len({e.id for e in t.elts}) == len(t.elts) in (1, 2):
                names = [e.id for e in t.elts]
                if len(names) == 2 and isinstance(s.value, ast.Call) and ast.unparse(s.value.func) == 'heapq.nsmallest' and len(s.value.args) == 2 \
                        and ast.unparse(s.value.args[0]) == '2' and not s.value.keywords:
                    S = self.ev(s.value.args[1], env, pre)
                    if not (isinstance(S.ty, tuple) and S.ty[0] == 'Set'):
                        bad(s, 'nsmallest of ' + str(S.ty))
                    text, ty = 'py_two_smallest %s %s' % (cmp_(S.ty[1]), S.text), S.ty[1]
                elif len(names) == 1:
                    L = self.ev(s.value, env, pre)
                    if not (isinstance(L.ty, tuple) and L.ty[0] in ('List', 'Bag')):
                        bad(s, 'unpacking of ' + str(L.ty))
                    text, ty = 'py_single %s' % L.text, L.ty[1]
                else:
                    bad(s, 'unpacking')
                self.monadic()
                if self.mutable(ty):
                    self.shared |= set(names) | {L.name}
                for x in names:
                    self.rebound(env, x)
                    env[x] = V(gname(x), ty)
                return self.binds(pre) + 'do %s <- %s;\n' % (tup([gname(x) for x in names]), text) + k(env)
            if isinstance(t, ast.Name) and isinstance(s.value, ast.Call) and ast.unparse(s.value.func) in CALLEES:
                return self.call_stmt(s.value, env, pre, k, t.id)
            text = self.store(t, env, pre, lambda: self.ev(s.value, env, pre), None)
            return self.binds(pre) + text + k(env)
        if isinstance(s, ast.AugAssign):
            def new(old):
                v = self.ev(s.value, env, pre)
                col = old.ty[0] if isinstance(old.ty, tuple) else None
                if isinstance(s.op, ast.Add) and old.ty == 'Nat' and v.ty in ('Nat', 'Int'):
                    return V('(%s + %s)%%nat' % (old.text, self.num(v, 'Nat', s)), 'Nat')
                if isinstance(s.op, ast.Add) and col == 'List' and isinstance(v.ty, tuple) and v.ty[0] == 'List':
                    return V('(%s ++ %s)' % (old.text, v.text), ('List', join(old.ty[1], v.ty[1])))
                if isinstance(s.op, ast.BitOr) and col == 'Set' and isinstance(v.ty, tuple) and v.ty[0] == 'Set':
                    return V('(ps_union %s %s)' % (old.text, v.text), ('Set', join(old.ty[1], v.ty[1])))
                bad(s, 'augmented assignment on %s, %s' % (old.ty, v.ty))
            text = self.store(s.target, env, pre, None, new)
            return self.binds(pre) + text + k(env)
        if isinstance(s, ast.Expr) and isinstance(s.value, ast.Call):
            return self.call_stmt(s.value, env, pre, k, None)
        if isinstance(s, ast.If):
            render, ea, eb, only = self.test(s.test, env, pre)
            if only is not None:                   # `x is None` on a value that is statically None
                return self.binds(pre) + self.block((s.body if only else s.orelse) + rest, env, tail)
            return self.binds(pre) + self.branch(id(s), render, s.body, ea, s.orelse, eb, env, rest, tail, live)
        if isinstance(s, ast.Try) and len(s.handlers) == 1 and not s.orelse and not s.finalbody and len(s.body) == 1:
            h, b = s.handlers[0], s.body[0]
            if ast.unparse(h.type) == 'KeyError' and h.name is None and isinstance(b, ast.Assign) and len(b.targets) == 1 \
                    and isinstance(b.targets[0], ast.Name) and isinstance(b.value, ast.Subscript):
                reg, key = self.ev(b.value.value, env, pre), self.ev(b.value.slice, env, pre)
                if reg.ty == 'Registry' and key.ty == 'Str':
                    g = gname(b.targets[0].id)
                    ea = dict(env, **{b.targets[0].id: V(g, 'Checker')})        # the checker is represented by the key it is registered under
                    render = lambda x, y: 'if ps_mem str_eqb %s %s then\nlet %s := %s in\n%s\nelse\n%s' % (key.text, reg.text, g, key.text, x, y)
                    return self.binds(pre) + self.branch(id(s), render, [], ea, h.body, dict(env), env, rest, tail, live)
            if ast.unparse(h.type) == 'xml.SyntaxError' and h.name and isinstance(b, ast.Expr) and isinstance(b.value, ast.Call) \
                    and ast.unparse(b.value.func) == 'xml.check_fragment' and len(b.value.args) == 1 and not b.value.keywords:
                x = self.ev(b.value.args[0], env, pre)
                if x.ty == 'Str':
                    ea = dict(env, **{h.name: V(gname(h.name), 'Str')})
                    render = lambda a, b_: 'match c_xml cfg %s with\n| Some %s =>\n%s\n| None =>\n%s\nend' % (x.text, gname(h.name), a, b_)
                    return self.binds(pre) + self.branch(id(s), render, h.body, ea, [], dict(env), env, rest, tail, live)
        if isinstance(s, ast.For) and not s.orelse:
            return self.loop(s, env, rest, tail, live)
        bad(s, 'statement')

    def call_stmt(self, c, env, pre, k, target):
        f = ast.unparse(c.func)
        if c.keywords or any(isinstance(a, ast.Starred) for a in c.args):
            bad(c, 'call')
        pos = env.get('$pos')
        if f == 'self.tag':
            if not c.args or not isinstance(c.args[0], ast.Constant) or c.args[0].value not in TAGS:
                bad(c, 'tag name')
            ctor, slots = TAGS[c.args[0].value]
            data = [v for v in (self.ev(a, env, pre) for a in c.args[1:]) if v.ty != 'Deco']
            if [v.ty for v in data] != slots.split():
                bad(c, 'tag data of types %s where %s is recorded' % ([v.ty for v in data], slots))
            d = ' '.join([ctor] + [v.text for v in data])
            if ctor == 'EmptyFile':
                if pos is not None or env['$out'].ty != ('List', 'cdiag'):
                    bad(c, 'empty-file inside the message loop')
            elif env['$out'].ty == ('List', 'cdiag'):
                if pos is None:
                    bad(c, 'a message tag outside the message loop')
                d = 'AtMsg %s (%s)' % (pos.text, d)
            return self.binds(pre) + self.emit(env, '[%s]' % d) + k(env)
        if f in CALLEES:
            name, want, res = CALLEES[f]
            args = [self.ev(a, env, pre) for a in c.args]
            if [a.ty for a in args] != want:
                bad(c, 'arguments of ' + f)
            self.monadic()
            r = self.fresh()
            text = 'do %s <- %s cfg %s;\n' % (r, name, ' '.join(a.text for a in args if a.ty != 'Ctx'))
            tags = 'fst %s' % r if res else r
            text += self.emit(env, '(map (AtMsg %s) (%s))' % (pos.text, tags) if env['$out'].ty == ('List', 'cdiag') and pos is not None else '(%s)' % tags)
            if (res is None) != (target is None):
                bad(c, 'result of %s' % f)
            if res:
                text += self.bind(env, target, V('(snd %s)' % r, res))
            return self.binds(pre) + text + k(env)
        if isinstance(c.func, ast.Attribute) and c.func.attr == 'check_message' and [ast.unparse(a) for a in c.args] == ['ctx', 'message', 'flags']:
            o = self.ev(c.func.value, env, pre)
            if o.ty == 'Checker' and [env[x].ty for x in ('ctx', 'message', 'flags')] == ['Ctx', 'Msg', 'Info']:
                return self.binds(pre) + self.emit(env, '[MDispatch %s]' % o.text) + k(env)
        bad(c, 'call statement')

    def test(self, n, env, pre):
        """-> render(a, b), env of the true branch, env of the false branch, statically known truth"""
        if isinstance(n, ast.Compare) and len(n.ops) == 1 and isinstance(n.ops[0], (ast.Is, ast.IsNot)) and ast.unparse(n.comparators[0]) == 'None' \
                and (isinstance(n.left, ast.Name) or (isinstance(n.left, ast.Attribute) and isinstance(n.left.value, ast.Name))):
            x, isnone, key = self.ev(n.left, env, pre), isinstance(n.ops[0], ast.Is), ast.unparse(n.left)
            if x.ty == 'NoneT':
                return None, None, None, isnone
            if isinstance(x.ty, tuple) and x.ty[0] == 'Opt':
                g = gname(key)
                some, none = dict(env, **{key: V(g, x.ty[1])}), dict(env, **{key: V('None', 'NoneT')})
                if isnone:
                    return (lambda a, b: 'match %s with\n| None =>\n%s\n| Some %s =>\n%s\nend' % (x.text, a, g, b)), none, some, None
                return (lambda a, b: 'match %s with\n| Some %s =>\n%s\n| None =>\n%s\nend' % (x.text, g, a, b)), some, none, None
        c = self.cond(n, env, pre)
        return (lambda a, b: 'if %s then\n%s\nelse\n%s' % (c, a, b)), dict(env), dict(env), None


    def branch(self, key, render, body_a, env_a, body_b, env_b, env0, rest, tail, live):
        ja, jb = jumps(body_a), jumps(body_b)
        if ja or jb:        # the statements after the `if` are reached from the branch that does not jump only
            if ja and jb and rest:
                bad(rest[0], 'dead code')
            cont = Tail(lambda e: self.block(rest, e, tail), live, tail.jumps)
            return render(self.block(body_a, env_a, tail if ja else cont), self.block(body_b, env_b, tail if jb else cont))
        cand = [x for x in assigned(body_a) + assigned(body_b) if is_live(x, live)]
        cand = [x for i, x in enumerate(cand) if x not in cand[:i]]
        ends = []
        self.mon.append(True)
        try:
            probe = Tail(lambda e: ends.append(e) or '?', set(cand), {})
            self.block(body_a, dict(env_a), probe)
            self.block(body_b, dict(env_b), probe)
        finally:
            self.mon.pop()
        env, names, tys = dict(env0), [], []
        for x in assigned(body_a) + assigned(body_b):
            env.pop(x, None)
        for x in cand:
            a, b = ends[0].get(x), ends[1].get(x)
            t = join(a.ty if a else 'Unbound', b.ty if b else 'Unbound')
            if t in UNIT:                          # None on both sides: stays a constant
                env[x] = a
            else:
                names.append(x)
                tys.append('Z' if t == 'Int' else t)

        def gen(mon):
            def end(e):
                t = tup([coerce(e.get(x), ty) for x, ty in zip(names, tys)]) if names else 'tt'
                return 'Ok %s' % (t if t.startswith('(') or ' ' not in t else '(%s)' % t) if mon else t
            out = Tail(end, set(names), {})
            return render(self.block(body_a, dict(env_a), out), self.block(body_b, dict(env_b), out))
        text, mon = self.region(gen, key)
        for x, ty in zip(names, tys):
            env[x] = V(gname(x), ty, (env0.get(x) or V(None, None)).aux)
        env['$taint'] = (ends[0]['$taint'] | ends[1]['$taint']) - {x for x in assigned(body_a) + assigned(body_b) if x not in names}
        if mon:
            self.monadic()
        if not names:
            return ('do _ <- (%s);\n' % text if mon else '') + self.block(rest, env, tail)
        p = pat([gname(x) for x in names])
        return ('do %s <- (%s);\n' % (p.lstrip("'"), text) if mon else 'let %s := (%s) in\n' % (p, text)) + self.block(rest, env, tail)

    def loop(self, s, env, rest, tail, live):
        pre = []
        it = self.ev(ast.List(elts=s.iter.elts, ctx=ast.Load()) if isinstance(s.iter, ast.Tuple) else s.iter, env, pre)
        targets = target_names(s.target)
        if it.ty == 'File' and env['$out'].ty == ('List', 'cdiag') and isinstance(s.target, ast.Name) and '$pos' not in env:
            seq, lets = '(py_enumerate %s)' % it.text, 'let pos := fst x in\nlet %s := fst (snd x) in\nlet view := snd (snd x) in\n' % gname(s.target.id)
            tb = {s.target.id: V(gname(s.target.id), 'Msg', 'view'), '$pos': V('pos', 'Nat')}
        elif isinstance(it.ty, tuple) and it.ty[0] == 'List' and isinstance(s.target, ast.Name):
            seq, lets, tb = it.text, 'let %s := x in\n' % gname(s.target.id), {s.target.id: V(gname(s.target.id), it.ty[1])}
        elif isinstance(it.ty, tuple) and it.ty[0] == 'List' and isinstance(it.ty[1], tuple) and it.ty[1][0] == 'Tup' and isinstance(s.target, ast.Tuple) \
                and len(targets) == 2 and targets[0] != targets[1] and all(isinstance(e, ast.Name) for e in s.target.elts):
            seq, lets = it.text, 'let %s := fst x in\nlet %s := snd x in\n' % (gname(targets[0]), gname(targets[1]))
            tb = {targets[0]: V(gname(targets[0]), it.ty[1][1]), targets[1]: V(gname(targets[1]), it.ty[1][2])}
        else:
            bad(s, 'loop over %s (not an ordered sequence?) / loop target' % (it.ty,))
        inner = live_before(s.body, set())
        state = [v for v in assigned(s.body) if isinstance(env.get(v), V) and env[v].ty != 'Namespace' and v not in targets
                 and (is_live(v, inner) or is_live(v, live))]
        if not state:
            bad(s, 'loop without effect')
        tys, taint = [env[v].ty for v in state], env['$taint']
        benv = lambda: dict(env, **dict({v: V(gname(v), ty, env[v].aux) for v, ty in zip(state, tys)}, **dict(tb, **{'$taint': taint})))
        for _ in range(6):      # types of the loop-carried variables (and defaultdicts read): least fixed point over the iterations
            ends = []
            rec = lambda e: ends.append(e) or '?'
            self.mon.append(True)
            try:
                self.block(s.body, benv(), Tail(rec, set(state), {'continue': rec, 'break': rec}))
            finally:
                self.mon.pop()
            new, ntaint = list(tys), taint
            for e in ends:
                new = [join(t, e[v].ty if isinstance(e.get(v), V) else 'Unbound') for t, v in zip(new, state)]
                ntaint = ntaint | e['$taint']
            if (new, ntaint) == (tys, taint):
                break
            tys, taint = new, ntaint
        else:
            bad(s, 'types of the loop-carried variables do not stabilise')
        brk = has_break(s.body)

        def gen(mon):
            def fin(flag):
                def f(e):
                    t = tup([coerce(e.get(v), ty) for v, ty in zip(state, tys)])
                    return 'Ok (%s, %s)' % (flag, t) if mon else '(%s, %s)' % (flag, t) if brk else t
                return f
            return self.block(s.body, benv(), Tail(fin('false'), set(state), {'continue': fin('false'), 'break': fin('true')}))
        body, mon = self.region(gen, id(s))
        text = '%s %s %s (fun st x =>\nlet %s := st in\n%s%s)' % ('py_for' if mon else 'py_forb' if brk else 'py_fold', seq,
                                                                 tup([coerce(env[v], ty) for v, ty in zip(state, tys)]),
                                                                 pat([gname(v) for v in state]), lets, body)
        for v in assigned(s.body) + targets:
            env.pop(v, None)
        for v, ty in zip(state, tys):
            env[v] = V(gname(v), ty)
        env['$taint'] = taint - {v for v in assigned(s.body) + targets if v not in state}
        if mon:
            self.monadic()
        p = pat([gname(v) for v in state])
        return self.binds(pre) + ('do %s <- %s;\n' % (p.lstrip("'"), text) if mon else 'let %s := %s in\n' % (p, text)) + self.block(rest, env, tail)


# ------------------------------------------------------------------------------------------------------- functions
def translate(fn, name, checkers):
    params, gparams, res = FUNCS[name]
    if ast.unparse(fn.args) != params or fn.decorator_list:
        bad(fn, 'signature of ' + name)
    tr = Tr(name, checkers)
    names = assigned(fn.body) + [a.arg for a in fn.args.args]
    if len({gname(x) for x in names}) != len(set(names)):
        bad(fn, 'two python names with the same Gallina name')
    if name == 'is_header_entry':
        tr.mon.append(False)
        tail = Tail(lambda e: bad(fn, 'is_header_entry without return'), set(), {'return': lambda e, v: tr.cond(v, e, None)})
        body = tr.block(fn.body, {'entry': V('e', 'Msg'), '$taint': frozenset()}, tail)
    else:
        top = name == 'check_messages'
        env = {'ctx': V(None, 'Ctx'), '$out': V('[]', ('List', 'cdiag' if top else 'mdiag')), '$taint': frozenset()}
        if not top:
            env['message'] = V('e', 'Msg')
        if 'flags' in params:
            env['flags'] = V('flags', 'Info')

        def ret(e, v):
            if name == '_check_message_flags':
                if not (isinstance(v, ast.Name) and isinstance(e.get(v.id), V) and e[v.id].ty == 'Namespace'):
                    bad(fn, 'return value of _check_message_flags')
                fields = ['%s := %s' % (p, coerce(e.get(v.id + '.' + f), ty)) for f, p, ty in INFO]
                return 'Ok (%s, {| %s |})' % (e['$out'].text, '; '.join(fields))
            if v is not None and ast.unparse(v) != 'None':
                bad(v, 'return value')
            return 'Ok %s' % e['$out'].text
        tr.mon.append(True)
        end = (lambda e: bad(fn, '_check_message_flags without return')) if name == '_check_message_flags' else (lambda e: ret(e, None))
        body = tr.block(fn.body, env, Tail(end, set(), {'return': ret}))
    order = []
    for t in re.findall(r'\bt\d+\b', body):
        if t not in order:
            order.append(t)
    body = re.sub(r'\bt\d+\b', lambda m: 't%d' % (order.index(m.group(0)) + 1), body)     # temporaries numbered in order of appearance
    return 'Definition src_%s %s : %s :=\n%s.\n' % (name.lstrip('_'), gparams, res, body)


def main(emit):
    out = ['(* generated by tools/gen/gen_messages_src.py from the python ast of %s - do not edit *)' % SRC,
           'From Coq Require Import List ZArith NArith Bool.', 'From I18n Require Import Lib.Outcome Model.Messages Model.MessagesPy.',
           'Import ListNotations.', 'Local Open Scope bool_scope.', '']
    errors, funcs, checkers = [], {}, None
    try:
        tree = ast.parse(open(os.path.join(REPO, SRC), encoding='utf-8').read())
        cls = [c for c in tree.body if isinstance(c, ast.ClassDef) and c.name == 'Checker']
        defs = [f for f in tree.body if isinstance(f, ast.FunctionDef)] + [f for c in cls for f in c.body if isinstance(f, ast.FunctionDef)]
        for name in list(FUNCS) + ['__init__']:
            found = [f for f in defs if f.name == name]
            if len(cls) == 1 and len(found) == 1:
                funcs[name] = found[0]
        regs = [s for s in funcs['__init__'].body if isinstance(s, ast.Assign) and ast.unparse(s.targets[0]) == 'self._message_format_checkers']
        [reg] = regs
        if len(reg.targets) != 1 or not isinstance(reg.value, ast.Dict) or not all(isinstance(k, ast.Constant) and type(k.value) is str for k in reg.value.keys) \
                or sum(ast.unparse(n) == 'self._message_format_checkers' for n in ast.walk(tree)) != 2:
            raise Unsupported('self._message_format_checkers is not one dict literal with constant keys, read once')
        checkers = [k.value for k in reg.value.keys]
        out.append('Definition src_format_checkers : list (list N) :=\n  [%s].\n' % '; '.join(strlit(k) for k in checkers))
    except (Unsupported, KeyError, ValueError, OSError, SyntaxError) as e:
        errors.append('source: %s: %s' % (type(e).__name__, e))
    for name in FUNCS:
        try:
            if name not in funcs:
                raise Unsupported('expected exactly one definition of ' + name)
            out.append(translate(funcs[name], name, checkers))
        except (Unsupported, NeedMonad, KeyError, ValueError, IndexError, AttributeError, TypeError) as e:
            msg = '%s: %s: %s' % (name, type(e).__name__, e)
            errors.append(msg)
            out.append('(* NOT TRANSLATABLE - %s *)\nDefinition src_%s : unit := tt.\n' % (msg.replace('*)', '* )').replace('(*', '( *').replace('"', "'"), name.lstrip('_')))
    emit('MessagesSrc.v', '\n'.join(out))
    if errors:
        raise SystemExit('gen_messages_src: the source left the supported subset (tie broken):\n  ' + '\n  '.join(errors))


if __name__ == '__main__':
    import gen_tables
    main(gen_tables.emit)

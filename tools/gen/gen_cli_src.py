"""Source translator for C03 / C17:  lib/cli.py  (Checker.tag, check_regular_file, copy_options, check_deb, check_file, check_file_s,
check_all, parse_jobs, and the -j / ignore_tags / fake_root normalisation statements of main)  ->  coq/Generated/CliSrc.v
(python `ast` -> Gallina text).  Proofs/CliSrc.v proves every generated definition equal to the hand-written model (Model/Cli.v);
Props/C03.v and Props/C17.v restate that (C03_source_tie_*, C17_source_tie_*).  An edit of that Python code changes the generated
text and those proofs no longer compile.
FAIL CLOSED: anything outside the subset below raises Unsupported; that definition (and every one using it) is then emitted with
type `unit` (its tie lemma cannot compile) and main() exits non-zero after writing the file.

Meaning of a function body: `io L X T` (Model/CliPy.v) = (lines written to stdout, in order; Ret value | Raise exception).  A function
whose paths all end in `return` / `return None` / the end of the body / `return <call of such a function>` has T = unit.
copy_options is pure (no call in it can write or raise): its meaning is the value returned.  str = list N (code points).

Interface (table SPEC): the parameter list must be exactly the one given there (names are free except keyword-only ones).
  options            -> a record `options O` (CliPy.v): .unpack_deb .jobs .ignore_tags .fake_root -> o_unpack_deb .. o_fake_root
  self.options, self.fake_path (Checker.tag) -> parameters self_options, self_fake_path;  *extra -> one parameter v_extra : E
Oracles (parameters, added where used; external code is NOT translated):
  checker_check p o   = lib.check.Checker(p, options=o).check() as seen from cli (writes through Checker.tag; may raise)
  check_call argv q   = subprocess.check_call(argv) (q: stdout=DEVNULL given);  mkdtemp prefix = entering tempfile.TemporaryDirectory
  (prefix=..): the directory name, or an exception;  cleanup d = leaving that context;  os_walk d = list(os.walk(d));
  islink, isfile = os.path.*;  executor_map n f l = what iterating ProcessPoolExecutor(max_workers=n).map(f, l) yields (each
  item is a computation: it may re-raise the worker's exception);  get_tag = lib.tags.get_tag (None = KeyError);
  tag_format t p extra color = t.format(p, *extra, color=color);  get_cpu_count;  py_int = int(str) (ValueError possible).
Recursion: a call of a function defined LATER in the module (check_deb -> check_file) is the parameter rec_<name>; the
  parameter is handed on by every caller.  The knot (a package inside a package) is not tied here.

Expressions (pure).  str literal; local name; options.ATTR; a == b on str; x.endswith('lit') -> str_endswith; len(l) -> Z.of_nat
  (length l); int literal; a <= b, a < b, a > b, a >= b on Z; x is None / is not None on an optional; a or b, a and b, not a -> || &&
  negb (operands pure: no short-circuit effect);  x in S -> set_mem;  set(S) -> set_copy S (kind: OWNED set);  set() -> [];
  os.path.join(a, b[, c]) -> path_join (left-nested);  os.path.islink / isfile(p) -> islink / isfile p;  os.walk(d) -> os_walk d;
  [s1, s2, ..] of str -> list;  (a, b) of str -> pair;  None;  True / False;  dict(vars(o)) -> dict_copy (ns_vars o) (kind: OWNED
  dict);  argparse.Namespace(**d) -> ns_of_dict d;  functools.partial(f, options=o), f a translated function of (path, options)
  -> fun p_ => f p_ o;  executor.map(g, l), g such a partial -> executor_map n g l;  io_stdout.getvalue() only in the capture idiom.
Statements.
  v = e -> let v_v := e in;  S.add(x) / D.update(u) only on an OWNED local (bound by set(..) / dict(..) in this body) -> rebinding
    with set_add / dict_update; on anything else it would mutate the caller's object: Unsupported.
  v = f(..) / f(..) / return f(..) for a translated f or an effectful oracle -> io_bind (..) (fun v_v => ..) / tail call.
  options = copy_options(options, k=v, ..) -> src_copy_options o [Uk v; ..] (k in ignore_tags, fake_root).
  if / elif / else -> if c then (A; rest) else (B; rest) (rest duplicated);  raise UnsupportedFileType / raise ValueError /
    raise misc.DataIntegrityError(anything pure) -> io_raise;  return [None];  pass;  del <local>;  continue (in a loop).
  for x in L: / for a, b, c in os.walk(d): -> a structurally recursive Fixpoint <f>_loopN over the list (or over the list of
    computations executor_map yields), parameters = the locals the body mentions; the body may not assign a variable that is
    used after the loop, no break / else / return inside.
  try: return f(..)  except UnsupportedFileType: pass   -> io_try (f ..) is_unsupported_file_type (rest of the body)
  try: v = tags.get_tag(x)  except KeyError: raise E    -> match get_tag x with Some v_v => rest | None => io_raise E end
  with tempfile.TemporaryDirectory(prefix='..') as d: B -> io_bind (io_lift (mkdtemp "..")) (fun v_d => io_finally (B) (cleanup v_d)),
    B followed by nothing;  Executor = concurrent.futures.ProcessPoolExecutor; with Executor(max_workers=n) as ex: B -> B
    (leaving it waits for the workers: no output);  A = sys.stdout; sys.stdout = B = io.StringIO(); try: BODY finally:
    sys.stdout = A; return B.getvalue()  -> io_capture (BODY) (exactly this shape);  print(s) -> io_write [s];
    sys.stdout.write(s), s captured lines -> io_write s;  c = Checker(p, options=o); c.check() -> checker_check p o.
main: only the statement run from `if options.jobs is None:` to `options.fake_root = None` is translated, as a function of
  (jobs, parallel : option Z) giving (jobs, ignore_tags, fake_root): options.A = e / del options.A are updates of that tuple.
NOT translated (tied by the harness correspondence only): initialize_terminal, the argparse declarations and the -l handling
  of main (ling code is C19's), get_cpu_count, VersionAction, what the oracles do.
"""
import ast
import os
import re

REPO = os.environ.get('VERIF_REPO') or '/repo'
IO = 'io L X'
TYPES = {'str': 'str', 'bool': 'bool', 'Z': 'Z', 'strset': 'list str', 'strset!': 'list str', 'options': 'options O', 'dict!': 'options O',
         'updates': 'list opt_update', 'strs': 'list str', 'lines': 'list L', 'line': 'L', 'tag': 'T', 'extra': 'E', 'unit': 'unit',
         'optZ': 'option Z', 'optroot': 'option (str * str)', 'walk': 'list (str * list str * list str)', 'iolines': 'list (%s (list L))' % IO,
         'rec': 'str -> options O -> %s unit' % IO}
ORACLES = [('checker_check', 'str -> options O -> %s unit' % IO), ('check_call', 'list str -> bool -> %s unit' % IO),
           ('mkdtemp', 'str -> res X str'), ('cleanup', 'str -> %s unit' % IO), ('os_walk', 'str -> list (str * list str * list str)'),
           ('islink', 'str -> bool'), ('isfile', 'str -> bool'),
           ('executor_map', 'Z -> (str -> {0} (list L)) -> list str -> list ({0} (list L))'.format(IO)),
           ('get_tag', 'str -> option T'), ('tag_format', 'T -> str -> E -> bool -> res X L'), ('get_cpu_count', 'Z'), ('py_int', 'str -> res X Z')]
TYVARS = ['L', 'X', 'T', 'E', 'O']
# python name -> (class, coq name, signature text, kinds of the parameters, kind returned ('pure:K' = no io))
SPEC = {
    'tag': ('Checker', 'src_tag', 'self, tagname, *extra', {'tagname': 'str', 'extra': 'extra'}, 'unit'),
    'check_regular_file': (None, 'src_check_regular_file', 'filename, *, options', {'filename': 'str', 'options': 'options'}, 'unit'),
    'copy_options': (None, 'src_copy_options', 'options, **update', {'options': 'options', 'update': 'updates'}, 'pure:options'),
    'check_deb': (None, 'src_check_deb', 'filename, *, options', {'filename': 'str', 'options': 'options'}, 'unit'),
    'check_file': (None, 'src_check_file', 'path, *, options', {'path': 'str', 'options': 'options'}, 'unit'),
    'check_file_s': (None, 'src_check_file_s', 'path, *, options', {'path': 'str', 'options': 'options'}, 'lines'),
    'check_all': (None, 'src_check_all', 'paths, *, options', {'paths': 'strs', 'options': 'options'}, 'unit'),
    'parse_jobs': (None, 'src_parse_jobs', 's', {'s': 'str'}, 'Z'),
}
ORDER = list(SPEC)
SELF = {'options': 'options', 'fake_path': 'str'}
OPT_ATTRS = {'unpack_deb': 'bool', 'jobs': 'Z', 'ignore_tags': 'strset', 'fake_root': 'optroot'}
EXN = {'UnsupportedFileType': 'EUnsupportedFileType', 'ValueError': 'EValueError', 'misc.DataIntegrityError': 'EDataIntegrity'}
DONE = {}      # python name -> Fn (translated)
ZCMP = {ast.Lt: '<?', ast.LtE: '<=?', ast.Gt: '>?', ast.GtE: '>=?', ast.Eq: '=?'}


class Unsupported(Exception):
    pass


def bad(node, why):
    raise Unsupported('%s: line %s: %s' % (why, getattr(node, 'lineno', '?'), ast.unparse(node)[:100]))


def lit(s):
    return '[' + '; '.join(str(ord(c)) for c in s) + ']%N'


def ind(t):
    return '\n'.join('  ' + ln for ln in t.split('\n'))


def is_doc(s):
    return isinstance(s, ast.Expr) and isinstance(s.value, ast.Constant) and isinstance(s.value.value, str)


def is_name(e, name=None):
    return isinstance(e, ast.Name) and (name is None or e.id == name)


def strconst(e):
    return isinstance(e, ast.Constant) and type(e.value) is str


def names_in(text):
    return set(re.findall(r"\b[A-Za-z_][A-Za-z_0-9']*", text))


RET = 'io_ret tt'


def tyvars(sig):
    """the implicit type parameters a signature mentions"""
    vs = [v for v in TYVARS if v in names_in(sig)]
    return '{%s : Type} ' % ' '.join(vs) if vs else ''


class Fn:
    def __init__(self, pyname, fdef):
        self.py = pyname
        self.cls, self.coq, self.sig, self.kinds, self.ret = SPEC[pyname]
        self.fdef, self.ctx, self.recs, self.selfattrs, self.loops, self.loopkeys = fdef, [], [], [], [], []

    def use(self, o):
        if o not in self.ctx:
            self.ctx.append(o)
        return o

    def prefix(self, caller=None):
        """the oracle / recursion / self parameters of this function, as passed by `caller` (or as declared)"""
        who = caller or self
        for r in self.recs:
            if r not in who.recs:
                who.recs.append(r)
        return [who.use(o) for o, _ in ORACLES if o in self.ctx] + ['rec_' + r for r in self.recs]

    def apply(self, fn, args):
        return '%s %s' % (fn.coq, ' '.join(fn.prefix(self) + args))

    # ------------------------------------------------------------ pure expressions -> (text, kind)
    def ex(self, e, env):
        if strconst(e):
            return (lit(e.value), 'str')
        if isinstance(e, ast.Constant) and type(e.value) is int:
            return ('%d' % e.value if e.value >= 0 else '(%d)' % e.value, 'Z')
        if isinstance(e, ast.Constant) and type(e.value) is bool:
            return ('true' if e.value else 'false', 'bool')
        if isinstance(e, ast.Constant) and e.value is None:
            return ('None', 'none')
        if isinstance(e, ast.Name):
            if e.id in env:
                return env[e.id]
            bad(e, 'unknown name')
        if isinstance(e, ast.Attribute):
            if is_name(e.value, 'self') and self.cls and e.attr in SELF and 'self' not in env:
                if e.attr not in self.selfattrs:
                    self.selfattrs.append(e.attr)
                return ('self_' + e.attr, SELF[e.attr])
            t, k = self.ex(e.value, env)
            if k == 'options' and e.attr in OPT_ATTRS:
                return ('(o_%s %s)' % (e.attr, t), OPT_ATTRS[e.attr])
            bad(e, 'attribute')
        if isinstance(e, ast.Tuple) and len(e.elts) == 2:
            (a, ka), (b, kb) = self.ex(e.elts[0], env), self.ex(e.elts[1], env)
            if (ka, kb) == ('str', 'str'):
                return ('(%s, %s)' % (a, b), 'root')
            bad(e, 'tuple')
        if isinstance(e, ast.List) and e.elts:
            ts = [self.ex(x, env) for x in e.elts]
            if all(k == 'str' for _, k in ts):
                return ('[%s]' % '; '.join(t for t, _ in ts), 'strs')
            bad(e, 'list')
        if isinstance(e, ast.UnaryOp) and isinstance(e.op, ast.Not):
            return ('(negb %s)' % self.truth(e.operand, env), 'bool')
        if isinstance(e, ast.BoolOp):
            op = ' || ' if isinstance(e.op, ast.Or) else ' && '
            return ('(%s)' % op.join(self.truth(v, env) for v in e.values), 'bool')
        if isinstance(e, ast.Compare) and len(e.ops) == 1:
            op, (a, ka), (b, kb) = type(e.ops[0]), self.ex(e.left, env), self.ex(e.comparators[0], env)
            if ka == kb == 'Z' and op in ZCMP:
                return ('(%s %s %s)' % (a, ZCMP[op], b), 'bool')
            if ka == kb == 'str' and op in (ast.Eq, ast.NotEq):
                return (('(str_eqb %s %s)' if op is ast.Eq else '(negb (str_eqb %s %s))') % (a, b), 'bool')
            if ka == 'str' and kb in ('strset', 'strset!') and op in (ast.In, ast.NotIn):
                return (('(set_mem %s %s)' if op is ast.In else '(negb (set_mem %s %s))') % (a, b), 'bool')
            if ka in ('optZ', 'optroot') and kb == 'none' and op in (ast.Is, ast.IsNot):
                return ('(match %s with None => %s | Some _ => %s end)' % ((a,) + (('true', 'false') if op is ast.Is else ('false', 'true'))), 'bool')
            bad(e, 'comparison')
        if isinstance(e, ast.Call):
            return self.call(e, env)
        bad(e, 'expression')

    def truth(self, e, env):
        t, k = self.ex(e, env)
        if k != 'bool':
            bad(e, 'truth value of ' + k)
        return t

    def typed(self, e, env, kind):
        t, k = self.ex(e, env)
        if k != kind:
            bad(e, '%s expected, got %s' % (kind, k))
        return t

    def call(self, e, env):
        f, args, kws = e.func, e.args, e.keywords
        name = ast.unparse(f)
        root = name.split('.')[0]
        plain = not kws and not any(isinstance(a, ast.Starred) for a in args)
        if isinstance(f, ast.Attribute) and f.attr == 'endswith' and plain and len(args) == 1 and strconst(args[0]):
            return ('(str_endswith %s %s)' % (self.typed(f.value, env, 'str'), lit(args[0].value)), 'bool')
        if isinstance(f, ast.Attribute) and f.attr == 'map' and plain and len(args) == 2:
            (x, kx), (g, kg), l = self.ex(f.value, env), self.ex(args[0], env), self.typed(args[1], env, 'strs')
            if kx.startswith('executor:') and kg == 'fn:lines':
                return ('(%s %s %s %s)' % (self.use('executor_map'), kx[9:], g, l), 'iolines')
            bad(e, 'map')
        if root in env:
            bad(e, 'call of a local')
        if plain and len(args) == 1:
            if name == 'len':
                return ('(Z.of_nat (length %s))' % self.typed(args[0], env, 'strs'), 'Z')
            if name == 'set':
                t, k = self.ex(args[0], env)
                if k in ('strset', 'strset!'):
                    return ('(set_copy %s)' % t, 'strset!')
            if name == 'dict' and isinstance(args[0], ast.Call) and ast.unparse(args[0].func) == 'vars' and len(args[0].args) == 1 and not args[0].keywords:
                return ('(dict_copy (ns_vars %s))' % self.typed(args[0].args[0], env, 'options'), 'dict!')
            if name in ('os.path.islink', 'os.path.isfile'):
                return ('(%s %s)' % (self.use(name[8:]), self.typed(args[0], env, 'str')), 'bool')
            if name == 'os.walk':
                return ('(%s %s)' % (self.use('os_walk'), self.typed(args[0], env, 'str')), 'walk')
        if name == 'set' and not args and not kws:
            return ('[]', 'strset!')
        if name == 'os.path.join' and plain and len(args) in (2, 3):
            ts = [self.typed(a, env, 'str') for a in args]
            t = '(path_join %s %s)' % (ts[0], ts[1])
            return (t if len(ts) == 2 else '(path_join %s %s)' % (t, ts[2]), 'str')
        if name == 'argparse.Namespace' and not args and len(kws) == 1 and kws[0].arg is None:
            t, k = self.ex(kws[0].value, env)
            if k == 'dict!':
                return ('(ns_of_dict %s)' % t, 'options')
        if name == 'functools.partial' and len(args) == 1 and len(kws) == 1 and kws[0].arg == 'options' and is_name(args[0]):
            fn = DONE.get(args[0].id)
            if fn and args[0].id not in env and list(fn.kinds.values()) == ['str', 'options'] and not fn.ret.startswith('pure:'):
                return ('(fun p_ => %s)' % self.apply(fn, ['p_', self.typed(kws[0].value, env, 'options')]), 'fn:' + fn.ret)
        fn = DONE.get(name)
        if fn and fn.ret.startswith('pure:') and self.py != name:
            return (self.pure_call(fn, e, env), fn.ret[5:])
        bad(e, 'call')

    def pure_call(self, fn, e, env):
        if fn.py != 'copy_options' or len(e.args) != 1 or not e.keywords:
            bad(e, 'call of ' + fn.py)
        ups = []
        for kw in e.keywords:
            t, k = self.ex(kw.value, env)
            if kw.arg == 'ignore_tags' and k in ('strset', 'strset!'):
                ups.append('UIgnoreTags %s' % t)
            elif kw.arg == 'fake_root' and k == 'root':
                ups.append('UFakeRoot (Some %s)' % t)
            elif kw.arg == 'fake_root' and k == 'none':
                ups.append('UFakeRoot None')
            else:
                bad(kw.value, 'keyword %s of copy_options' % kw.arg)
        return '(%s %s [%s])' % (fn.coq, self.typed(e.args[0], env, 'options'), '; '.join(ups))

    # ------------------------------------------------------------ effectful calls -> (io text, kind of the value)
    def iocall(self, e, env):
        if not isinstance(e, ast.Call):
            return None
        f, args, kws = e.func, e.args, e.keywords
        name = ast.unparse(f)
        if any(isinstance(a, ast.Starred) for a in args) and name.split('.')[-1] != 'format':
            bad(e, 'starred argument')
        if name.split('.')[0] in env and isinstance(f, ast.Attribute) and is_name(f.value):
            t, k = env[f.value.id]
            if k.startswith('checker:') and f.attr == 'check' and not args and not kws:
                return ('%s %s' % (self.use('checker_check'), k[8:]), 'unit')
            if k == 'tag' and f.attr == 'format' and len(args) == 2 and isinstance(args[1], ast.Starred) and [w.arg for w in kws] == ['color']:
                p, x, c = self.typed(args[0], env, 'str'), self.typed(args[1].value, env, 'extra'), self.typed(kws[0].value, env, 'bool')
                return ('io_lift (%s %s %s %s %s)' % (self.use('tag_format'), t, p, x, c), 'line')
            return None
        if name.split('.')[0] in env:
            bad(e, 'call of a local')
        if name == 'print' and len(args) == 1 and not kws:
            return ('io_write [%s]' % self.typed(args[0], env, 'line'), 'unit')
        if name == 'sys.stdout.write' and len(args) == 1 and not kws:
            return ('io_write %s' % self.typed(args[0], env, 'lines'), 'unit')
        if name == 'ipc.check_call' and len(args) == 1 and [(w.arg, ast.unparse(w.value)) for w in kws] in ([], [('stdout', 'ipc.DEVNULL')]):
            return ('%s %s %s' % (self.use('check_call'), self.typed(args[0], env, 'strs'), 'true' if kws else 'false'), 'unit')
        if name == 'int' and len(args) == 1 and not kws:
            return ('io_lift (%s %s)' % (self.use('py_int'), self.typed(args[0], env, 'str')), 'Z')
        if name == 'get_cpu_count' and not args and not kws:
            return ('io_ret %s' % self.use('get_cpu_count'), 'Z')
        if name in SPEC and not SPEC[name][4].startswith('pure:') and SPEC[name][0] is None:
            kinds = SPEC[name][3]
            if len(args) != 1 or [w.arg for w in kws] != [k for k in list(kinds)[1:]]:
                bad(e, 'arguments of ' + name)
            ts = [self.typed(args[0], env, list(kinds.values())[0])] + [self.typed(w.value, env, kinds[w.arg]) for w in kws]
            if name in DONE:
                return (self.apply(DONE[name], ts), DONE[name].ret)
            if ORDER.index(name) > ORDER.index(self.py) or name == self.py:      # defined later: recursion left open
                if name not in self.recs:
                    self.recs.append(name)
                return ('rec_%s %s' % (name, ' '.join(ts)), SPEC[name][4])
            bad(e, name + ' could not be translated')
        return None

    # ------------------------------------------------------------ statements -> text of an `io` term
    def tr(self, stmts, env, loop=False):
        if not stmts:
            if loop or self.ret == 'unit':
                return RET
            bad(self.fdef, 'a path ends without `return <value>`')
        s, rest = stmts[0], stmts[1:]
        if isinstance(s, ast.Pass):
            return self.tr(rest, env, loop)
        if isinstance(s, ast.Continue) and loop:
            return RET
        if isinstance(s, ast.Delete) and all(is_name(t) and t.id in env for t in s.targets):
            return self.tr(rest, {k: v for k, v in env.items() if k not in [t.id for t in s.targets]}, loop)
        if isinstance(s, ast.Raise) and s.cause is None and s.exc is not None:
            x = s.exc
            if isinstance(x, ast.Call) and not x.keywords:
                for a in x.args:
                    for n in ast.walk(a):
                        if isinstance(n, (ast.Call, ast.Subscript, ast.Attribute, ast.BinOp)) or is_name(n) and n.id not in env:
                            bad(s, 'argument of the exception')
                x = x.func
            if ast.unparse(x) in EXN and ast.unparse(x).split('.')[0] not in env:
                return 'io_raise %s' % EXN[ast.unparse(x)]
            bad(s, 'raise')
        if isinstance(s, ast.Return) and not loop:
            if s.value is None or isinstance(s.value, ast.Constant) and s.value.value is None:
                if self.ret != 'unit':
                    bad(s, 'return None')
                return RET
            io = self.iocall(s.value, env)
            if io:
                if io[1] != self.ret:
                    bad(s, 'return of kind ' + io[1])
                return io[0]
            return 'io_ret %s' % self.typed(s.value, env, self.ret)
        if isinstance(s, ast.Expr) and isinstance(s.value, ast.Call):
            c = s.value
            if isinstance(c.func, ast.Attribute) and is_name(c.func.value) and c.func.attr in ('add', 'update') and len(c.args) == 1 and not c.keywords:
                v = c.func.value.id
                t, k = env.get(v, ('', ''))
                if (c.func.attr, k) == ('add', 'strset!'):
                    return 'let v_%s := set_add %s %s in\n%s' % (v, self.typed(c.args[0], env, 'str'), t, self.tr(rest, dict(env, **{v: ('v_' + v, k)}), loop))
                if (c.func.attr, k) == ('update', 'dict!'):
                    return 'let v_%s := dict_update %s %s in\n%s' % (v, t, self.typed(c.args[0], env, 'updates'), self.tr(rest, dict(env, **{v: ('v_' + v, k)}), loop))
                bad(s, 'mutation of an object this function does not own')
            io = self.iocall(c, env)
            if io:
                if not rest and io[1] == 'unit' and (loop or self.ret == 'unit'):
                    return io[0]
                return 'io_bind (%s) (fun _ =>\n%s)' % (io[0], self.tr(rest, env, loop))
            bad(s, 'expression statement')
        if isinstance(s, ast.Assign) and len(s.targets) == 1 and is_name(s.targets[0]) and s.targets[0].id != 'self':
            v, e = s.targets[0].id, s.value
            if isinstance(e, ast.Call) and ast.unparse(e.func) == 'Checker' and 'Checker' not in env and self.cls is None and len(e.args) == 1 and [w.arg for w in e.keywords] == ['options']:
                return self.tr(rest, dict(env, **{v: ('', 'checker:%s %s' % (self.typed(e.args[0], env, 'str'), self.typed(e.keywords[0].value, env, 'options')))}), loop)
            if ast.unparse(e) == 'concurrent.futures.ProcessPoolExecutor' and 'concurrent' not in env:
                return self.tr(rest, dict(env, **{v: ('', 'executorcls')}), loop)
            io = self.iocall(e, env)
            if io:
                return 'io_bind (%s) (fun v_%s =>\n%s)' % (io[0], v, self.tr(rest, dict(env, **{v: ('v_' + v, io[1])}), loop))
            t, k = self.ex(e, env)
            if k in TYPES or k.startswith('fn:'):
                return 'let v_%s := %s in\n%s' % (v, t, self.tr(rest, dict(env, **{v: ('v_' + v, k)}), loop))
            bad(s, 'assignment of kind ' + k)
        if isinstance(s, ast.If):
            c = self.truth(s.test, env)
            return 'if %s then\n%s\nelse\n%s' % (c, ind(self.tr(s.body + rest, env, loop)), ind(self.tr(s.orelse + rest, env, loop)))
        if isinstance(s, ast.For) and not s.orelse:
            return self.loop(s, rest, env, loop)
        if isinstance(s, ast.Try):
            return self.try_(s, rest, env, loop)
        if isinstance(s, ast.With) and len(s.items) == 1 and is_name(s.items[0].optional_vars):
            return self.with_(s, rest, env, loop)
        bad(s, 'statement')

    def loop(self, s, rest, env, loop):
        it, kit = self.ex(s.iter, env)
        if kit == 'strs' and is_name(s.target):
            pat, benv = 'v_' + s.target.id, {s.target.id: ('v_' + s.target.id, 'str')}
        elif kit == 'iolines' and is_name(s.target):
            pat, benv = 'm_', {s.target.id: ('v_' + s.target.id, 'lines')}
        elif kit == 'walk' and isinstance(s.target, ast.Tuple) and len(s.target.elts) == 3 and all(is_name(x) for x in s.target.elts) and len({x.id for x in s.target.elts}) == 3:
            a, b, c = [x.id for x in s.target.elts]
            pat, benv = '(v_%s, v_%s, v_%s)' % (a, b, c), {a: ('v_' + a, 'str'), b: ('v_' + b, 'strs'), c: ('v_' + c, 'strs')}
        else:
            bad(s, 'for loop over ' + kit)
        for n in ast.walk(ast.Module(s.body, [])):
            if isinstance(n, (ast.Break, ast.Return)):
                bad(n, 'break / return in a loop')
        assigned = {n.id for n in ast.walk(ast.Module(s.body, [])) if is_name(n) and isinstance(n.ctx, ast.Store)}
        used_after = {n.id for r in rest for n in ast.walk(r) if is_name(n)}
        if assigned & used_after or assigned & (set(env) - set(benv)):
            bad(s, 'the loop body assigns a variable of the enclosing body')
        name = 'LOOP_'
        body = self.tr(s.body, dict(env, **benv), True)
        if kit == 'iolines':
            body = 'io_bind m_ (fun %s =>\n%s)' % (benv[s.target.id][0], body)
        words = names_in(body)
        live = [(t, k) for v, (t, k) in env.items() if v not in benv and t in words and (k in TYPES or k.startswith('fn:'))]
        pre = [o for o, _ in ORACLES if o in words] + ['rec_' + r for r in SPEC if 'rec_' + r in words]
        params = ' '.join('(%s : %s)' % (o, dict(ORACLES)[o]) for o, _ in ORACLES if o in words)
        params += ''.join(' (rec_%s : %s)' % (r, TYPES['rec']) for r in SPEC if 'rec_' + r in words)
        params += ''.join(' (%s : %s)' % (t, TYPES[k]) for t, k in live)
        head = ' '.join([name] + pre + [t for t, _ in live])
        sig = '%s (l_ : %s) : %s unit' % (params, TYPES[kit], IO)
        text = ('Fixpoint %s %s%s :=\n  match l_ with\n  | [] => %s\n  | %s :: l_ =>\n    io_bind (\n%s)\n    (fun _ => %s l_)\n  end.'
                % (name, tyvars(sig), sig, RET, pat, ind(ind(ind(body))), head))
        if text not in self.loopkeys:      # the statements after an `if` are translated once per branch: one Fixpoint per distinct loop text
            self.loopkeys.append(text)
            self.loops.append(text.replace(name, '%s_loop%d' % (self.coq, len(self.loopkeys))))
        name = '%s_loop%d' % (self.coq, self.loopkeys.index(text) + 1)
        head = ' '.join([name] + head.split(' ')[1:])
        call = '%s %s' % (head, it)
        if not rest and (loop or self.ret == 'unit'):
            return call
        return 'io_bind (%s) (fun _ =>\n%s)' % (call, self.tr(rest, env, loop))

    def try_(self, s, rest, env, loop):
        if s.orelse:
            bad(s, 'try ... else')
        if not s.finalbody and len(s.handlers) == 1 and s.handlers[0].name is None and len(s.body) == 1 and s.handlers[0].type is not None:
            h, b, exn = s.handlers[0], s.body[0], ast.unparse(s.handlers[0].type)
            if (exn == 'UnsupportedFileType' and exn not in env and isinstance(b, ast.Return) and not loop and self.ret == 'unit'
                    and all(isinstance(x, ast.Pass) for x in h.body)):
                io = self.iocall(b.value, env)
                if io and io[1] == 'unit':
                    return 'io_try (%s) is_unsupported_file_type (\n%s)' % (io[0], ind(self.tr(rest, env, loop)))
            if (exn == 'KeyError' and exn not in env and isinstance(b, ast.Assign) and len(b.targets) == 1 and is_name(b.targets[0])
                    and isinstance(b.value, ast.Call) and ast.unparse(b.value.func) == 'tags.get_tag' and 'tags' not in env
                    and len(b.value.args) == 1 and not b.value.keywords and len(h.body) == 1 and isinstance(h.body[0], ast.Raise)):
                v = b.targets[0].id
                return ('match %s %s with\n| Some v_%s =>\n%s\n| None => %s\nend' % (
                    self.use('get_tag'), self.typed(b.value.args[0], env, 'str'), v,
                    ind(self.tr(rest, dict(env, **{v: ('v_' + v, 'tag')}), loop)), self.tr(h.body, env, loop)))
        bad(s, 'try statement')

    def capture(self, st, env):
        """A = sys.stdout; sys.stdout = B = io.StringIO(); try: BODY finally: sys.stdout = A; return B.getvalue()"""
        if len(st) != 4 or any(n in env for n in ('sys', 'io')):
            return None
        s1, s2, s3, s4 = st
        if not (isinstance(s1, ast.Assign) and len(s1.targets) == 1 and is_name(s1.targets[0]) and ast.unparse(s1.value) == 'sys.stdout'):
            return None
        a = s1.targets[0].id
        if not (isinstance(s2, ast.Assign) and len(s2.targets) == 2 and ast.unparse(s2.targets[0]) == 'sys.stdout' and is_name(s2.targets[1])
                and ast.unparse(s2.value) == 'io.StringIO()'):
            return None
        b = s2.targets[1].id
        if a == b or a in env or b in env or self.ret != 'lines':
            return None
        if not (isinstance(s3, ast.Try) and not s3.handlers and not s3.orelse and [ast.unparse(x) for x in s3.finalbody] == ['sys.stdout = %s' % a]):
            return None
        if ast.unparse(s4) != 'return %s.getvalue()' % b:
            return None
        for n in ast.walk(ast.Module(s3.body, [])):
            if is_name(n) and n.id in (a, b, 'sys', 'io') or isinstance(n, ast.Return):
                bad(n, 'the captured body may not touch the stream variables or return')
        ret, self.ret = self.ret, 'unit'
        try:
            body = self.tr(s3.body, env)
        finally:
            self.ret = ret
        return 'io_capture (\n%s)' % ind(body)

    def with_(self, s, rest, env, loop):
        item, v = s.items[0], s.items[0].optional_vars.id
        c = item.context_expr
        if not isinstance(c, ast.Call) or c.args or len(c.keywords) != 1:
            bad(s, 'with')
        kw, name = c.keywords[0], ast.unparse(c.func)
        if name == 'tempfile.TemporaryDirectory' and 'tempfile' not in env and kw.arg == 'prefix' and strconst(kw.value) and not rest and not loop and self.ret == 'unit':
            body = self.tr(s.body, dict(env, **{v: ('v_' + v, 'str')}), loop)
            return ('io_bind (io_lift (%s %s)) (fun v_%s =>\nio_finally (\n%s)\n(%s v_%s))' % (self.use('mkdtemp'), lit(kw.value.value), v, ind(body), self.use('cleanup'), v))
        if is_name(c.func) and env.get(c.func.id, ('', ''))[1] == 'executorcls' and kw.arg == 'max_workers' and not rest:
            return self.tr(s.body, dict(env, **{v: ('', 'executor:' + self.typed(kw.value, env, 'Z'))}), loop)
        bad(s, 'with')

    def run(self):
        a = self.fdef.args
        want = ast.parse('def f(%s): pass' % self.sig).body[0].args
        shape = lambda x: (len(x.posonlyargs), len(x.args), bool(x.vararg), bool(x.kwarg), [k.arg for k in x.kwonlyargs], [ast.unparse(d) for d in x.defaults],
                           [d and ast.unparse(d) for d in x.kw_defaults])
        if shape(a) != shape(want) or self.fdef.decorator_list:
            bad(self.fdef, 'signature (expected the shape of `%s`)' % self.sig)
        pos = lambda x: [p.arg for p in x.posonlyargs + x.args] + [p.arg for p in (x.vararg, x.kwarg) if p]
        ren = dict(zip(pos(want), pos(a)))
        if len(set(pos(a))) != len(pos(a)) or (pos(want)[:1] == ['self']) != (pos(a)[:1] == ['self']):
            bad(self.fdef, 'parameter names')
        kinds = {ren.get(v, v): k for v, k in self.kinds.items()}
        env = {v: ('v_' + v, k) for v, k in kinds.items()}
        st = [s for s in self.fdef.body if not is_doc(s)]
        pure = self.ret.startswith('pure:')
        if pure:
            body = self.trpure(st, env)
        else:
            body = self.capture(st, env) or self.tr(st, env)
        ps = ['(%s : %s)' % (o, ty) for o, ty in ORACLES if o in self.ctx]
        ps += ['(rec_%s : %s)' % (r, TYPES['rec']) for r in self.recs]
        ps += ['(self_%s : %s)' % (x, TYPES[SELF[x]]) for x in SELF if x in self.selfattrs]
        ps += ['(v_%s : %s)' % (v, TYPES[k]) for v, k in kinds.items()]
        rty = TYPES[self.ret[5:]] if pure else '%s (%s)' % (IO, TYPES[self.ret])
        sig = '%s : %s' % (' '.join(ps), rty)
        text = '\n'.join(self.loops + ['Definition %s %s%s :=\n%s.' % (self.coq, tyvars(sig), sig, ind(body))])
        return text

    def trpure(self, stmts, env):
        """a body without effects: lets and a final return"""
        if not stmts:
            bad(self.fdef, 'a path ends without `return <value>`')
        s, rest = stmts[0], stmts[1:]
        if isinstance(s, ast.Return) and s.value is not None and not rest:
            return self.typed(s.value, env, self.ret[5:])
        if isinstance(s, ast.Assign) and len(s.targets) == 1 and is_name(s.targets[0]):
            t, k = self.ex(s.value, env)
            if k in TYPES:
                return 'let v_%s := %s in\n%s' % (s.targets[0].id, t, self.trpure(rest, dict(env, **{s.targets[0].id: ('v_' + s.targets[0].id, k)})))
        if isinstance(s, ast.Expr) and isinstance(s.value, ast.Call) and not isinstance(self.iocall, type(None)):
            c = s.value
            if isinstance(c.func, ast.Attribute) and is_name(c.func.value) and c.func.attr == 'update' and len(c.args) == 1 and not c.keywords:
                v = c.func.value.id
                t, k = env.get(v, ('', ''))
                if k == 'dict!':
                    return 'let v_%s := dict_update %s %s in\n%s' % (v, t, self.typed(c.args[0], env, 'updates'), self.trpure(rest, dict(env, **{v: ('v_' + v, k)})))
                bad(s, 'mutation of an object this function does not own')
        bad(s, 'statement of a pure function')


# ---------------------------------------------------------------- the normalisation statements of main
def gen_main_norm(tree):
    """options.jobs / options.parallel are locals j, p : option Z; the run of statements from `if options.jobs is None:` to
    `options.fake_root = None` (exactly these statement forms) -> the final (jobs, ignore_tags, fake_root)"""
    main = top(tree, 'main', ast.FunctionDef)
    if ast.unparse(main.args) != '' or main.decorator_list:
        bad(main, 'signature of main')
    st = main.body
    texts = [ast.unparse(s) for s in st]
    first = [i for i, t in enumerate(texts) if t.startswith('if options.jobs is None:')]
    last = [i for i, t in enumerate(texts) if t.startswith('options.fake_root =')]
    if not first or len(last) != 1 or last[0] < first[0]:
        bad(main, 'cannot find the normalisation statements')
    # nothing before the slice may assign options.jobs / .parallel / .ignore_tags / .fake_root, nothing after it may touch options' attributes
    for s in st[:first[0]] + st[last[0] + 1:]:
        for n in ast.walk(s):
            if isinstance(n, ast.Attribute) and is_name(n.value, 'options') and isinstance(n.ctx, (ast.Store, ast.Del)) and n.attr in ('jobs', 'parallel', 'ignore_tags', 'fake_root'):
                bad(s, 'assignment outside the translated statements')
    after = texts[last[0] + 1:]
    if after != ['Checker.patch_environment()', 'check_all(files, options=options)']:
        bad(main, 'main must end with Checker.patch_environment(); check_all(files, options=options)')
    KIND = {'jobs': 'optZ', 'parallel': 'optZ', 'ignore_tags': 'strset', 'fake_root': 'optroot'}

    def val(e, env):
        if isinstance(e, ast.Attribute) and is_name(e.value, 'options') and e.attr in env:
            return env[e.attr]
        if isinstance(e, ast.Constant) and type(e.value) is int:
            return ('(Some %d)' % e.value, 'optZ') if e.value >= 0 else bad(e, 'negative literal')
        if isinstance(e, ast.Constant) and e.value is None:
            return ('None', 'none')
        if ast.unparse(e) == 'set()':
            return ('[]', 'strset')
        bad(e, 'value')

    def test(e, env):
        if isinstance(e, ast.Compare) and len(e.ops) == 1 and isinstance(e.ops[0], (ast.Is, ast.IsNot)) and ast.unparse(e.comparators[0]) == 'None':
            t, k = val(e.left, env)
            if k == 'optZ':
                return '(match %s with None => %s | Some _ => %s end)' % ((t,) + (('true', 'false') if isinstance(e.ops[0], ast.Is) else ('false', 'true')))
        bad(e, 'test')

    def tr(stmts, env):
        if not stmts:
            for a in ('jobs', 'ignore_tags', 'fake_root'):
                if a not in env:
                    bad(main, 'options.%s is not set' % a)
            if 'parallel' in env:
                bad(main, 'options.parallel must be deleted')
            return '(%s, %s, %s)' % (env['jobs'][0], env['ignore_tags'][0], env['fake_root'][0])
        s, rest = stmts[0], stmts[1:]
        if isinstance(s, ast.If):
            return 'if %s then\n%s\nelse\n%s' % (test(s.test, env), ind(tr(s.body + rest, env)), ind(tr(s.orelse + rest, env)))
        if isinstance(s, ast.Delete) and len(s.targets) == 1 and ast.unparse(s.targets[0]) == 'options.parallel' and 'parallel' in env:
            return tr(rest, {k: v for k, v in env.items() if k != 'parallel'})
        if isinstance(s, ast.Assign) and len(s.targets) == 1 and isinstance(s.targets[0], ast.Attribute) and is_name(s.targets[0].value, 'options') and s.targets[0].attr in KIND:
            a = s.targets[0].attr
            t, k = val(s.value, env)
            if k == 'none' and KIND[a].startswith('opt'):
                k = KIND[a]
            if k != KIND[a] or a == 'parallel':
                bad(s, 'kind of the value')
            return 'let o_%s_ := %s in\n%s' % (a, t, tr(rest, dict(env, **{a: ('o_%s_' % a, k)})))
        bad(s, 'statement')
    body = tr(st[first[0]:last[0] + 1], {'jobs': ('v_jobs', 'optZ'), 'parallel': ('v_parallel', 'optZ')})
    return ('(* cli.main, from `if options.jobs is None:` to `options.fake_root = None`; v_jobs / v_parallel = what argparse stored for -j / --parallel *)\n'
            'Definition src_main_normalise (v_jobs v_parallel : option Z) : option Z * list str * option (str * str) :=\n%s.' % ind(body))


# ---------------------------------------------------------------- module level
def binders(tree, name):
    return [s for s in ast.walk(tree) if
            isinstance(s, ast.Name) and isinstance(s.ctx, (ast.Store, ast.Del)) and s.id == name
            or isinstance(s, (ast.FunctionDef, ast.AsyncFunctionDef, ast.ClassDef)) and s.name == name
            or isinstance(s, ast.alias) and (s.asname or s.name.split('.')[0]) == name
            or isinstance(s, (ast.Global, ast.Nonlocal)) and name in s.names]


def one(nodes, what):
    nodes = list(nodes)
    if len(nodes) != 1:
        raise Unsupported('expected exactly one %s, found %d' % (what, len(nodes)))
    return nodes[0]


def top(tree, name, kind):
    s = one((s for s in tree.body if isinstance(s, kind) and getattr(s, 'name', None) == name), 'top-level definition of ' + name)
    one(binders(tree, name), 'binding of the name ' + name)      # also rejects a local variable of that name anywhere (simple, fail-closed)
    return s


IMPORTS = {'argparse': 'import argparse', 'concurrent': 'import concurrent.futures', 'functools': 'import functools', 'io': 'import io', 'os': 'import os',
           'ipc': 'import subprocess as ipc', 'sys': 'import sys', 'tempfile': 'import tempfile', 'misc': 'from lib import misc', 'tags': 'from lib import tags',
           'check': 'from lib import check'}


def check_module(tree):
    for name, text in IMPORTS.items():
        imp = [s for s in tree.body if isinstance(s, (ast.Import, ast.ImportFrom)) and ast.unparse(s) == text]
        if len(imp) != 1 or len(binders(tree, name)) != 1:
            raise Unsupported('the module must bind %s exactly once, by `%s`' % (name, text))
    for b in ('print', 'len', 'set', 'dict', 'vars', 'int', 'KeyError', 'ValueError'):
        if binders(tree, b):
            raise Unsupported('the builtin %s is rebound' % b)
    uft = top(tree, 'UnsupportedFileType', ast.ClassDef)
    if ast.unparse(uft) != 'class UnsupportedFileType(ValueError):\n    pass':
        bad(uft, 'class UnsupportedFileType must be an empty subclass of ValueError')
    chk = top(tree, 'Checker', ast.ClassDef)
    if [ast.unparse(b) for b in chk.bases] != ['check.Checker'] or chk.keywords or chk.decorator_list or [getattr(s, 'name', None) for s in chk.body if not is_doc(s)] != ['tag']:
        bad(chk, 'class Checker(check.Checker) must consist of the method tag')
    for s in tree.body:      # `f.__name__ = '..'` is the only module-level statement about a translated function besides its def
        if isinstance(s, (ast.Assign, ast.AugAssign, ast.Delete, ast.Expr)) and not is_doc(s):
            t = ast.unparse(s)
            if not re.fullmatch(r"__version__ = '[^']*'|parse_jobs\.__name__ = 'jobs'|__all__ = \['main'\]", t):
                bad(s, 'module-level statement')
    return '(* lib/cli.py: imports, UnsupportedFileType and class Checker have the expected shape *)'


def main(emit):
    out = ['(* generated by tools/gen/gen_cli_src.py from the python ast of lib/cli.py - do not edit *)',
           'From Coq Require Import List NArith ZArith Bool.', 'From I18n Require Import Model.CliPy.',
           'Import ListNotations.', 'Local Open Scope Z_scope.', 'Local Open Scope bool_scope.', '']
    errors, trees = [], {}
    DONE.clear()

    def load():
        trees['cli'] = ast.parse(open(os.path.join(REPO, 'lib/cli.py'), encoding='utf-8').read())
        return check_module(trees['cli'])

    def fn(pyname):
        def job():
            cls = SPEC[pyname][0]
            if cls is None:
                f = top(trees['cli'], pyname, ast.FunctionDef)
            else:
                f = one((x for x in top(trees['cli'], cls, ast.ClassDef).body if getattr(x, 'name', None) == pyname), 'definition of %s.%s' % (cls, pyname))
            if not isinstance(f, ast.FunctionDef):
                bad(f, 'not a plain function')
            t = Fn(pyname, f)
            text = t.run()
            DONE[pyname] = t
            return '(* cli.%s%s *)\n%s' % (cls + '.' if cls else '', pyname, text)
        return job
    jobs = [('src_module_shape', load)] + [(SPEC[p][1], fn(p)) for p in ORDER] + [('src_main_normalise', lambda: gen_main_norm(trees['cli']))]
    failed = set()
    for names, job in jobs:
        try:
            if 'src_module_shape' in failed:
                raise Unsupported('the module does not have the expected shape')
            text = job()
            dead = failed & set(re.findall(r'\bsrc_\w+', text))
            if dead:
                raise Unsupported('uses %s, which could not be translated' % ' '.join(sorted(dead)))
            out.append(text + '\n')
        except (Unsupported, KeyError, ValueError, IndexError, AttributeError, TypeError, OSError, SyntaxError) as e:
            msg = '%s: %s: %s' % (names, type(e).__name__, e)
            errors.append(msg)
            failed.update(names.split())
            out.append('(* NOT TRANSLATABLE - %s *)' % msg.replace('*)', '* )').replace('(*', '( *').replace('"', "'"))
            out += ['Definition %s : unit := tt.' % n for n in names.split()] + ['']
    emit('CliSrc.v', '\n'.join(out))
    if errors:
        raise SystemExit('gen_cli_src: the source left the supported subset (tie broken):\n  ' + '\n  '.join(errors))


if __name__ == '__main__':
    import gen_tables
    main(gen_tables.emit)

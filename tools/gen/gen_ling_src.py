"""Source translator for C19:  lib/ling.py (class Language, the lookups, parse_language, get_language_for_name) and
Checker.check_language of lib/check/__init__.py  ->  coq/Generated/LingSrc.v   (python `ast` -> Gallina text).

Proofs/LingSrc*.v prove every generated definition equal to the hand-written model Model/Ling.v; Props/C19.v restates that
(C19_source_tie_*).  An edit of the Python code changes the generated text and those proofs stop compiling.
FAIL CLOSED: a construct outside the subset below raises Unsupported; that function is then emitted as `Definition
src_... : unit := tt` (its tie lemma cannot compile), the others are still emitted, and main() exits non-zero.
The Gallina vocabulary (lres = LNorm | LRet | LExc, lbind, ltry, lfor, lcall, catches, py_index ...) is coq/Model/LingPy.v.

WHAT IS TRANSLATED (table FUNCS; parameter kinds are the interface, callers are checked against them)
  pure (a Gallina value):  _lookup_language_code, lookup_territory_code, Language._get_tuple, __eq__, __ne__, __str__
  monadic (lres Empty_set R): Language.__init__ (R = the object), fix_codes, remove_encoding, remove_nonlinguistic_modifier
      (R = (self afterwards, returned value)), parse_language, get_language_for_name (R = returned value),
      Checker.check_language (R = (tags emitted in order, ctx.language)).
  Oracles / tables, exactly as in the model (record pyenv E): _iso_639, _iso_3166, _name_to_code (pe_iso639, pe_iso3166,
  pe_names), _munch_language_name (pe_munch), _language_regexp.match + .groups() (pe_scan), str.upper (pe_upper);
  os.path.normpath / os.path.basename / sorted(set(.)) / str.strip / str.split are Model/Ling.v's normpath / basename /
  sorted_set / lg_strip / lg_split.  check_language reads (table ATOMS): ctx.metadata[F] -> metas / pls / pcs (a defaultdict:
  no KeyError), ctx.is_template, self.options.language -> opt, self.path -> path.

VALUES.  Every Python value has a static kind: str, optstr (str or None), falsy (an optstr known to be false), lang (a
  Language), optlang, none, bool, optbool, int (Z), strs (list of str), sset (set of str: duplicate-free list), src (one of
  the four language_source literals -> lsource), tup4 (_get_tuple), optgroups / groups (result of .match).  A Python
  variable is a Gallina variable v_<name><n>; `a = b` makes a and b the same Gallina term.  self.<attr> and ctx.language are
  variables too (a method starts with self.<attr> = projections of `self` and returns mkLang of their final values).

NARROWING.  `x is None` / `x is not None` / truth of x (optstr: not None and not ''; optlang: not None) as an `if` test
  becomes `match ... with None => | Some g =>`; inside, every variable that is the same Gallina term has the narrowed kind.
  `if N and c:` with N such a test is first rewritten to nested ifs (else part duplicated).  isinstance(x, Language) and
  None-tests on values that cannot be None are decided statically (dead branch dropped).

STATEMENTS (k = the translation of what follows)
  v = e, v += e (str), self.a = e, ctx.language = e, [v] = L (ValueError unless one element), del v, pass
  if / elif / else;  for v in <strs>: (no break / continue / else);  try / except C [/ except C2] [/ else] (no `as`, no finally)
  return [e];  raise C / raise C(...) (arguments dropped; C in EXC);  self.tag(NAME, ...) (table TAGS) appends to `out`
  x.m() / if x.m(): for a translated mutating method m rebinds x to the returned self; x must hold a call result and no
      other variable that is read later may refer to the same object (alias sets are tracked through copies and joins)
  S.add(e) on a set no other name refers to;  S.pop() only as the argument of a return under the guard `if len(S) == 1:`
  JOINS.  A compound statement C followed by k becomes  lbind C' (fun '(v1, .., vn) => k)  where v1..vn are the variables
  whose binding differs at the end of a branch of C from the binding before C (kinds joined: none + str = optstr ...; a
  variable not bound on every path is dropped).  Branches ending in return / raise do not take part.  When kinds do not
  join (or, in a pure function, a branch returns) k is duplicated into the branches instead.
  try: `ltry B' (fun vars-of-B => ELSE') (fun x => if catches C x then H' else LExc x)`; H' starts from the bindings at `try`;
      therefore every variable B changes before its last statement that can raise must be assigned first thing in every H.
  for: `lfor L s0 (fun v s => B')`, s = the variables bound before the loop that B assigns (kinds must not change).
  Calls that can raise and partial operations are hoisted in front of their statement in evaluation order:
      lcall (f E args) (fun g => ..);   D[k] on a table -> match lg_lookup .. | None => LExc XKeyError;   L[i] -> py_index ..
      | None => LExc XIndexError;   L.index(x) -> index_of .. | None => LExc XValueError;  they are rejected under and / or.
EXPRESSIONS.  None True False int and str literals; f-strings of str / lang values (lang -> src_str);  + on str, - on int;
  == != on str / optstr (lg_eqb, opt_eqb), on lang (src_eq / src_ne, the translated __eq__ / __ne__), on tup4, on int;
  < <= > >= on int;  `a in b` on str (lg_infix) and `a in _iso_3166` (lg_mem);  not, and, or (in tests only);  len;
  4-tuples;  set();  s[:k] (py_slice_to);  L[::-1] (rev);  x.split(c) / x.split(c, 1) / x.strip() / x.endswith(s) /
  x.replace(c, d) (c, d one character) / x.upper();  str.join(s, L);  map(str.strip, L);  D.get(k);  sorted(set(L));
  x.language_code / .territory_code / .encoding / .modifier;  m.groups();  Language(*t);  parse = parse_language.
CHECKED AROUND THE TRANSLATED CODE: the four exception class statements of ling.py (hierarchy used by `catches`), the set of
  methods of class Language (no __bool__ / __len__ / __hash__ may appear: truth of an object is `true`), single module-level
  definitions of the tables and of every translated function, no `global`, the decorator of check_language.
NOT TRANSLATED (tied by the harness correspondence only): the table loaders, _munch_language_name, the regex text, clone /
  is_almost_equal / *_principal_territory_code / get_plural_forms / get_unrepresentable_characters / _simple_format / __repr__
  (not used by check_language), Checker.tag and everything else of lib/check/__init__.py, lib/cli.py.
"""
import ast
import collections
import os

REPO = os.environ.get('VERIF_REPO') or '/repo'


class Unsupported(Exception):
    pass


def bad(node, why):
    raise Unsupported('%s: line %s: %s' % (why, getattr(node, 'lineno', '?'), ast.unparse(node)[:90] if isinstance(node, ast.AST) else node))


Val = collections.namedtuple('Val', 'text kind ids')
NONE = Val('None', 'none', frozenset())
TY = {'str': 'str', 'optstr': 'option str', 'falsy': 'option str', 'lang': 'language', 'optlang': 'option language',
      'bool': 'bool', 'optbool': 'option bool', 'int': 'Z', 'strs': 'list str', 'sset': 'list str', 'src': 'lsource',
      'tup4': 'tup4', 'groups': 'tup4', 'optgroups': 'option tup4', 'diags': 'list ldiag', 'none': 'unit'}
OPT = {'str': 'optstr', 'lang': 'optlang', 'bool': 'optbool', 'groups': 'optgroups'}
BASE = {v: k for k, v in OPT.items()}
EXC = {'ValueError': 'XValueError', 'TypeError': 'XTypeError', 'LookupError': 'XLookupError', 'KeyError': 'XKeyError',
       'LanguageError': 'XLanguageError', 'LanguageSyntaxError': 'XLanguageSyntaxError',
       'FixingLanguageCodesFailed': 'XFixingLanguageCodesFailed', 'FixingLanguageEncodingFailed': 'XFixingLanguageEncodingFailed'}
LING_EXC = ('LanguageError', 'LanguageSyntaxError', 'FixingLanguageCodesFailed', 'FixingLanguageEncodingFailed')
CLASSES = ['class LanguageError(ValueError):\n    pass', 'class LanguageSyntaxError(LanguageError):\n    pass',
           'class FixingLanguageCodesFailed(LanguageError):\n    pass', 'class FixingLanguageEncodingFailed(LanguageError):\n    pass']
TABLES = {'_iso_639': ('(pe_iso639 E)', 'dict'), '_name_to_code': ('(pe_names E)', 'dict'), '_iso_3166': ('(pe_iso3166 E)', 'strset')}
TABLE_DEFS = ['[_iso_639, _iso_3166] = _read_iso_codes()', '[_primary_languages, _name_to_code] = _read_primary_languages()']
ATTRS = {'language_code': ('l_lang', 'str'), 'territory_code': ('l_terr', 'optstr'), 'encoding': ('l_enc', 'optstr'), 'modifier': ('l_mod', 'optstr')}
OTHER_METHODS = {'clone', 'is_almost_equal', 'get_principal_territory_code', 'remove_principal_territory_code', 'get_plural_forms',
                 'get_unrepresentable_characters', '_simple_format', '__repr__'}
SRC_NAMES = {'command-line': 'SrcCommandLine', 'pathname': 'SrcPathname', 'Language header field': 'SrcLanguageField',
             'X-Poedit-Language header field': 'SrcPoedit'}
ATOMS = {"ctx.metadata['Language']": Val('metas', 'strs', frozenset()), "ctx.metadata['X-Poedit-Language']": Val('pls', 'strs', frozenset()),
         "ctx.metadata['X-Poedit-Country']": Val('pcs', 'strs', frozenset()), 'ctx.is_template': Val('is_template', 'bool', frozenset()),
         'self.options.language': Val('opt', 'optlang', frozenset(['external'])), 'self.path': Val('path', 'str', frozenset())}
DECORATOR = "checks_header_fields('Language', 'X-Poedit-Language', 'X-Poedit-Country')"
# tag name -> alternatives (argument slots, constructor).  Slots: a kind (data), ('c', text) = that str constant (decoration),
# ('s', text) = tags.safestr(that constant) (decoration);  'src' = tags.safestr('(<source name>)') or tags.safestr(f'({v})')
TAGS = {
    'duplicate-header-field-language': [([], 'DDupLanguage')],
    'no-language-header-field': [([], 'DNoLanguageField None'), ([('s', 'Language:'), 'lang'], 'DNoLanguageField (Some {0})')],
    'invalid-language': [(['str'], 'DInvalidLanguage {0} None'), (['str', ('c', '=>'), 'lang'], 'DInvalidLanguage {0} (Some {1})')],
    'encoding-in-language-header-field': [(['str'], 'DEncodingInField {0}')],
    'language-variant-does-not-affect-translation': [(['str'], 'DVariantNoEffect {0}')],
    'language-disparity': [(['lang', 'src', ('c', '!='), 'lang', 'src'], 'DDisparity {0} {1} {2} {3}')],
    'duplicate-header-field-x-poedit': [([('c', 'X-Poedit-Language')], 'DDupPoedit false'), ([('c', 'X-Poedit-Country')], 'DDupPoedit true')],
    'unknown-poedit-language': [(['str'], 'DUnknownPoedit {0}')],
    'unable-to-determine-language': [([], 'DUnable')],
}
S, O = 'str', 'optstr'
# (python name, coq name, mode, parameters after self: (name, kind))
FUNCS = [
    ('_lookup_language_code', 'src_lookup_language_code', 'pure', [('language', S)]),
    ('lookup_territory_code', 'src_lookup_territory_code', 'pure', [('cc', S)]),
    ('Language.__init__', 'src_init', 'init', [('language_code', S), ('territory_code', O), ('encoding', O), ('modifier', O)]),
    ('Language._get_tuple', 'src_get_tuple', 'pure', []),
    ('Language.__eq__', 'src_eq', 'pure', [('other', 'lang')]),
    ('Language.__ne__', 'src_ne', 'pure', [('other', 'lang')]),
    ('Language.fix_codes', 'src_fix_codes', 'method', []),
    ('Language.remove_encoding', 'src_remove_encoding', 'method', []),
    ('Language.remove_nonlinguistic_modifier', 'src_remove_nonlinguistic_modifier', 'method', []),
    ('Language.__str__', 'src_str', 'pure', []),
    ('parse_language', 'src_parse_language', 'value', [('s', S)]),
    ('get_language_for_name', 'src_get_language_for_name', 'value', [('name', S)]),
    ('Checker.check_language', 'src_check_language', 'check', []),
]
DONE = {}       # python name -> (coq name, mode, parameter kinds, kind of the returned value)


def coq_str(s):
    return '[' + '; '.join(str(ord(c)) for c in s) + ']'


def join(a, b):
    if a == b:
        return a
    for x, y in ((a, b), (b, a)):
        if x == 'none':
            return OPT.get(y) or (y if y in BASE else 'optstr' if y == 'falsy' else None)
        if OPT.get(x) == y:
            return y
        if x == 'falsy' and y in ('str', 'optstr'):
            return 'optstr'
    return None


def coerce(v, to, node='?'):
    if v.kind == to or (v.kind == 'falsy' and to == 'optstr'):
        return v.text
    if v.kind == 'none' and to in BASE:
        return 'None'
    if OPT.get(v.kind) == to:
        return '(Some %s)' % v.text
    bad(node, 'a value of kind %s where %s is needed' % (v.kind, to))


def ind(t):
    return '\n'.join('  ' + ln for ln in t.split('\n'))


def pat(names):
    return '_' if not names else names[0] if len(names) == 1 else "'(%s)" % ', '.join(names)


def tup(texts):
    return 'tt' if not texts else texts[0] if len(texts) == 1 else '(%s)' % ', '.join(texts)


def assigned(stmts):
    """python names a list of statements may rebind or mutate (receivers of method calls and `out` included)"""
    out = set()
    for s in stmts:
        for n in ast.walk(s):
            if isinstance(n, (ast.Name, ast.Attribute)) and isinstance(n.ctx, (ast.Store, ast.Del)):
                out.add(ast.unparse(n))
            elif isinstance(n, ast.Call) and isinstance(n.func, ast.Attribute):
                out.add('out' if ast.unparse(n.func) == 'self.tag' else ast.unparse(n.func.value))
    return out


def cannot_raise(s):
    simple = lambda e: all(isinstance(n, (ast.Name, ast.Constant, ast.JoinedStr, ast.FormattedValue, ast.Load, ast.Attribute, ast.Call))
                           and (not isinstance(n, ast.Call) or ast.unparse(n.func) in ('self.tag', 'tags.safestr')) for n in ast.walk(e))
    if isinstance(s, ast.Pass):
        return True
    if isinstance(s, ast.Expr) and isinstance(s.value, ast.Call) and ast.unparse(s.value.func) == 'self.tag':
        return simple(s.value)
    return isinstance(s, ast.Assign) and len(s.targets) == 1 and isinstance(s.targets[0], ast.Name) and isinstance(s.value, (ast.Name, ast.Constant))


class Fn:
    def __init__(self, pyname, name, mode, params, fdef, module):
        self.pyname, self.name, self.mode, self.params, self.fdef, self.module = pyname, name, mode, params, fdef, module
        self.pure = mode == 'pure'
        self.n, self.tk, self.pre, self.upd, self.guards, self.loops = 0, 0, [], {}, [], []
        self.rets, self.allow_mut, self.allow_pop = [], None, False
        self.loads = [(n.lineno, n.col_offset, ast.unparse(n)) for n in ast.walk(fdef)
                      if isinstance(n, (ast.Name, ast.Attribute)) and isinstance(n.ctx, ast.Load)]

    # ------------------------------------------------------------ helpers
    def fresh(self, stem):
        self.n += 1
        return 'v_%s%d' % (''.join(c if c.isalnum() else '_' for c in stem), self.n)

    def take(self):
        pre, self.pre = self.pre, []
        return pre

    def wrap(self, pre, text):
        for p in reversed(pre):
            text = p.replace('\x01', text)
        return text

    def hoist(self, fmt):
        self.pre.append(fmt)        # \x01 marks the place of the statement

    def excname(self, node):
        """an exception class named in raise / except -> its key in EXC"""
        cn = ast.unparse(node)
        own = cn[5:] if self.module == 'check' and cn.startswith('ling.') else cn if self.module == 'ling' else None
        if own in LING_EXC:
            return own
        if cn in EXC and cn not in LING_EXC:
            return cn
        bad(node, 'exception class')

    def exc(self, x):
        if self.pure:
            raise Unsupported('%s: an exception in a function translated as pure' % self.pyname)
        return 'LExc %s' % x

    def live_after(self, node, env, but):
        """python names other than `but` read after `node` (or anywhere in an enclosing loop)"""
        pos = (node.end_lineno, node.end_col_offset)
        names = {t for (l, c, t) in self.loads if (l, c) >= pos}
        for lp in self.loops:
            names |= {ast.unparse(n) for n in ast.walk(lp) if isinstance(n, (ast.Name, ast.Attribute))}
        return {n for n in env if n != but and (n in names or n in ('ctx.language', 'out'))}

    # ------------------------------------------------------------ expressions -> Val
    def ex(self, e, env):
        src = ast.unparse(e)
        if self.mode == 'check' and src in ATOMS:
            return ATOMS[src]
        if isinstance(e, ast.Constant):
            v = e.value
            if v is None:
                return NONE
            if v is True or v is False:
                return Val('true' if v else 'false', 'bool', frozenset())
            if type(v) is int:
                return Val('(%d)%%Z' % v, 'int', frozenset())
            if type(v) is str:
                return Val(coq_str(v), 'str', frozenset())
        elif isinstance(e, (ast.Name, ast.Attribute)) and src in env:
            return env[src]
        elif isinstance(e, ast.Name) and e.id in DONE and self.module == 'ling':
            return Val(e.id, 'func', frozenset())
        elif isinstance(e, ast.Attribute) and e.attr in ATTRS:
            o = self.ex(e.value, env)
            if o.kind == 'lang':
                return Val('(%s %s)' % (ATTRS[e.attr][0], o.text), ATTRS[e.attr][1], frozenset())
        elif isinstance(e, ast.JoinedStr):
            parts = []
            for p in e.values:
                if isinstance(p, ast.Constant) and type(p.value) is str:
                    parts.append(coq_str(p.value))
                elif isinstance(p, ast.FormattedValue) and p.conversion == -1 and p.format_spec is None:
                    v = self.ex(p.value, env)
                    if v.kind not in ('str', 'lang'):
                        bad(e, 'formatting a value of kind ' + v.kind)
                    parts.append(v.text if v.kind == 'str' else '(%s E %s)' % (self.done('Language.__str__', e)[0], v.text))
                else:
                    bad(e, 'f-string part')
            return Val('(%s)' % ' ++ '.join(parts), 'str', frozenset())
        elif isinstance(e, ast.Tuple) and len(e.elts) == 4:
            vs = [self.ex(x, env) for x in e.elts]
            return Val('(%s)' % ', '.join(coerce(v, k, e) for v, k in zip(vs, (S, O, O, O))), 'tup4', frozenset())
        elif isinstance(e, ast.BinOp):
            a, b = self.ex(e.left, env), self.ex(e.right, env)
            if isinstance(e.op, ast.Add) and a.kind == b.kind == 'str':
                return Val('(%s ++ %s)' % (a.text, b.text), 'str', frozenset())
            if isinstance(e.op, ast.Sub) and a.kind == b.kind == 'int':
                return Val('(%s - %s)%%Z' % (a.text, b.text), 'int', frozenset())
        elif isinstance(e, ast.UnaryOp) and isinstance(e.op, ast.Not):
            t = self.truth(e.operand, env)
            return Val({'true': 'false', 'false': 'true'}.get(t, '(negb %s)' % t), 'bool', frozenset())
        elif isinstance(e, ast.UnaryOp) and isinstance(e.op, ast.USub) and isinstance(e.operand, ast.Constant) and type(e.operand.value) is int:
            return Val('(-%d)%%Z' % e.operand.value, 'int', frozenset())
        elif isinstance(e, ast.Compare) and len(e.ops) == 1:
            return Val(self.compare(e, env), 'bool', frozenset())
        elif isinstance(e, ast.Subscript):
            return self.subscript(e, env)
        elif isinstance(e, ast.Call):
            return self.call(e, env)
        bad(e, 'expression')

    def subscript(self, e, env):
        sl = e.slice
        if isinstance(e.value, ast.Name) and e.value.id in TABLES and e.value.id not in env and self.module == 'ling':
            t, tk = TABLES[e.value.id]
            k = self.ex(sl, env)
            if tk == 'dict' and k.kind == 'str':
                g = self.fresh('code')
                self.hoist('match lg_lookup %s %s with\n| None => %s\n| Some %s =>\n\x01\nend' % (t, k.text, self.exc('XKeyError'), g))
                return Val(g, 'str', frozenset())
        o = self.ex(e.value, env)
        if isinstance(sl, ast.Slice):
            if sl.lower is None and sl.step is None and sl.upper is not None and o.kind == 'str':
                u = self.ex(sl.upper, env)
                if u.kind == 'int':
                    return Val('(py_slice_to %s %s)' % (o.text, u.text), 'str', frozenset())
            if sl.lower is None and sl.upper is None and ast.unparse(sl.step or e) == '-1' and o.kind == 'strs':
                return Val('(rev %s)' % o.text, 'strs', frozenset())
        elif o.kind == 'strs':
            i = self.ex(sl, env)
            if i.kind == 'int':
                g = self.fresh('item')
                self.hoist('match py_index %s %s with\n| None => %s\n| Some %s =>\n\x01\nend' % (o.text, i.text, self.exc('XIndexError'), g))
                return Val(g, 'str', frozenset())
        bad(e, 'subscript')

    def compare(self, e, env):
        op, a, b = e.ops[0], self.ex(e.left, env), self.ex(e.comparators[0], env)
        neg = lambda c, n: {'true': 'false', 'false': 'true'}.get(c, '(negb %s)' % c) if n else c
        strish = ('str', 'optstr', 'falsy', 'none')
        if isinstance(op, (ast.Is, ast.IsNot)) and b.kind == 'none':
            c = 'true' if a.kind == 'none' else '(negb (is_some %s))' % a.text if a.kind in BASE or a.kind == 'falsy' else 'false'
            return neg(c, isinstance(op, ast.IsNot))
        if isinstance(op, (ast.Eq, ast.NotEq)):
            n = isinstance(op, ast.NotEq)
            if a.kind == b.kind == 'str':
                return neg('(lg_eqb %s %s)' % (a.text, b.text), n)
            if a.kind in strish and b.kind in strish:
                return neg('(opt_eqb %s %s)' % (coerce(a, O, e), coerce(b, O, e)), n)
            if a.kind == b.kind == 'lang':      # a == b -> type(a).__eq__(a, b);  a != b -> __ne__
                return '(%s E %s %s)' % (self.done('Language.__ne__' if n else 'Language.__eq__', e)[0], a.text, b.text)
            if a.kind == b.kind == 'tup4':
                return neg('(tup4_eqb %s %s)' % (a.text, b.text), n)
            if a.kind == b.kind == 'int':
                return neg('(%s =? %s)%%Z' % (a.text, b.text), n)
        if type(op) in (ast.Lt, ast.LtE, ast.Gt, ast.GtE) and a.kind == b.kind == 'int':
            return '(%s %s %s)%%Z' % (a.text, {ast.Lt: '<?', ast.LtE: '<=?', ast.Gt: '>?', ast.GtE: '>=?'}[type(op)], b.text)
        if isinstance(op, (ast.In, ast.NotIn)):
            if a.kind == b.kind == 'str':
                return neg('(lg_infix %s %s)' % (a.text, b.text), isinstance(op, ast.NotIn))
        bad(e, 'comparison of %s with %s' % (a.kind, b.kind))

    def truth(self, e, env):
        """truth value of e in a boolean context -> Gallina bool text"""
        if isinstance(e, ast.BoolOp):
            parts = []
            for i, v in enumerate(e.values):
                n0 = len(self.pre)
                parts.append(self.truth(v, env))
                if i and (len(self.pre) != n0 or self.upd):
                    bad(e, 'an operation that can raise or mutate, evaluated conditionally')
            return '(%s)' % (' && ' if isinstance(e.op, ast.And) else ' || ').join(parts)
        if isinstance(e, ast.Compare) and len(e.ops) == 1 and isinstance(e.ops[0], (ast.In, ast.NotIn)) \
                and isinstance(e.comparators[0], ast.Name) and TABLES.get(e.comparators[0].id, ('', ''))[1] == 'strset' \
                and e.comparators[0].id not in env and self.module == 'ling':
            a = self.ex(e.left, env)
            if a.kind == 'str':
                c = '(lg_mem %s %s)' % (TABLES[e.comparators[0].id][0], a.text)
                return '(negb %s)' % c if isinstance(e.ops[0], ast.NotIn) else c
        v = self.ex(e, env)
        fmt = {'bool': '%s', 'optbool': '(opt_true %s)', 'optstr': '(is_some (truthy_str %s))', 'str': '(negb (is_nil %s))',
               'optlang': '(is_some %s)', 'int': '(negb (%s =? 0)%%Z)', 'strs': '(negb (is_nil %s))', 'sset': '(negb (is_nil %s))'}
        if v.kind in ('falsy', 'none'):
            return 'false'
        if v.kind == 'lang':         # class Language defines neither __bool__ nor __len__ (checked)
            return 'true'
        if v.kind not in fmt:
            bad(e, 'truth value of ' + v.kind)
        return fmt[v.kind] % v.text

    def done(self, pyname, node):
        if pyname not in DONE:
            bad(node, 'call of %s, which is not translated' % pyname)
        return DONE[pyname]

    def args(self, call, env, kinds):
        if call.keywords or len(call.args) != len(kinds) or any(isinstance(a, ast.Starred) for a in call.args):
            bad(call, 'arguments')
        return [coerce(self.ex(a, env), k, call) for a, k in zip(call.args, kinds)]

    def invoke(self, pyname, call, env, recv=None):
        """a call of a translated function / method"""
        name, mode, kinds, rk = self.done(pyname, call)
        a = ([recv.text] if recv else []) + self.args(call, env, kinds)
        app = ' '.join([name, 'E'] + a)
        if mode == 'pure':
            return Val('(%s)' % app, rk, frozenset())
        if self.pure:
            bad(call, 'call of a function that can raise, in a function translated as pure')
        g = self.fresh(pyname.split('.')[-1].strip('_'))
        ids = frozenset([g]) if rk in ('lang', 'optlang') else frozenset()
        if mode == 'method':
            x = ast.unparse(call.func.value)
            if self.allow_mut is not call or not isinstance(call.func.value, ast.Name) or x not in env:
                bad(call, 'a mutating method may only be called as a statement or as a whole `if` test, on a local variable')
            if 'external' in recv.ids or not recv.ids:
                bad(call, 'mutation of an object that did not come from a call in this function')
            for y in self.live_after(call, env, x):
                if env[y].ids & recv.ids:
                    bad(call, 'mutation of an object that %s may also refer to' % y)
            gs = self.fresh(x)
            self.hoist("lcall (%s) (fun '(%s, %s) =>\n\x01)" % (app, gs, g))
            self.upd[x] = Val(gs, 'lang', recv.ids)
        else:
            self.hoist('lcall (%s) (fun %s =>\n\x01)' % (app, g))
        return Val(g, rk, ids)

    def call(self, e, env):
        f, fs = e.func, ast.unparse(e.func)
        one = lambda a: isinstance(a, ast.Constant) and type(a.value) is str and len(a.value) == 1
        if isinstance(f, ast.Name) and f.id in env and env[f.id].kind == 'func':
            return self.invoke(env[f.id].text, e, env)
        if self.module == 'ling' and isinstance(f, ast.Name) and f.id in DONE and f.id not in env:
            return self.invoke(f.id, e, env)
        if self.module == 'check' and fs in ('ling.parse_language', 'ling.get_language_for_name'):
            return self.invoke(f.attr, e, env)
        if fs == 'Language' and self.module == 'ling' and len(e.args) == 1 and isinstance(e.args[0], ast.Starred) and not e.keywords:
            t = self.ex(e.args[0].value, env)
            if t.kind == 'tup4':
                gs = [self.fresh('g') for _ in range(4)]
                g = self.fresh('obj')
                self.hoist("let '(%s) := %s in\nlcall (%s E %s) (fun %s =>\n\x01)" % (', '.join(gs), t.text, self.done('Language.__init__', e)[0], ' '.join(gs), g))
                return Val(g, 'lang', frozenset([g]))
        if fs == 'len' and len(e.args) == 1 and not e.keywords:
            v = self.ex(e.args[0], env)
            if v.kind in ('strs', 'sset', 'str'):
                return Val('(Z.of_nat (length %s))' % v.text, 'int', frozenset())
        if fs == 'set' and not e.args and not e.keywords:
            return Val('[]', 'sset', frozenset())
        if fs == 'isinstance' and len(e.args) == 2 and ast.unparse(e.args[1]) == 'Language' and self.module == 'ling':
            if self.ex(e.args[0], env).kind == 'lang':
                return Val('true', 'bool', frozenset())
        if fs == 'sorted' and len(e.args) == 1 and not e.keywords and isinstance(e.args[0], ast.Call) and ast.unparse(e.args[0].func) == 'set' \
                and len(e.args[0].args) == 1 and not e.args[0].keywords:
            v = self.ex(e.args[0].args[0], env)
            if v.kind == 'strs':
                return Val('(sorted_set %s)' % v.text, 'strs', frozenset())
        if fs in ('os.path.normpath', 'os.path.basename') and self.module == 'check':
            return Val('(%s %s)' % (f.attr, self.args(e, env, [S])[0]), 'str', frozenset())
        if fs == 'str.join':
            a = self.args(e, env, [S, 'strs'])
            return Val('(py_join %s %s)' % (a[0], a[1]), 'str', frozenset())
        if fs == 'map' and len(e.args) == 2 and ast.unparse(e.args[0]) == 'str.strip' and not e.keywords:
            v = self.ex(e.args[1], env)
            if v.kind == 'strs':
                return Val('(map lg_strip %s)' % v.text, 'strs', frozenset())
        if fs == '_munch_language_name' and self.module == 'ling':
            return Val('(pe_munch E %s)' % self.args(e, env, [S])[0], 'str', frozenset())
        if fs == '_language_regexp.match' and self.module == 'ling':
            return Val('(pe_scan E %s)' % self.args(e, env, [S])[0], 'optgroups', frozenset())
        if isinstance(f, ast.Attribute) and isinstance(f.value, ast.Name) and f.value.id in TABLES and f.value.id not in env and f.attr == 'get' \
                and TABLES[f.value.id][1] == 'dict' and self.module == 'ling':
            return Val('(lg_lookup %s %s)' % (TABLES[f.value.id][0], self.args(e, env, [S])[0]), 'optstr', frozenset())
        if isinstance(f, ast.Attribute) and not e.keywords:
            o, m, a = self.ex(f.value, env), f.attr, e.args
            if o.kind == 'lang' and 'Language.' + m in DONE:
                return self.invoke('Language.' + m, e, env, recv=o)
            if o.kind == 'groups' and m == 'groups' and not a:
                return Val(o.text, 'tup4', frozenset())
            if o.kind == 'sset' and m == 'pop' and not a and self.allow_pop and 'len(%s) == 1' % ast.unparse(f.value) in self.guards:
                g = self.fresh('elem')
                self.hoist('match sset_the %s with\n| None => %s\n| Some %s =>\n\x01\nend' % (o.text, self.exc('XKeyError'), g))
                return Val(g, 'str', frozenset())
            if o.kind == 'strs' and m == 'index' and len(a) == 1:
                x, g = self.args(e, env, [S])[0], self.fresh('pos')
                self.hoist('match index_of %s %s with\n| None => %s\n| Some %s =>\n\x01\nend' % (x, o.text, self.exc('XValueError'), g))
                return Val('(Z.of_nat %s)' % g, 'int', frozenset())
            if o.kind == 'str':
                if m == 'split' and len(a) == 1 and one(a[0]):
                    return Val('(lg_split %d %s)' % (ord(a[0].value), o.text), 'strs', frozenset())
                if m == 'split' and len(a) == 2 and one(a[0]) and ast.unparse(a[1]) == '1':
                    return Val('(py_split1 %d %s)' % (ord(a[0].value), o.text), 'strs', frozenset())
                if m == 'strip' and not a:
                    return Val('(lg_strip %s)' % o.text, 'str', frozenset())
                if m == 'upper' and not a:
                    return Val('(pe_upper E %s)' % o.text, 'str', frozenset())
                if m == 'endswith' and len(a) == 1:
                    return Val('(lg_endswith %s %s)' % (o.text, self.args(e, env, [S])[0]), 'bool', frozenset())
                if m == 'replace' and len(a) == 2 and one(a[0]) and one(a[1]):
                    return Val('(replace_char %d %d %s)' % (ord(a[0].value), ord(a[1].value), o.text), 'str', frozenset())
        bad(e, 'call')

    # ------------------------------------------------------------ statements
    def seq(self, stmts, env, fin):
        if not stmts:
            return fin(env)
        if self.pre or self.upd:
            raise Unsupported('internal: pending binders')
        return self.stmt(stmts[0], env, lambda e: self.seq(stmts[1:], e, fin), stmts[1:])

    def bind(self, name, v, env, k, pre):
        """name = v ; k"""
        env = dict(env)
        if v.text.replace('_', 'a').isalnum() or v.kind in ('none', 'func', 'src'):
            env[name] = v
            return self.wrap(pre, k(env))
        g = self.fresh(name)
        env[name] = Val(g, v.kind, v.ids)
        return self.wrap(pre, 'let %s := %s in\n%s' % (g, v.text, k(env)))

    def stmt(self, s, env, k, rest):
        if isinstance(s, ast.Pass) or (isinstance(s, ast.Expr) and isinstance(s.value, ast.Constant) and type(s.value.value) is str):
            return k(env)
        if isinstance(s, ast.Delete):
            if not all(isinstance(t, ast.Name) and t.id in env for t in s.targets):
                bad(s, 'del')
            return k({n: v for n, v in env.items() if n not in [t.id for t in s.targets]})
        if isinstance(s, ast.Return):
            if rest:
                bad(s, 'statements after return')
            return self.ret(s, env)
        if isinstance(s, ast.Raise) and s.cause is None and s.exc is not None:
            cn = self.excname(s.exc.func if isinstance(s.exc, ast.Call) else s.exc)
            if isinstance(s.exc, ast.Call) and (s.exc.keywords or not all(isinstance(a, (ast.Constant, ast.Name)) for a in s.exc.args)):
                bad(s, 'arguments of the exception')
            if rest:
                bad(s, 'statements after raise')
            return self.exc(EXC[cn])
        if isinstance(s, ast.Expr) and isinstance(s.value, ast.Call):
            c, fs = s.value, ast.unparse(s.value.func)
            if fs == 'self.tag' and self.mode == 'check':
                d = self.tag(c, env)
                return self.bind('out', Val('(%s ++ [%s])' % (env['out'].text, d), 'diags', frozenset()), env, k, self.take())
            if isinstance(c.func, ast.Attribute) and c.func.attr == 'add' and isinstance(c.func.value, ast.Name) and len(c.args) == 1 and not c.keywords:
                o, x = self.ex(c.func.value, env), self.ex(c.args[0], env)
                if any(v == o and n != c.func.value.id for n, v in env.items()):
                    bad(s, 'a set that another name refers to is changed')
                if o.kind == 'sset' and x.kind == 'str':
                    return self.bind(c.func.value.id, Val('(sset_add %s %s)' % (x.text, o.text), 'sset', frozenset()), env, k, self.take())
            self.allow_mut = c
            self.ex(c, env)
            pre, upd, self.upd, self.allow_mut = self.take(), self.upd, {}, None
            if not upd:
                bad(s, 'expression statement')
            return self.wrap(pre, k(dict(env, **upd)))
        if isinstance(s, ast.AugAssign) and isinstance(s.op, ast.Add) and isinstance(s.target, ast.Name):
            s = ast.copy_location(ast.Assign([ast.Name(s.target.id, ast.Store())], ast.BinOp(ast.Name(s.target.id, ast.Load()), s.op, s.value)), s)
        if isinstance(s, ast.Assign) and len(s.targets) == 1:
            return self.assign(s, env, k)
        if isinstance(s, ast.If):
            return self.if_(s, env, k, rest)
        if isinstance(s, ast.Try) and not s.finalbody and s.handlers:
            return self.try_(s, env, k, rest)
        if isinstance(s, ast.For) and not s.orelse and isinstance(s.target, ast.Name):
            return self.for_(s, env, k)
        bad(s, 'statement')

    def assign(self, s, env, k):
        t = s.targets[0]
        if isinstance(t, ast.List) and len(t.elts) == 1 and isinstance(t.elts[0], ast.Name):
            v = self.ex(s.value, env)
            if v.kind == 'strs':
                g = self.fresh(t.elts[0].id)
                pre = self.take()
                return self.wrap(pre, 'match %s with\n| [%s] =>\n%s\n| _ => %s\nend' % (
                    v.text, g, ind(k(dict(env, **{t.elts[0].id: Val(g, 'str', frozenset())}))), self.exc('XValueError')))
        name = ast.unparse(t)
        if isinstance(t, ast.Name) or (name in env and '.' in name):
            v = self.ex(s.value, env)
            if self.upd:
                bad(s, 'mutation inside an assignment')
            if isinstance(s.value, ast.Constant) and s.value.value in SRC_NAMES and self.mode == 'check':
                v = Val(SRC_NAMES[s.value.value], 'src', frozenset())
            if '.' in name:      # an attribute of self / ctx.language: keeps its declared kind
                if self.pure:
                    bad(s, 'assignment to an attribute in a function translated as pure')
                want = ATTRS[t.attr][1] if t.attr in ATTRS else 'optlang'
                v = v if v.kind == 'none' else Val(coerce(v, want, s), want, v.ids)
            return self.bind(name, v, env, k, self.take())
        bad(s, 'assignment')

    def ret(self, s, env):
        self.allow_pop = True
        v = self.ex(s.value, env) if s.value is not None else NONE
        self.allow_pop = False
        pre = self.take()
        if self.upd:
            bad(s, 'mutation inside return')
        if self.mode in ('init', 'check') and v.kind != 'none':
            bad(s, 'return of a value')
        tok = '\x00R%d\x00' % len(self.rets)
        self.rets.append((tok, v, dict(env)))
        return self.wrap(pre, tok)

    def finish_returns(self, text):
        rk = None
        for _, v, _ in self.rets:
            rk = v.kind if rk is None else join(rk, v.kind)
            if rk is None:
                raise Unsupported('%s: the kinds of the returned values do not join' % self.pyname)
        for tok, v, env in self.rets:
            val = 'tt' if rk == 'none' else coerce(v, rk, self.fdef)
            if self.mode in ('method', 'init'):
                obj = 'mkLang %s' % ' '.join(coerce(env['self.' + a], ATTRS[a][1], self.fdef) for a in ATTRS)
            if self.mode == 'pure':
                r = val
            elif self.mode == 'value':
                r = 'LRet %s' % val
            elif self.mode == 'method':
                r = 'LRet (%s, %s)' % (obj, val)
            elif self.mode == 'init':
                r = 'LRet (%s)' % obj
            else:
                r = 'LRet (%s, %s)' % (env['out'].text, coerce(env['ctx.language'], 'optlang', self.fdef))
            text = text.replace(tok, r)
        return text, rk

    def narrowing(self, t, env):
        while isinstance(t, ast.UnaryOp) and isinstance(t.op, ast.Not):
            t = t.operand
        if isinstance(t, ast.Compare) and len(t.ops) == 1 and isinstance(t.ops[0], (ast.Is, ast.IsNot)) and ast.unparse(t.comparators[0]) == 'None':
            return True
        return isinstance(t, (ast.Name, ast.Attribute)) and ast.unparse(t) in env and env[ast.unparse(t)].kind in ('optstr', 'optlang')

    def branch(self, test, env):
        """an `if` test -> (format with slots {0} = then, {1} = else, bindings in the then part, bindings in the else part)"""
        neg = False
        while isinstance(test, ast.UnaryOp) and isinstance(test.op, ast.Not):
            test, neg = test.operand, not neg
        re_ = lambda old, new: {n: (new._replace(ids=v.ids) if (v.text, v.kind) == (old.text, old.kind) else v) for n, v in env.items()}
        static = lambda b: ('{0}' if b != neg else '{1}', env, env)
        if self.narrowing(test, env):
            isnone = isinstance(test, ast.Compare) and isinstance(test.ops[0], ast.Is)
            v = self.ex(test.left if isinstance(test, ast.Compare) else test, env)
            if isinstance(test, ast.Compare) and v.kind not in BASE and v.kind != 'falsy':
                if v.kind not in ('none', 'str', 'lang', 'strs', 'int', 'bool'):
                    bad(test, 'None test on ' + v.kind)
                return static((v.kind == 'none') == isnone)
            g = self.fresh('some')
            if isinstance(test, ast.Compare):
                some, none = re_(v, Val(g, BASE.get(v.kind, 'str'), v.ids)), re_(v, NONE)
                fmt = 'match %s with\n| None =>\n{%d}\n| Some %s =>\n{%d}\nend' % (v.text, 0 if isnone != neg else 1, g, 1 if isnone != neg else 0)
                return (fmt, none, some) if isnone != neg else (fmt, some, none)
            some = re_(v, Val(g, BASE[v.kind], v.ids))
            none = re_(v, Val(v.text, 'falsy', v.ids)) if v.kind == 'optstr' else re_(v, NONE)
            scrut = 'truthy_str %s' % v.text if v.kind == 'optstr' else v.text
            fmt = 'match %s with\n| None =>\n{%d}\n| Some %s =>\n{%d}\nend' % (scrut, 1 if not neg else 0, g, 0 if not neg else 1)
            return (fmt, some, none) if not neg else (fmt, none, some)
        c = self.truth(test, env)
        if c in ('true', 'false'):
            return static(c == 'true')
        return ('if %s then\n{%d}\nelse\n{%d}' % (c, 1 if neg else 0, 0 if neg else 1), env, env)

    def if_(self, s, env, k, rest):
        t = s.test
        if isinstance(t, ast.BoolOp) and isinstance(t.op, ast.And) and self.narrowing(t.values[0], env):
            b = t.values[1] if len(t.values) == 2 else ast.BoolOp(t.op, t.values[1:])
            inner = ast.copy_location(ast.If(b, s.body, s.orelse), s)
            return self.stmt(ast.copy_location(ast.If(t.values[0], [inner], s.orelse), s), env, k, rest)
        self.allow_mut = t if isinstance(t, ast.Call) else None
        fmt, et, ee = self.branch(t, env)
        pre, upd, self.upd, self.allow_mut = self.take(), self.upd, {}, None
        et, ee, env = dict(et, **upd), dict(ee, **upd), dict(env, **upd)
        g = ast.unparse(t)
        return self.wrap(pre, self.compound(s, fmt, [(s.body, et, g), (s.orelse, ee, None)], env, k, rest))

    def run_branch(self, stmts, env, guard, fin):
        if guard:
            self.guards.append(guard)
        try:
            return self.seq(stmts, env, fin)
        finally:
            if guard:
                self.guards.pop()

    def joined(self, env0, ends, node):
        """the variables to pass on after a compound statement: [(name, kind, ids)], the bindings that are dropped; None = no join"""
        names, drop = [], set()
        for e in ends:
            for n, v in e.items():
                if n not in names and env0.get(n) != v:
                    names.append(n)
            drop |= set(env0) - set(e)
        out = []
        for n in names:
            vals = [e.get(n) for e in ends]
            if any(v is None for v in vals):
                drop.add(n)
                continue
            kd = vals[0].kind
            for v in vals[1:]:
                kd = join(kd, v.kind) if kd is not None else None
            if kd is None or kd == 'func':
                return None
            out.append((n, kd, frozenset().union(*[v.ids for v in vals])))
        return out, drop

    def after(self, env0, j, drop):
        env1 = {n: v for n, v in env0.items() if n not in drop}
        gs = []
        for n, kd, ids in j:
            if kd == 'none':
                env1[n] = NONE
            else:
                gs.append(self.fresh(n))
                env1[n] = Val(gs[-1], kd, ids)
        return env1, gs

    def norm(self, j, env, node):
        t = tup([coerce(env[n], kd, node) for n, kd, _ in j if kd != 'none'])
        return t if self.pure else 'LNorm %s' % t

    def seqbind(self, text, gs, rest_text):
        if self.pure:
            return 'let %s :=\n%s in\n%s' % (pat(gs), ind(text), rest_text)
        return 'lbind (%s)\n(fun %s =>\n%s)' % (ind(text).lstrip(), pat(gs), rest_text)

    def compound(self, node, fmt, branches, env0, k, rest):
        """fmt has one slot {i} per branch (stmts, bindings at its start, guard); a branch whose slot is absent is dead"""
        use = [i for i in range(len(branches)) if '{%d}' % i in fmt]
        if fmt in ('{0}', '{1}'):        # the test was decided statically
            return self.run_branch(*branches[use[0]], k)
        ends, counts, state = [], {}, self.n

        def fin(e):
            self.tk += 1
            ends.append(('\x00J%d\x00' % self.tk, e))
            return ends[-1][0]
        texts = [''] * len(branches)
        for i in use:
            n0 = len(ends)
            texts[i] = self.run_branch(*branches[i], fin)
            counts[i] = len(ends) - n0
        if not ends:
            if rest:
                bad(node, 'statements that cannot be reached follow')
            return fmt.format(*[ind(t) for t in texts])
        j = self.joined(env0, [e for _, e in ends], node)
        if j is None or (self.pure and any(counts[i] == 0 for i in use)):
            self.n = state        # kinds do not join (or a pure function returns in a branch): the continuation goes into the branches
            return fmt.format(*[ind(self.run_branch(*branches[i], k)) if i in use else '' for i in range(len(branches))])
        j, drop = j
        for tok, e in ends:
            texts = [t.replace(tok, self.norm(j, e, node)) for t in texts]
        env1, gs = self.after(env0, j, drop)
        return self.seqbind(fmt.format(*[ind(t) for t in texts]), gs, k(env1))

    def try_(self, s, env, k, rest):
        body = s.body
        risky = [i for i, x in enumerate(body) if not cannot_raise(x)]
        pre = assigned(body[:risky[-1]]) if risky else set()
        if risky and isinstance(body[risky[-1]], (ast.If, ast.For, ast.Try, ast.While, ast.With)):
            last = body[risky[-1]]
            inner = [x for f in ('body', 'orelse', 'finalbody') for x in getattr(last, f, [])] + [x for h in getattr(last, 'handlers', []) for x in h.body]
            if not all(cannot_raise(x) for x in inner):
                pre |= assigned([last])
        pre = {n for n in pre if n in env or n == 'out'}
        for h in s.handlers:
            first = set()
            for x in h.body:
                if isinstance(x, ast.Assign) and len(x.targets) == 1 and isinstance(x.targets[0], ast.Name) and isinstance(x.value, (ast.Constant, ast.Name)):
                    first.add(x.targets[0].id)
                else:
                    break
            if h.name is not None or h.type is None or not pre <= first:
                bad(h, 'handler (it must first assign %s, which the try body may have changed before raising)' % sorted(pre - first))
        # the body on its own, then `else` with the bindings at its end
        bends = []
        def bfin(e):
            self.tk += 1
            bends.append(('\x00B%d\x00' % self.tk, e))
            return bends[-1][0]
        btext = self.seq(body, env, bfin)
        if not bends and s.orelse:
            bad(s, '`else` after a try body that always returns or raises')
        bj = self.joined(env, [e for _, e in bends], s)
        if bj is None:
            bad(s, 'kinds at the end of the try body do not join')
        bj, bdrop = bj
        for tok, e in bends:
            btext = btext.replace(tok, self.norm(bj, e, s))
        benv, bgs = self.after(env, bj, bdrop)
        hfmt = 'ltry (%s)\n(fun %s =>\n{0})\n(fun x_ =>\n' % (ind(btext).lstrip(), pat(bgs))
        if not bends:       # the body never reaches its end
            hfmt = 'ltry (%s)\n(fun e_ : Empty_set => match e_ with end)\n(fun x_ =>\n' % ind(btext).lstrip()
        branches = [(s.orelse, benv, None)]
        for i, h in enumerate(s.handlers):
            cn = self.excname(h.type)
            hfmt += '  ' * i + 'if catches %s x_ then\n{%d}\n' % (EXC[cn], i + 1) + '  ' * i + 'else '
            branches.append((h.body, env, None))
        hfmt += 'LExc x_)'
        return self.compound(s, hfmt, branches, env, k, rest)

    def for_(self, s, env, k):
        it = self.ex(s.iter, env)
        pre = self.take()
        if it.kind != 'strs' or self.pure or self.upd:
            bad(s, 'for over a value of kind ' + it.kind)
        if any(isinstance(n, (ast.Break, ast.Continue)) for n in ast.walk(s)):
            bad(s, 'break / continue')
        names = sorted(n for n in assigned(s.body) if n in env and n != s.target.id)
        x = self.fresh(s.target.id)
        benv = {n: v for n, v in env.items() if n != s.target.id}
        st = []
        for n in names:
            st.append(self.fresh(n))
            benv[n] = Val(st[-1], env[n].kind, env[n].ids)
        entry = dict(benv)
        benv[s.target.id] = Val(x, 'str', frozenset())
        ends = []
        def fin(e):
            ends.append(e)
            return 'LNorm %s' % tup([coerce(e[n], env[n].kind, s) if n in e else bad(s, 'loop body unbinds ' + n) for n in names])
        self.loops.append(s)
        body = self.seq(s.body, benv, fin)
        self.loops.pop()
        if not ends:
            bad(s, 'loop body that never reaches its end')
        for e in ends:
            for n, v in entry.items():
                if n not in names and e.get(n) != v:
                    bad(s, 'loop body changes %s in a way that is not carried to the next iteration' % n)
        env1, st1 = {n: v for n, v in env.items() if n != s.target.id}, []
        for n in names:
            st1.append(self.fresh(n))
            env1[n] = Val(st1[-1], env[n].kind, env[n].ids)
        init = tup([env[n].text for n in names])
        text = 'lbind (lfor %s %s (fun %s %s =>\n%s))\n(fun %s =>\n%s)' % (it.text, init, x, pat(st), ind(body), pat(st1), k(env1))
        return self.wrap(pre, text)

    def tag(self, c, env):
        if c.keywords or not c.args or not isinstance(c.args[0], ast.Constant) or c.args[0].value not in TAGS:
            bad(c, 'tag name')
        for slots, ctor in TAGS[c.args[0].value]:
            if len(slots) != len(c.args) - 1:
                continue
            data = []
            for slot, a in zip(slots, c.args[1:]):
                sf = a.args[0] if isinstance(a, ast.Call) and ast.unparse(a.func) == 'tags.safestr' and len(a.args) == 1 and not a.keywords else None
                if isinstance(slot, tuple):
                    x = sf if slot[0] == 's' else a
                    if not (isinstance(x, ast.Constant) and x.value == slot[1]):
                        break
                elif slot == 'src':
                    if isinstance(sf, ast.Constant) and type(sf.value) is str and sf.value[:1] + sf.value[-1:] == '()' and sf.value[1:-1] in SRC_NAMES:
                        data.append(SRC_NAMES[sf.value[1:-1]])
                    elif isinstance(sf, ast.JoinedStr) and len(sf.values) == 3 and [getattr(p, 'value', None) for p in sf.values[::2]] == ['(', ')'] \
                            and isinstance(sf.values[1], ast.FormattedValue) and sf.values[1].conversion == -1 and sf.values[1].format_spec is None \
                            and self.ex(sf.values[1].value, env).kind == 'src':
                        data.append(self.ex(sf.values[1].value, env).text)
                    else:
                        break
                else:
                    v = self.ex(a, env)
                    if v.kind != slot or self.pre or self.upd:
                        bad(c, 'tag argument of kind %s where %s is recorded' % (v.kind, slot))
                    data.append(v.text)
            else:
                return ctor.format(*data)
        bad(c, 'arguments of the tag')

    # ------------------------------------------------------------ whole function
    def run(self):
        a = self.fdef.args
        names = [x.arg for x in a.args]
        method = '.' in self.pyname
        want = (['self'] if method else []) + (['ctx'] if self.mode == 'check' else []) + [n for n, _ in self.params]
        dflt = [ast.unparse(d) for d in a.defaults]
        if names != want or a.posonlyargs or a.kwonlyargs or a.kwarg or a.vararg or dflt != (['None'] * 3 if self.mode == 'init' else []):
            bad(self.fdef, 'signature')
        env = {n: Val('v_' + n, kd, frozenset(['external']) if kd == 'lang' else frozenset()) for n, kd in self.params}
        if method and self.mode not in ('init', 'check'):
            env['self'] = Val('self', 'lang', frozenset(['external']))
            for at, (proj, kd) in ATTRS.items():
                env['self.' + at] = Val('(%s self)' % proj, kd, frozenset())
        if self.mode == 'check':
            env['out'] = Val('[]', 'diags', frozenset())
            env['ctx.language'] = Val('\x00unset', 'optlang', frozenset())
        if self.mode == 'init':     # an attribute exists once it is assigned
            env.update({'self.' + at: Val('\x00unset', ATTRS[at][1], frozenset()) for at in ATTRS})
        if self.mode == 'method':   # a method that raises must not have changed self before (callers keep the old object)
            stores = [n.lineno for n in ast.walk(self.fdef) if isinstance(n, ast.Attribute) and isinstance(n.ctx, ast.Store)]
            if stores and any(isinstance(n, (ast.Raise, ast.Call)) and n.lineno >= min(stores) for n in ast.walk(self.fdef)):
                bad(self.fdef, 'a raise or a call after the first assignment to an attribute of self')

        def end(e):
            tok = '\x00R%d\x00' % len(self.rets)
            self.rets.append((tok, NONE, dict(e)))
            return tok
        body = list(self.fdef.body)
        text = self.seq(body, env, end)
        text, rk = self.finish_returns(text)
        if '\x00' in text:
            raise Unsupported('%s: an attribute of self is read before it is assigned' % self.pyname)
        ps = ' '.join(['(E : pyenv)'] + (['(self : language)'] if 'self' in env else []) +
                      (['(opt : option language) (path : str) (metas pls pcs : list str) (is_template : bool)'] if self.mode == 'check' else []) +
                      ['(v_%s : %s)' % (n, TY[kd]) for n, kd in self.params])
        rt = TY[rk] if rk != 'none' else 'unit'
        R = {'pure': rt, 'value': 'lres Empty_set %s' % rt, 'method': 'lres Empty_set (language * %s)' % rt, 'init': 'lres Empty_set language',
             'check': 'lres Empty_set (list ldiag * option language)'}[self.mode]
        DONE[self.pyname] = (self.name, self.mode, [kd for _, kd in self.params], 'lang' if self.mode == 'init' else rk)
        return 'Definition %s %s : %s :=\n%s.\n' % (self.name, ps, R, ind(text))


def find(tree, pyname):
    body = tree.body
    if '.' in pyname:
        cls, pyname = pyname.split('.')
        cs = [c for c in body if isinstance(c, ast.ClassDef) and c.name == cls]
        if len(cs) != 1:
            raise Unsupported('class %s: expected exactly one definition' % cls)
        body = cs[0].body
    fs = [f for f in body if isinstance(f, ast.FunctionDef) and f.name == pyname]
    if len(fs) != 1:
        raise Unsupported('%s: expected exactly one definition' % pyname)
    return fs[0]


def check_ling_module(tree):
    top = [ast.unparse(s) for s in tree.body]
    for c in CLASSES + TABLE_DEFS:
        if top.count(c) != 1:
            raise Unsupported('lib/ling.py: expected exactly one statement `%s`' % c.replace('\n', ' '))
    if any(isinstance(n, (ast.Global, ast.Nonlocal)) for n in ast.walk(tree)):
        raise Unsupported('lib/ling.py: global / nonlocal')
    stores = collections.Counter(n.id for s in tree.body for n in ast.walk(s) if isinstance(n, ast.Name) and isinstance(n.ctx, ast.Store)
                                 and not isinstance(s, (ast.FunctionDef, ast.ClassDef)))
    for name in list(TABLES) + ['_language_regexp']:
        if stores[name] != 1:
            raise Unsupported('lib/ling.py: %s must be assigned exactly once at module level' % name)
    for name in ('_munch_language_name', '_read_iso_codes', '_read_primary_languages'):
        find(tree, name)
    [lang] = [c for c in tree.body if isinstance(c, ast.ClassDef) and c.name == 'Language']
    have = [f.name for f in lang.body if isinstance(f, ast.FunctionDef)]
    want = {p.split('.')[1] for p, _, _, _ in FUNCS if p.startswith('Language.')} | OTHER_METHODS
    if lang.bases or lang.keywords or lang.decorator_list or sorted(have) != sorted(want) or len(lang.body) != len(have):
        raise Unsupported('class Language: header or set of methods changed: %s' % sorted(set(have) ^ want))


def check_check_module(tree, fdef):
    top = [ast.unparse(s) for s in tree.body]
    for imp in ('import os', 'from lib import ling', 'from lib import tags'):
        if top.count(imp) != 1:
            raise Unsupported('lib/check/__init__.py: expected exactly one `%s`' % imp)
    stores = collections.Counter(n.id for n in ast.walk(tree) if isinstance(n, ast.Name) and isinstance(n.ctx, ast.Store))
    stores.update(a.asname or a.name for n in ast.walk(tree) if isinstance(n, (ast.Import, ast.ImportFrom)) for a in n.names)
    if any(stores[n] != 1 for n in ('os', 'ling', 'tags')) or [ast.unparse(d) for d in fdef.decorator_list] != [DECORATOR]:
        raise Unsupported('lib/check/__init__.py: os / ling / tags rebound, or the decorator of check_language changed')


def main(emit):
    out = ['(* generated by tools/gen/gen_ling_src.py from the python ast of lib/ling.py and lib/check/__init__.py - do not edit *)',
           'From Coq Require Import List NArith ZArith Bool.', 'From I18n Require Import Lib.Outcome Model.Ling Model.LingPy.',
           'Import ListNotations.', 'Local Open Scope N_scope.', '']
    errors = []
    DONE.clear()
    trees = {}
    for module, path, chk in (('ling', 'lib/ling.py', check_ling_module), ('check', 'lib/check/__init__.py', None)):
        try:
            trees[module] = ast.parse(open(os.path.join(REPO, path), encoding='utf-8').read())
            if chk:
                chk(trees[module])
        except (Unsupported, OSError, SyntaxError, ValueError) as e:
            trees[module] = None
            errors.append('%s: %s: %s' % (path, type(e).__name__, e))
    for pyname, name, mode, params in FUNCS:
        module = 'check' if mode == 'check' else 'ling'
        try:
            if trees[module] is None:
                raise Unsupported('module not usable')
            fdef = find(trees[module], pyname)
            if mode == 'check':
                check_check_module(trees[module], fdef)
            elif fdef.decorator_list:
                bad(fdef, 'decorator')
            out += ['(* %s *)' % pyname, Fn(pyname, name, mode, params, fdef, module).run()]
        except (Unsupported, KeyError, ValueError, IndexError, AttributeError, TypeError) as e:
            msg = '%s: %s: %s' % (pyname, type(e).__name__, e)
            errors.append(msg)
            out.append('(* NOT TRANSLATABLE - %s *)\nDefinition %s : unit := tt.\n' % (msg.replace('*)', '* )').replace('(*', '( *').replace('"', "'"), name))
    emit('LingSrc.v', '\n'.join(out))
    if errors:
        raise SystemExit('gen_ling_src: the source left the supported subset (tie broken):\n  ' + '\n  '.join(errors))


if __name__ == '__main__':
    main(lambda name, text: print(text))

"""Source translator for C10:  lib/polib4us.py  ->  coq/Generated/PolibSrc.v   (python `ast` -> Gallina text).

Translated: the five regex pattern texts (+ the two replacement templates), `polib_unescape` with its callback `unescape`,
the generator `Codecs.open`, the function `detect_encoding` of `detect_encoding_patch`, `pofile_find` of `pofile_find_patch`,
the constant of `default_encoding_patch`.  Proofs/PolibSrc.v proves every generated definition equal to the hand-written model
(Model/PoUnescape.v, Model/PoLexer.v) for all arguments; Props/C10.v restates that (C10_source_tie_*).  An edit of the Python
code changes the generated text and breaks those proofs.
FAIL CLOSED: a construct not listed here raises Unsupported; the function concerned is emitted as `Definition src_.. : unit := tt.`
with the reason in a comment (its tie lemma cannot compile), the other definitions are still emitted, and main() exits non-zero.
The target vocabulary (re_sub_cb, re_sub_tpl, re_findall, re_match_b, wres / wret / wbind, py_literal_eval_bytes, py_decode_ascii,
py_decode_w, py_decode, str_in) is hand-written in coq/Model/PoPy.v.

REGEXES (data).  `NAME = re.compile(<str constant>, re.VERBOSE)` at module level (_escapes_re, _long_x_escape_re,
  _short_x_escape_re) and `NAME = re.compile(<str constant>).findall / .match` in the body of class Codecs (_iterlines,
  _atypical_comment), each assigned exactly once, become `Definition src_<NAME> : list N` = the code points of the pattern.
  For re.VERBOSE the pattern is first normalised the way sre_parse reads it: outside a character class, white space and
  `#`-comments are dropped, a backslash keeps the character after it; white space inside `{..}` or between `(` and `?`, and
  group syntax other than `(?:` `(?=` `(?!` are Unsupported.  Any other flag / method: Unsupported.
  A USE of a regex is an application of the vocabulary's engine to that constant:  R.sub(<callback>, s) -> re_sub_cb src_R cb s;
  R.sub(<raw str constant>, s) -> re_sub_tpl src_R <template code points> s;  self._iterlines(s) -> re_findall src__iterlines s;
  self._atypical_comment(s) in a test -> re_match_b src__atypical_comment s.  The engine of Model/PoPy.v has a scanner for the
  pattern texts of the model and no meaning for any other text.
Kinds of values: str, bytes (both list N), bool, strs (list of str), match (the text a match object matched), filecodec.
  Python locals are emitted as v_<name>; an assignment is a `let` (shadowing).
Pure expressions:  'text' -> its code points;  [] -> nil (kind strs);  [e] -> [e];  True / False;  a + b on str -> ++;
  x[n:] -> skipn n x;  x[:n] -> firstn n x (never raise on str);  e in {consts} / e not in {consts} (set or tuple of str
  constants, source order) -> str_in e [..] / negb ..;  x.isspace() -> py_str_isspace x;  not / and / or on bool -> negb && ||;
  match.group() -> the matched text;  encodings.is_ascii_compatible_encoding(x) -> c_ascii_compatible C x (oracle).
polib_unescape(s):  body = `def unescape(match)` + `return _escapes_re.sub(unescape, s)`.
  unescape(match) is in the monad wres (value + "a SyntaxWarning was printed", or an exception):
  v = <pure> ; rest -> let;  v = ast.literal_eval(f"b'{x}'") ; rest -> wbind (py_literal_eval_bytes x) (fun v => rest)  (the
  model's evaluator of CPython's bytes literal; v has kind bytes);
  try: return B.decode('ASCII') except UnicodeDecodeError: H  ->  match py_decode_ascii B with Some t => wret t | None => H end;
  in H the three statements of the frame walk (`parser_stack_frame = inspect.stack()[2][0]`, `parser =
  parser_stack_frame.f_locals['self']`, `encoding = parser.instance.encoding`), matched literally, bind `encoding` to the codec
  of the file being parsed = the oracle argument `dec` (kind filecodec);  return B.decode(encoding) -> py_decode_w dec B
  (UnicodeDecodeError leaves the function: Err EDecode).
Codecs.open(self, path, mode, encoding), a generator; result: outcome (list str) load_err = the lines it yields, or the
  exception raised before the first yield.  Head (outcome monad):
  if c: raise NotImplementedError ; rest -> if c then Crash CNotImplemented else rest;   v = <pure> ; rest -> let;
  if c: v = e1 [else: v = e2] ; rest, v bound before -> let v := if c then e1 else e2 [v] in rest;
  any other if c: A [else: B] ; rest -> if c then (A; rest) else (B; rest)   (rest duplicated);
  `with open(path, 'rb') as file: contents = file.read()` (literally) -> let v_contents := raw  (the bytes of the file: argument raw);
  v = B.decode(e) ; rest -> do v <- py_decode LDecode (c_decode C e) B; rest  (codec oracle; UnicodeDecodeError -> Err LDecode).
  From the first `for` / `yield` on, the statements are pure and denote the list of yielded lines:
  yield e ; rest -> e :: rest;   yield from e ; rest -> e ++ rest;   v = e / v += [e] ; rest -> let;   if as above;  end -> [];
  for x in L: B ; rest (not nested, no else / break / continue / return) ->  LOOP L <state>  with
      Fixpoint LOOP (l_ : list str) <state> : list str := match l_ with [] => rest | v_x :: l_ => B ; LOOP l_ <state> end
  <state> = the variables assigned in B that were bound before the loop (in order of first binding); other variables assigned
  in B (and x) are local to one iteration: reading them after the loop is Unsupported (unknown name).
detect_encoding_patch: nested `def detect_encoding(path, binary_mode=False)` with `if binary_mode: return` / `return original(path)`
  -> option: None / Some (original path), `original` a parameter; the statements `original = polib.detect_encoding`,
  `polib.detect_encoding = detect_encoding` are checked literally.
pofile_find_patch: nested `def pofile_find(self, *args, **kwargs)`: `del <parameters>` -> nothing; falling off the end -> None;
  `polib.POFile.find = pofile_find` checked literally.   default_encoding_patch: `polib.default_encoding = <str constant>`.
NOT translated: install_patches / register_patch, that codecs_patch / unescape_patch install the objects, Codecs.__getattr__,
  mo_parser_patch, poentry_flags_patch, IntDict, poentry_msgstr_plural_patch, base_entry_init_patch, poentry_translated_patch.
"""
import ast
import os

REPO = os.environ.get('VERIF_REPO') or '/repo'
MODULE_RE = ('_escapes_re', '_long_x_escape_re', '_short_x_escape_re')
CLASS_RE = {'_iterlines': 'findall', '_atypical_comment': 'match'}
FRAME_WALK = ["parser_stack_frame = inspect.stack()[2][0]", "parser = parser_stack_frame.f_locals['self']",
              "encoding = parser.instance.encoding"]
WITH_OPEN = "with open(path, 'rb') as file:\n    contents = file.read()"
TYPES = {'str': 'str', 'bytes': 'list N', 'bool': 'bool', 'strs': 'list str'}
RESERVED = {'re', 'ast', 'inspect', 'encodings', 'polib', 'open', 'self', 'original'} | set(MODULE_RE)


class Unsupported(Exception):
    pass


def bad(node, why):
    raise Unsupported('%s: line %s: %s' % (why, getattr(node, 'lineno', '?'), ast.unparse(node)[:100]))


def lit(s):
    note = s.replace('(*', '( *').replace('*)', '* )').replace('"', "'").replace('\n', ' ')
    return ('[%s]%%N (* %s *)' % ('; '.join(str(ord(c)) for c in s), note)) if s else '(@nil N)'


def strconst(e):
    return isinstance(e, ast.Constant) and type(e.value) is str


def verbose_normalise(p):
    """the characters of a re.VERBOSE pattern that sre_parse keeps"""
    out, i, in_class, in_brace = [], 0, False, False
    while i < len(p):
        c = p[i]
        if c == '\\':
            if i + 1 >= len(p):
                raise Unsupported('pattern ends with a backslash')
            out.append(p[i:i + 2])
            i += 2
            continue
        if in_class:
            in_class = c != ']' or out[-1] in ('[', '[^')     # a leading ] is literal
            if out[-1] == '[' and c == '^':
                out[-1] = '[^'
            else:
                out.append(c)
        elif c in ' \t\n\r\v\f' or c == '#':
            if in_brace:
                raise Unsupported('white space / comment inside {..} of a verbose pattern')
            if c == '#':
                while i < len(p) and p[i] != '\n':
                    i += 1
        elif c == '(' and p[i + 1:i + 2] == '?':
            if p[i + 2:i + 3] not in (':', '=', '!'):
                raise Unsupported('group syntax ' + p[i:i + 3])
            out.append(p[i:i + 3])
            i += 3
            continue
        else:
            in_class, in_brace = c == '[', (c == '{') or (in_brace and c != '}')
            out.append(c)
        i += 1
    if any(a == '(' and b == '?' for a, b in zip(out, out[1:])):
        raise Unsupported('( and ? separated by white space in a verbose pattern')
    return ''.join(out)


def regex_of(value, method):
    """value = re.compile(<str>[, re.VERBOSE])[.method] -> the pattern text as sre_parse reads it"""
    if method is not None:
        if not (isinstance(value, ast.Attribute) and value.attr == method):
            bad(value, 'regex method')
        value = value.value
    if not (isinstance(value, ast.Call) and ast.unparse(value.func) == 're.compile' and not value.keywords and value.args and strconst(value.args[0])):
        bad(value, 're.compile(<string constant>)')
    flags = [ast.unparse(a) for a in value.args[1:]]
    if flags == []:
        return value.args[0].value
    if flags == ['re.VERBOSE']:
        return verbose_normalise(value.args[0].value)
    bad(value, 'regex flags')


class Fn:
    """one translated function: env maps a Python local to (Gallina text, kind)"""

    def __init__(self, regexes):
        self.regexes, self.loops, self.loopnames = regexes, [], {}

    def regex(self, e):
        """the generated constant if e names a compiled regex"""
        if isinstance(e, ast.Name) and e.id in MODULE_RE and e.id in self.regexes:
            return 'src_' + e.id
        if isinstance(e, ast.Attribute) and isinstance(e.value, ast.Name) and e.value.id == 'self' and e.attr in CLASS_RE and e.attr in self.regexes:
            return 'src_' + e.attr
        return None

    def want(self, e, env, kind):
        t, k = self.ex(e, env)
        if k != kind:
            bad(e, 'expected %s, got %s' % (kind, k))
        return t

    def ex(self, e, env):
        if isinstance(e, ast.Constant):
            if strconst(e):
                return (lit(e.value), 'str')
            if e.value is True or e.value is False:
                return (str(e.value).lower(), 'bool')
        elif isinstance(e, ast.Name) and e.id in env:
            return env[e.id]
        elif isinstance(e, ast.List) and len(e.elts) <= 1:
            return ('[%s]' % self.want(e.elts[0], env, 'str'), 'strs') if e.elts else ('(@nil str)', 'strs')
        elif isinstance(e, ast.BinOp) and isinstance(e.op, ast.Add):
            return ('(%s ++ %s)' % (self.want(e.left, env, 'str'), self.want(e.right, env, 'str')), 'str')
        elif isinstance(e, ast.Subscript) and isinstance(e.slice, ast.Slice) and e.slice.step is None:
            lo, hi = e.slice.lower, e.slice.upper
            for bound, other, fn in ((lo, hi, 'skipn'), (hi, lo, 'firstn')):
                if other is None and isinstance(bound, ast.Constant) and type(bound.value) is int and bound.value >= 0:
                    return ('(%s %d%%nat %s)' % (fn, bound.value, self.want(e.value, env, 'str')), 'str')
        elif isinstance(e, ast.UnaryOp) and isinstance(e.op, ast.Not):
            return ('(negb %s)' % self.want(e.operand, env, 'bool'), 'bool')
        elif isinstance(e, ast.BoolOp):
            return ('(%s)' % (' && ' if isinstance(e.op, ast.And) else ' || ').join(self.want(v, env, 'bool') for v in e.values), 'bool')
        elif isinstance(e, ast.Compare) and len(e.ops) == 1 and isinstance(e.ops[0], (ast.In, ast.NotIn)):
            c = e.comparators[0]
            if isinstance(c, (ast.Set, ast.Tuple)) and c.elts and all(strconst(x) for x in c.elts):
                t = '(str_in %s [%s])' % (self.want(e.left, env, 'str'), '; '.join(lit(x.value) for x in c.elts))
                return (t if isinstance(e.ops[0], ast.In) else '(negb %s)' % t, 'bool')
        elif isinstance(e, ast.Call) and not e.keywords and isinstance(e.func, ast.Attribute):
            f, a = e.func, e.args
            if f.attr == 'group' and not a and self.ex(f.value, env)[1] == 'match':
                return (self.ex(f.value, env)[0], 'str')
            if f.attr == 'isspace' and not a:
                return ('(py_str_isspace %s)' % self.want(f.value, env, 'str'), 'bool')
            if ast.unparse(f) == 'encodings.is_ascii_compatible_encoding' and len(a) == 1:
                return ('(c_ascii_compatible C %s)' % self.want(a[0], env, 'str'), 'bool')
            if f.attr == 'sub' and self.regex(f.value) in ('src__long_x_escape_re', 'src__short_x_escape_re') and len(a) == 2 and strconst(a[0]):
                return ('(re_sub_tpl %s %s %s)' % (self.regex(f.value), lit(a[0].value), self.want(a[1], env, 'str')), 'str')
            if self.regex(f) == 'src__iterlines' and len(a) == 1:
                return ('(re_findall src__iterlines %s)' % self.want(a[0], env, 'str'), 'strs')
            if self.regex(f) == 'src__atypical_comment' and len(a) == 1:      # only its truth value is defined
                return ('(re_match_b src__atypical_comment %s)' % self.want(a[0], env, 'str'), 'bool')
        bad(e, 'expression')

    def assign(self, s, env):
        """pure `v = e` / `v += [e]` -> (name, text, kind) or None"""
        if isinstance(s, ast.Assign) and len(s.targets) == 1 and isinstance(s.targets[0], ast.Name):
            name, (t, k) = s.targets[0].id, self.ex(s.value, env)
        elif isinstance(s, ast.AugAssign) and isinstance(s.op, ast.Add) and isinstance(s.target, ast.Name) and isinstance(s.value, ast.List):
            name, k = s.target.id, 'strs'
            t = '(%s ++ %s)' % (self.want(s.target, env, 'strs'), self.want(s.value, env, 'strs'))
        else:
            return None
        if name in RESERVED or k not in TYPES or (name in env and env[name][1] != k):
            bad(s, 'assignment')
        return name, t, k

    def let(self, s, rest, env, cont):
        name, t, k = self.assign(s, env)
        return 'let v_%s := %s in\n%s' % (name, t, cont(rest, {**env, name: ('v_' + name, k)}))

    def branch(self, s, rest, env, cont):
        one = [self.assign(b[0], env) if len(b) == 1 and self.assign_ok(b[0], env) else None for b in (s.body, s.orelse)]
        if one[0] and one[0][0] in env and (not s.orelse or (one[1] and one[1][0] == one[0][0])):      # a conditional assignment of ONE bound variable
            name, t, k = one[0]
            return 'let v_%s := (if %s then %s else %s) in\n%s' % (name, self.want(s.test, env, 'bool'), t, one[1][1] if s.orelse else env[name][0],
                                                                   cont(rest, {**env, name: ('v_' + name, k)}))
        return '(if %s\n then %s\n else %s)' % (self.want(s.test, env, 'bool'), cont(s.body + rest, env), cont(s.orelse + rest, env))

    # ------------------------------------------------------------ unescape(match): monad wres
    def wblock(self, ss, env):
        if not ss:
            bad(ast.Pass(), 'end of unescape without return')
        s, rest = ss[0], ss[1:]
        if isinstance(s, ast.Assign) and isinstance(s.value, ast.Call) and ast.unparse(s.value.func) == 'ast.literal_eval':
            a = s.value.args
            if not (len(a) == 1 and not s.value.keywords and isinstance(a[0], ast.JoinedStr) and len(a[0].values) == 3 and len(s.targets) == 1
                    and isinstance(s.targets[0], ast.Name) and s.targets[0].id not in RESERVED):
                bad(s, 'literal_eval')
            p, v, q = a[0].values
            if not (strconst(p) and p.value == "b'" and strconst(q) and q.value == "'" and isinstance(v, ast.FormattedValue)
                    and v.conversion == -1 and v.format_spec is None):
                bad(s, 'literal_eval argument')
            name = s.targets[0].id
            return 'wbind (py_literal_eval_bytes %s) (fun v_%s =>\n%s)' % (self.want(v.value, env, 'str'), name,
                                                                       self.wblock(rest, {**env, name: ('v_' + name, 'bytes')}))
        if self.assign_ok(s, env):
            return self.let(s, rest, env, self.wblock)
        if isinstance(s, ast.Try) and not rest and not s.orelse and not s.finalbody and len(s.body) == 1 and len(s.handlers) == 1 \
                and ast.unparse(s.handlers[0].type or ast.Pass()) == 'UnicodeDecodeError' and s.handlers[0].name is None:
            b = self.decode_call(s.body[0], env)
            if b and strconst(b[1]) and b[1].value == 'ASCII':
                return '(match py_decode_ascii %s with\n | Some t_ => wret t_\n | None =>\n%s\n end)' % (b[0], self.wblock(s.handlers[0].body, env))
        if [ast.unparse(x) for x in ss[:3]] == FRAME_WALK:
            return self.wblock(ss[3:], {**env, 'encoding': ('dec', 'filecodec')})
        b = self.decode_call(s, env)
        if b and not rest and isinstance(b[1], ast.Name) and env.get(b[1].id, (0, 0))[1] == 'filecodec':
            return 'py_decode_w %s %s' % (env[b[1].id][0], b[0])
        bad(s, 'statement of unescape')

    def assign_ok(self, s, env):
        try:
            return self.assign(s, env) is not None
        except Unsupported:
            return False

    def decode_call(self, s, env):
        """`return B.decode(X)` with B of kind bytes -> (text of B, X)"""
        e = s.value if isinstance(s, ast.Return) else None
        if isinstance(e, ast.Call) and isinstance(e.func, ast.Attribute) and e.func.attr == 'decode' and len(e.args) == 1 and not e.keywords \
                and self.ex(e.func.value, env)[1] == 'bytes':
            return self.ex(e.func.value, env)[0], e.args[0]
        return None

    # ------------------------------------------------------------ Codecs.open: head in the outcome monad
    def head(self, ss, env):
        if not ss or any(isinstance(n, (ast.Yield, ast.YieldFrom, ast.For)) for n in ast.walk(ss[0])):
            return 'Ok (%s)' % self.gen(ss, env, '[]')
        s, rest = ss[0], ss[1:]
        if isinstance(s, ast.If) and not s.orelse and len(s.body) == 1 and ast.unparse(s.body[0]) == 'raise NotImplementedError':
            return '(if %s then Crash CNotImplemented else\n%s)' % (self.want(s.test, env, 'bool'), self.head(rest, env))
        if isinstance(s, ast.If):
            return self.branch(s, rest, env, self.head)
        if ast.unparse(s) == WITH_OPEN:
            return 'let v_contents := raw in\n' + self.head(rest, {**env, 'contents': ('v_contents', 'bytes')})
        if isinstance(s, ast.Assign) and len(s.targets) == 1 and isinstance(s.targets[0], ast.Name) and isinstance(s.value, ast.Call) \
                and isinstance(s.value.func, ast.Attribute) and s.value.func.attr == 'decode' and len(s.value.args) == 1 and not s.value.keywords \
                and s.targets[0].id not in RESERVED:
            name = s.targets[0].id
            return 'do v_%s <- py_decode LDecode (c_decode C %s) %s;\n%s' % (name, self.want(s.value.args[0], env, 'str'),
                                                                             self.want(s.value.func.value, env, 'bytes'),
                                                                             self.head(rest, {**env, name: ('v_' + name, 'str')}))
        if self.assign_ok(s, env):
            return self.let(s, rest, env, self.head)
        bad(s, 'statement of Codecs.open')

    # ------------------------------------------------------------ Codecs.open: the yielded lines (pure)
    def gen(self, ss, env, end):
        if not ss:
            return end
        s, rest = ss[0], ss[1:]
        cont = lambda r, e: self.gen(r, e, end)  # noqa: E731
        if isinstance(s, ast.Expr) and isinstance(s.value, ast.Yield) and s.value.value is not None:
            return '(%s :: %s)' % (self.want(s.value.value, env, 'str'), cont(rest, env))
        if isinstance(s, ast.Expr) and isinstance(s.value, ast.YieldFrom):
            return '(%s ++ %s)' % (self.want(s.value.value, env, 'strs'), cont(rest, env))
        if isinstance(s, ast.If):
            return self.branch(s, rest, env, cont)
        if isinstance(s, ast.For) and end == '[]' and not s.orelse and isinstance(s.target, ast.Name) and s.target.id not in RESERVED:
            assigned = {n.id for b in s.body for n in ast.walk(b) if isinstance(n, ast.Name) and isinstance(n.ctx, ast.Store)}
            state = [v for v in env if v in assigned and env[v][1] in TYPES]
            if id(s) in self.loopnames:
                bad(s, 'loop reached twice')
            self.loopnames[id(s)] = name = 'src_codecs_open_loop%d' % (len(self.loops) + 1)
            self.loops.append(None)
            body = self.gen(s.body, {**env, s.target.id: ('v_' + s.target.id, 'str')}, '%s C l_ %s' % (name, ' '.join('v_' + v for v in state)))
            self.loops[int(name[len('src_codecs_open_loop'):]) - 1] = (
                'Fixpoint %s (C : codec_oracles) (l_ : list str) %s : list str :=\n match l_ with\n | [] => %s\n | v_%s :: l_ =>\n%s\n end.\n'
                % (name, ' '.join('(v_%s : %s)' % (v, TYPES[env[v][1]]) for v in state), self.gen(rest, env, '[]'), s.target.id, body))
            return '%s C %s %s' % (name, self.want(s.iter, env, 'strs'), ' '.join(env[v][0] for v in state))
        if self.assign_ok(s, env):
            return self.let(s, rest, env, cont)
        bad(s, 'statement of the generator')


def plain_def(f, params, vararg=None, kwarg=None, defaults=()):
    a = f.args
    if not isinstance(f, ast.FunctionDef) or [x.arg for x in a.args] != params or a.posonlyargs or a.kwonlyargs or f.decorator_list \
            or (a.vararg.arg if a.vararg else None) != vararg or (a.kwarg.arg if a.kwarg else None) != kwarg \
            or [ast.unparse(d) for d in a.defaults] != list(defaults) or f.returns or any(x.annotation for x in a.args):
        bad(f, 'signature')
    if any(isinstance(n, (ast.Global, ast.Nonlocal, ast.Lambda, ast.NamedExpr, ast.Await, ast.ListComp, ast.GeneratorExp)) for n in ast.walk(f)):
        bad(f, 'construct')
    body = f.body
    return body[1:] if body and isinstance(body[0], ast.Expr) and strconst(body[0].value) else body


def once(body, name, where):
    """the only statement of `body` that binds `name` (assignment, def or class)"""
    hits = [s for s in body if (isinstance(s, (ast.FunctionDef, ast.ClassDef)) and s.name == name)
            or (isinstance(s, ast.Assign) and any(isinstance(n, ast.Name) and n.id == name for t in s.targets for n in ast.walk(t)))]
    stores = [n for s in body for n in ast.walk(s) if isinstance(n, ast.Name) and n.id == name and isinstance(n.ctx, (ast.Store, ast.Del))] if where == 'module' else []
    if len(hits) != 1 or len(stores) > (1 if isinstance(hits[0], ast.Assign) else 0):
        raise Unsupported('%s must be bound exactly once in %s' % (name, where))
    if isinstance(hits[0], ast.Assign) and not (len(hits[0].targets) == 1 and isinstance(hits[0].targets[0], ast.Name)):
        bad(hits[0], 'binding')
    return hits[0]


def patch(tree, name, inner, installs):
    """the nested function `inner` of the registered patch `name`, whose other statements must read `installs`"""
    f = once(tree.body, name, 'module')
    if not isinstance(f, ast.FunctionDef) or [ast.unparse(d) for d in f.decorator_list] != ['register_patch'] or ast.unparse(f.args) != '':
        bad(f, 'patch')
    g = once(f.body, inner, name) if inner else None
    if sorted(ast.unparse(s) for s in f.body if s is not g) != sorted(installs):
        bad(f, 'statements of the patch')
    return g


def generate():
    tree = ast.parse(open(os.path.join(REPO, 'lib', 'polib4us.py'), encoding='utf-8').read())
    out = ['(* generated by tools/gen/gen_polib_src.py from lib/polib4us.py: do not edit *)',
           'From Coq Require Import List NArith Bool.',
           'From I18n Require Import Lib.Outcome Model.PoUnescape Model.PoParser Model.PoLexer Model.PoPy.',
           'Import ListNotations.', 'Local Open Scope N_scope.', '']
    errors, regexes = [], set()

    def job(names, thunk):
        try:
            out.append(thunk())
        except Unsupported as exc:
            errors.append('%s: %s' % (names[0], exc))
            why = str(exc).replace('(*', '( *').replace('*)', '* )').replace('"', "'")
            out.extend('(* NOT TRANSLATED: %s *)\nDefinition %s : unit := tt.\n' % (why, n) for n in names)

    for n in RESERVED - {'self', 'original', 'open'}:      # the names the rules interpret mean what they say
        if n in MODULE_RE:
            continue
        if not any(isinstance(s, (ast.Import, ast.ImportFrom)) and [(a.name, a.asname) for a in s.names] == [(n, None)]
                   and (isinstance(s, ast.Import) or (s.module == 'lib' and s.level == 0)) for s in tree.body) \
                or sum(isinstance(x, ast.Name) and x.id == n and not isinstance(x.ctx, ast.Load) for x in ast.walk(tree)) \
                or any(isinstance(x, ast.arg) and x.arg == n for x in ast.walk(tree)):
            raise Unsupported('import of ' + n)

    for n in ('open', 'UnicodeDecodeError', 'NotImplementedError'):      # builtins the rules interpret: never rebound in the module
        if any((isinstance(x, ast.Name) and x.id == n and not isinstance(x.ctx, ast.Load)) or (isinstance(x, ast.arg) and x.arg == n)
               or (isinstance(x, ast.alias) and (x.asname or x.name) == n) for x in ast.walk(tree)) \
                or any(isinstance(x, (ast.FunctionDef, ast.ClassDef)) and x.name == n for x in tree.body):
            raise Unsupported('builtin %s is rebound' % n)

    def regex_job(name, body, where, method):
        def thunk():
            text = regex_of(once(body, name, where).value, method)
            regexes.add(name)
            return 'Definition src_%s : list N := %s.\n' % (name, lit(text))
        job(['src_' + name], thunk)

    for name in MODULE_RE:
        regex_job(name, tree.body, 'module', None)
    cls = once(tree.body, 'Codecs', 'module')
    if not isinstance(cls, ast.ClassDef) or cls.bases or cls.keywords or cls.decorator_list:
        bad(cls, 'class Codecs')
    for name, method in CLASS_RE.items():
        regex_job(name, cls.body, 'class Codecs', method)

    def default_encoding():
        f = once(tree.body, 'default_encoding_patch', 'module')
        if not (isinstance(f, ast.FunctionDef) and [ast.unparse(d) for d in f.decorator_list] == ['register_patch'] and ast.unparse(f.args) == ''
                and len(f.body) == 1 and isinstance(f.body[0], ast.Assign) and ast.unparse(f.body[0].targets) == 'polib.default_encoding'
                and strconst(f.body[0].value)):
            bad(f, 'default_encoding_patch')
        return 'Definition src_default_encoding : str := %s.\n' % lit(f.body[0].value.value)
    job(['src_default_encoding'], default_encoding)

    def unescape():
        f = once(tree.body, 'polib_unescape', 'module')
        body = plain_def(f, ['s'])
        if not (len(body) == 2 and isinstance(body[0], ast.FunctionDef) and body[0].name == 'unescape' and isinstance(body[1], ast.Return)
                and ast.unparse(body[1]) == 'return _escapes_re.sub(unescape, s)' and '_escapes_re' in regexes):
            bad(f, 'polib_unescape')
        inner = plain_def(body[0], ['match'])
        fn = Fn(regexes)
        return ('(* polib_unescape: the callback *)\nDefinition src_unescape (dec : list N -> option str) (v_match : str) : wres str :=\n%s.\n\n'
                'Definition src_polib_unescape (dec : list N -> option str) (v_s : str) : wres str :=\n re_sub_cb src__escapes_re (src_unescape dec) v_s.\n'
                % fn.wblock(inner, {'match': ('v_match', 'match')}))
    job(['src_unescape', 'src_polib_unescape'], unescape)

    def codecs_open():
        f = once(cls.body, 'open', 'class Codecs')
        body = plain_def(f, ['self', 'path', 'mode', 'encoding'])
        fn = Fn(regexes)
        t = fn.head(body, {'mode': ('v_mode', 'str'), 'encoding': ('v_encoding', 'str'), 'C': ('C', 'oracle'), 'raw': ('raw', 'oracle')})
        return ('(* Codecs.open *)\n%s\nDefinition src_codecs_open (C : codec_oracles) (v_mode v_encoding : str) (raw : list N) : outcome (list str) load_err :=\n%s.\n'
                % ('\n'.join(fn.loops), t))
    job(['src_codecs_open'], codecs_open)

    def detect_encoding():
        g = patch(tree, 'detect_encoding_patch', 'detect_encoding', ['original = polib.detect_encoding', 'polib.detect_encoding = detect_encoding'])
        body = plain_def(g, ['path', 'binary_mode'], defaults=['False'])
        if [ast.unparse(s) for s in body] != ['if binary_mode:\n    return', 'return original(path)']:
            bad(g, 'detect_encoding')
        return ('(* detect_encoding_patch *)\nDefinition src_detect_encoding {A B : Type} (original : A -> B) (v_path : A) (v_binary_mode : bool) : option B :=\n'
                ' if v_binary_mode then None else Some (original v_path).\n')
    job(['src_detect_encoding'], detect_encoding)

    def pofile_find():
        g = patch(tree, 'pofile_find_patch', 'pofile_find', ['polib.POFile.find = pofile_find'])
        body = plain_def(g, ['self'], vararg='args', kwarg='kwargs')
        for s in body:
            if not (isinstance(s, ast.Delete) and all(isinstance(t, ast.Name) and t.id in ('self', 'args', 'kwargs') for t in s.targets)) and not isinstance(s, ast.Pass):
                bad(s, 'statement of pofile_find')
        return ('(* pofile_find_patch *)\nDefinition src_pofile_find {T A B K : Type} (v_self : A) (v_args : B) (v_kwargs : K) : option T :=\n None.\n')
    job(['src_pofile_find'], pofile_find)
    return '\n'.join(out), errors


def main(emit):
    try:
        text, errors = generate()
    except Exception as exc:
        # fail closed: the file below compiles (so its .vo is replaced) but defines none of the functions
        why = ('%s: %s' % (type(exc).__name__, exc)).replace('(*', '( *').replace('*)', '* )').replace('"', "'")
        emit('PolibSrc.v', '(* TRANSLATION FAILED: %s *)\nDefinition polib_source_translation_failed := tt.\n' % why)
        raise
    emit('PolibSrc.v', text)
    if errors:
        raise Unsupported('; '.join(errors))


if __name__ == '__main__':
    main(lambda name, text: print(text))

"""Translator for C02: every tags.safestr(...) / tags.safe_format(...) / .tag('name', ...) call
in /repo's checker code -> coq/Generated/CallSites.v with a provenance term per verbatim argument;
data/tags -> coq/Generated/TagsData.v; the message attributes of the format-string error classes;
the isprintable / Cc / Cf / Zl / Zp range tables of the running interpreter -> coq/Generated/UcdPrintable.v.

Fail-closed: an argument whose expression is not a literal, an f-string / concatenation of literals
and whitelisted tool-generated values, is emitted as PTainted, which the Coq theorem rejects."""
import ast
import os
import sys
import unicodedata

REPO = os.environ.get('VERIF_REPO') or '/repo'

FILES = [
    'lib/cli.py', 'lib/check/__init__.py', 'lib/check/msgrepr.py', 'lib/check/msgformat/__init__.py',
    'lib/check/msgformat/c.py', 'lib/check/msgformat/python.py', 'lib/check/msgformat/pybrace.py',
    'lib/check/msgformat/perlbrace.py',
]

# (file, expression source) -> kind.  Each entry is tool-generated text, never text of the checked file;
# the justification is in DESIGN.md (C02) and every kind is validated dynamically by the C02 harness
# (all values recorded for it on hostile catalogs must be clean).
FMT = ['lib/check/msgformat/c.py', 'lib/check/msgformat/python.py', 'lib/check/msgformat/pybrace.py', 'lib/check/msgformat/perlbrace.py']
TRUSTED = {}
for f in FMT:
    TRUSTED[(f, 'exc.message')] = 'exc-message-class-attribute'
    TRUSTED[(f, 'dst_loc')] = 'location-name'          # 'msgid' / 'msgid_plural' / 'msgstr' / f'msgstr[{i}]'
    TRUSTED[(f, 'src_loc')] = 'location-name'
    TRUSTED[(f, 'dst_arg.type')] = 'type-name-from-table'
    TRUSTED[(f, 'src_arg.type')] = 'type-name-from-table'
TRUSTED[('lib/check/msgformat/pybrace.py', "str.join(', ', dst_arg.types)")] = 'type-names-from-table'
TRUSTED[('lib/check/msgformat/pybrace.py', "str.join(', ', src_arg.types)")] = 'type-names-from-table'
TRUSTED[('lib/check/msgformat/pybrace.py', "str.join(', ', sorted(dst_arg.types))")] = 'type-names-from-table'
TRUSTED[('lib/check/msgformat/pybrace.py', "str.join(', ', sorted(src_arg.types))")] = 'type-names-from-table'
TRUSTED[('lib/check/msgformat/python.py', "str.join(', ', sorted((x for x in types)))")] = 'type-names-from-table'
TRUSTED[('lib/check/msgformat/c.py', "str.join(', ', sorted((x for x in exc.args[2])))")] = 'type-names-from-table'
TRUSTED[('lib/check/msgformat/c.py', 'exc.args[1]')] = 'integer'
C = 'lib/check/__init__.py'
TRUSTED[(C, 'exc.strerror')] = 'os-strerror'
TRUSTED[(C, 'exc')] = 'moparser-or-expat-error-message'
TRUSTED[(C, 'message')] = 'regex-guarded-lowercase-words'       # re.fullmatch(r'[a-z]+( [a-z]+)*', message)
TRUSTED[(C, 'lineno_part')] = 'line-number'
TRUSTED[(C, 'match.group(1)')] = 'digits'
TRUSTED[(C, 'language_source')] = 'literal-valued-variable'
TRUSTED[(C, 'rng')] = 'formatted-integer-range'
TRUSTED[(C, 'content_type_hint')] = 'literal-valued-variable'
TRUSTED[(C, 'field')] = 'literal-valued-variable'
TRUSTED[(C, 'unusual_char_names')] = 'unicode-character-names'
TRUSTED[(C, 'names')] = 'unicode-character-names'
TRUSTED[(C, 'positive_format_flags[fmt]')] = 'known-format-flag'
TRUSTED[(C, 'i')] = 'integer'
TRUSTED[(C, 'fi')] = 'integer'
TRUSTED[(C, 'n')] = 'integer'
TRUSTED[(C, "str.join(' or ', ('{}' for s in correct_plural_forms))")] = 'placeholder-template'
TRUSTED[('lib/check/msgrepr.py', 'template')] = 'placeholder-template'     # built from literals and literal call-site templates


PARENTS = {}


def coq_str(s):
    return '[' + '; '.join(str(ord(c)) for c in s) + ']%N'


def prov(node, rel):
    if isinstance(node, ast.Constant) and isinstance(node.value, str):
        return 'PLit %s' % coq_str(node.value)
    if isinstance(node, ast.JoinedStr):
        parts = []
        for v in node.values:
            if isinstance(v, ast.Constant):
                parts.append('PLit %s' % coq_str(v.value))
            elif isinstance(v, ast.FormattedValue):
                if v.format_spec is not None or v.conversion != -1:
                    parts.append('PTainted %s' % coq_str(ast.unparse(v)))
                else:
                    parts.append(prov(v.value, rel))
            else:
                parts.append('PTainted %s' % coq_str(ast.unparse(v)))
        return 'PCat [%s]' % '; '.join(parts)
    if isinstance(node, ast.BinOp) and isinstance(node.op, ast.Add):
        return 'PCat [%s; %s]' % (prov(node.left, rel), prov(node.right, rel))
    src = ast.unparse(node)
    kind = TRUSTED.get((rel, src))
    if kind == 'regex-guarded-lowercase-words':
        # trusted only under the literal guard  if re.fullmatch(r'[a-z]+( [a-z]+)*', message):
        p = PARENTS.get(node)
        guarded = False
        while p is not None:
            if isinstance(p, ast.If) and ast.unparse(p.test) == "re.fullmatch('[a-z]+( [a-z]+)*', %s)" % src:
                guarded = True
                break
            p = PARENTS.get(p)
        if not guarded:
            kind = None
    if kind is not None:
        return 'PTrusted %s' % coq_str(kind)
    return 'PTainted %s' % coq_str(src)


def is_tags_call(node, name):
    f = node.func
    return isinstance(f, ast.Attribute) and f.attr == name and isinstance(f.value, ast.Name) and f.value.id == 'tags'


def main(emit):
    sites = []
    tagnames = []
    for rel in FILES:
        path = os.path.join(REPO, rel)
        tree = ast.parse(open(path, encoding='utf-8').read())
        for par in ast.walk(tree):
            for ch in ast.iter_child_nodes(par):
                PARENTS[ch] = par
        for node in ast.walk(tree):
            if not isinstance(node, ast.Call):
                continue
            if is_tags_call(node, 'safestr'):
                if len(node.args) != 1 or node.keywords:
                    raise SystemExit('unexpected safestr() shape at %s:%d' % (rel, node.lineno))
                sites.append((rel, node.lineno, 'safestr', prov(node.args[0], rel)))
            elif is_tags_call(node, 'safe_format'):
                if not node.args:
                    raise SystemExit('unexpected safe_format() shape at %s:%d' % (rel, node.lineno))
                # only the template is verbatim; the other arguments go through _escape
                sites.append((rel, node.lineno, 'safe_format', prov(node.args[0], rel)))
            elif isinstance(node.func, ast.Attribute) and node.func.attr == 'tag' and node.args:
                a0 = node.args[0]
                if isinstance(a0, ast.Constant) and isinstance(a0.value, str):
                    tagnames.append((rel, node.lineno, a0.value))
                elif isinstance(a0, ast.Name) and a0.id == 'tagname' and rel in ('lib/check/msgformat/__init__.py',):
                    pass   # the forwarding wrapper CheckerBase.tag(tagname, *extra)
                else:
                    raise SystemExit('non-literal tag name at %s:%d' % (rel, node.lineno))
    # a safestr subclass used under another name would escape this scan: make sure there is none
    for rel in FILES:
        src = open(os.path.join(REPO, rel), encoding='utf-8').read()
        if 'from lib.tags import' in src or 'import lib.tags' in src:
            raise SystemExit('unexpected import style of lib.tags in ' + rel)
    lines = ['(* generated by tools/gen/gen_callsites.py from the python ast of /repo/lib *)',
             'From Coq Require Import NArith List.', 'From I18n Require Import Model.Tags.', 'Import ListNotations.', '',
             '(* (line, verbatim argument) of every tags.safestr(...) call and of every tags.safe_format(...) template *)',
             'Definition verbatim_sites : list (N * prov) := [']
    lines.append(';\n'.join('  (%d%%N, %s)  (* %s %s *)' % (ln, p, rel, kind) for (rel, ln, kind, p) in sites))
    lines += ['].', '', '(* tag names used at .tag(...) call sites *)', 'Definition used_tag_names : list (list N) := [']
    lines.append(';\n'.join('  %s' % coq_str(t) for t in sorted({t for (_, _, t) in tagnames})))
    lines += ['].']
    emit('CallSites.v', '\n'.join(lines) + '\n')

    # ---- tag registry
    sys.path.insert(0, REPO)
    from lib import tags
    rows = []
    for t in tags.iter_tags():
        rows.append('  (%s, %s, %s)' % (coq_str(t.name), t.severity.name.capitalize().replace('-', ''),
                                        {'wild-guess': 'WildGuess', 'possible': 'Possible', 'certain': 'Certain'}[t.certainty.name]))
    emit('TagsData.v', '(* generated from /repo/data/tags through lib.tags *)\nFrom Coq Require Import NArith List.\n'
         'From I18n Require Import Model.Tags.\nImport ListNotations.\n\n'
         'Definition tag_table : list (list N * severity * certainty) := [\n' + ';\n'.join(rows) + '\n].\n')

    # ---- messages of the format-string error classes (exc.message)
    msgs = set()
    import importlib
    for m in ('c', 'python', 'pybrace', 'perlbrace'):
        mod = importlib.import_module('lib.strformat.' + m)
        for name in dir(mod):
            obj = getattr(mod, name)
            if isinstance(obj, type) and issubclass(obj, Exception) and hasattr(obj, 'message'):
                if not isinstance(obj.message, str):
                    raise SystemExit('non-literal message on %s.%s' % (m, name))
                msgs.add(obj.message)
    from lib import moparser
    import inspect
    for node in ast.walk(ast.parse(inspect.getsource(moparser))):
        if isinstance(node, ast.Raise) and isinstance(node.exc, ast.Call) and getattr(node.exc.func, 'id', '') == 'SyntaxError':
            a = node.exc.args[0]
            if isinstance(a, ast.Constant):
                msgs.add(a.value)
            elif isinstance(a, ast.JoinedStr):
                msgs.add(''.join(v.value if isinstance(v, ast.Constant) else '0' for v in a.values))
            else:
                raise SystemExit('unexpected moparser.SyntaxError argument')
    emit('ToolMessages.v', '(* generated: message attributes of lib.strformat.* error classes; moparser.SyntaxError messages (integers shown as 0) *)\n'
         'From Coq Require Import NArith List.\nImport ListNotations.\n\nDefinition tool_messages : list (list N) := [\n'
         + ';\n'.join('  ' + coq_str(m) for m in sorted(msgs)) + '\n].\n')

    # ---- Unicode tables of the running interpreter
    def ranges(pred):
        out = []
        start = None
        for c in range(0x110000):
            if pred(c):
                if start is None:
                    start = c
            elif start is not None:
                out.append((start, c - 1))
                start = None
        if start is not None:
            out.append((start, 0x10FFFF))
        return out
    printable = ranges(lambda c: chr(c).isprintable())
    hostile = ranges(lambda c: unicodedata.category(chr(c)) in ('Cc', 'Cf', 'Zl', 'Zp', 'Cs'))

    def tbl(name, rs):
        return 'Definition %s : list (N * N) := [\n%s\n].\n' % (name, ';\n'.join('  (%d, %d)' % r for r in rs))
    emit('UcdPrintable.v', '(* generated from the running interpreter (%s, unicodedata %s): maximal ranges, increasing *)\n'
         'From Coq Require Import NArith List.\nImport ListNotations.\nLocal Open Scope N_scope.\n\n' % (sys.version.split()[0], unicodedata.unidata_version)
         + tbl('printable_ranges', printable) + '\n(* categories Cc, Cf, Zl, Zp, Cs *)\n' + tbl('hostile_ranges', hostile))

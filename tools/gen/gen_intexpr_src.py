"""Source translator: the evaluator classes of /repo/lib/intexpr.py -> coq/Generated/IntExprSrc.v

Every method of BaseEvaluator / Evaluator / CodomainEvaluator / PeriodEvaluator (except SKIP) and the
module function lcm is translated, statement by statement, into a Gallina function returning
`sres T` (Lib/PySrc.v: SRet v | SNone | SAssert | SRaise exn).  Proofs/IntExprSrc.v proves every
generated function equal to the corresponding piece of the hand-written model Model/IntExpr.v.
FAIL CLOSED: any construct not listed here raises Unsupported (reported as a broken tie).

Values.  kinds: Z (int), pair (2-tuple of ints), bool, none (statically None), node / nodes (ast node,
list of nodes), zs (list of ints), val (opaque value of BaseEvaluator).  Method arguments x, y have the
class's value kind (Evaluator Z, Codomain/Period pair) and are NOT None (BaseEvaluator returns before
calling a leaf with None; that method is translated too).  `node` is replaced by one parameter
node_<attr> per attribute read (node.n : Z; ops/comparators/values : list A; others : A).
Context parameters, added when used: visit / visit1 / visit2 / visitn = self._visit with 0 / 1 / 2 /
starred extra arguments (the getattr dispatch itself is not translated), isinst = isinstance on nodes,
attr_n = `.n` of a child node (None: AttributeError), gcd (module function with a while loop: not
translated), M = self._ctxt.max, ctxt_n = self._ctxt.n.

Expressions.  int literal; local name; x[0] x[1] -> fst snd; (a, b) -> pair, bool components as int
(pb2z); + - * ; a // b -> a / b and a % b -> a mod b (Coq Z.div / Z.modulo = Python floor division and
sign-of-divisor modulo), each divisor d ALSO adds the guard `if d =? 0 then SRaise XZeroDiv` in front
of the statement, in evaluation order (rejected under and/or/chained comparison, where evaluation is
conditional); min max -> Z.min Z.max folded left; int(bool) -> pb2z; len; isinstance(x, ast.C | (ast.C,
...)); gcd(a, b); comparisons < <= > >= == != on ints, == != on pairs (zpair_eqb), chained a o b o c ->
(a o b) && (b o c); `x is None` / `is not None` / ==, != with a none-kind operand are decided statically;
and / or / not on bools; `not i` on an int -> i =? 0; truth of an int -> negb (i =? 0), of none -> false.

Statements (rest = the statements that follow, k = what falling off the end means: SNone for a method).
  return e -> SRet e; return / return None / end of body -> SNone; return CALL -> CALL (tail call)
  v = e -> let v := e in rest;  (a, b) = e -> let '(a, b) := e in rest;  v op= e as v = v op e
  v = None, x = y = None -> only the static kind changes
  v = CALL -> sbind CALL (fun v => rest) (rest with v of kind none); CALL is self._visit(...),
      self.<translated method>(...) or lcm(...)
  v = X.n (X a child node) -> match attr_n X with Some v => rest | None => SRaise XAttribute end
  [v] = nodes -> match nodes with [v] => rest | _ => SRaise XValue end
  if c: A else: B -> if c then (A; rest) else (B; rest) (rest is duplicated; a statically decided c
      keeps one branch only); `if CALL cmp e:` first binds CALL to a fresh name; `if a and b:` / `if a or b:`
      with a division in b is first rewritten to nested ifs (b is evaluated only when a allows)
  assert c -> if negb c then SAssert else rest;  pass -> rest
  raise OverflowError(..) / ZeroDivisionError / NotImplementedError -> SRaise X.. (arguments dropped)
  for v in L: B (top level of the body only; no break/continue/else) -> Fixpoint <f>_loop over L whose
      other parameters are all variables live at loop entry: [] => rest, v :: L' => B with k = the
      recursive call on L' with the current values of those variables (whose kinds B must not change).
Not translated: the constructors (max = 1 << bits), __call__, _visit (getattr dispatch), _visit_expr, gcd (while
loop).  Their text is pinned by digest (PINS): src_pin_<class> : bool says whether it is still the recorded one.
On any failure a definition-free IntExprSrc.v is written (no stale translation survives) and the error re-raised.
"""
import ast
import hashlib
import os
import re

REPO = os.environ.get('VERIF_REPO') or '/repo'
CLASSES = {'BaseEvaluator': ('base', 'val'), 'Evaluator': ('ev', 'Z'),
           'CodomainEvaluator': ('cd', 'pair'), 'PeriodEvaluator': ('pe', 'pair')}
SKIP = {'__init__', '__call__', '_visit', '_visit_expr'}
REQUIRED = {
    'base': 'binop unaryop compare boolop',
    'ev': 'add sub mult div mod not gte gt lte lt eq noteq and or ifexp num name',
    'cd': 'add sub mult div mod not gte gt lte lt eq noteq and or ifexp num name',
    'pe': 'binop unaryop compare boolop ifexp num name',
}
TYPES = {'Z': 'Z', 'pair': '(Z * Z)', 'val': 'V', 'node': 'A', 'nodes': 'list A', 'zs': 'list Z', 'bool': 'bool'}
CTX = ['visit', 'visit1', 'visit2', 'visitn', 'isinst', 'attr_n', 'gcd', 'M', 'ctxt_n']
CTXTYPE = {'visit': 'A -> sres T', 'visit1': 'A -> T -> sres T', 'visit2': 'A -> T -> T -> sres T',
           'visitn': 'A -> list A -> sres T', 'isinst': 'A -> pycls -> bool', 'attr_n': 'A -> option Z',
           'gcd': 'Z -> Z -> Z', 'M': 'Z', 'ctxt_n': 'Z'}
NODEATTR = {'n': 'Z', 'ops': 'nodes', 'comparators': 'nodes', 'values': 'nodes'}
KCLS = 'Add Sub Mult Div Mod Not Lt LtE Gt GtE Eq NotEq And Or Name Num'.split()
CMP = {ast.Lt: '<?', ast.LtE: '<=?', ast.Gt: '>?', ast.GtE: '>=?', ast.Eq: '=?', ast.NotEq: '=?'}
EXN = {'OverflowError': 'XOverflow', 'ZeroDivisionError': 'XZeroDiv', 'NotImplementedError': 'XNotImplemented'}
# The untranslated parts (constructors, __call__, the getattr dispatch _visit, _visit_expr, gcd) are pinned: sha256 of the
# ast.unparse (comments and layout do not count) of those definitions per class; Generated/IntExprSrc.v says whether each still has the recorded value.
PINS = {'base': 'ecdb1b4fbe86095f', 'ev': '079209ff5684bb41', 'cd': '9233c044efeefca0', 'pe': 'f7c8d016e64aeb78'}
FUNCS = {}   # (class prefix | None, python name) -> (coq name, context parameters, n fixed args, has vararg, value kind)


class Unsupported(Exception):
    pass


def bad(node, why):
    raise Unsupported('%s: line %s: %s' % (why, getattr(node, 'lineno', '?'), ast.unparse(node)[:100]))


def ind(t):
    return '\n'.join('  ' + ln for ln in t.split('\n'))


def neg(c):
    if c.startswith('(negb ') and c.count('negb') == 1:
        return c[6:-1]
    return {'true': 'false', 'false': 'true'}.get(c, '(negb %s)' % c)


class Fn:
    def __init__(self, prefix, vk, fdef, ctx=None):
        self.prefix, self.vk, self.fdef = prefix, vk, fdef
        self.ctx, self.fixed = list(ctx or []), ctx is not None     # pass 2: the context found by pass 1
        self.name = 'src_%s%s' % (prefix + '_' if prefix else '', fdef.name.replace('_visit_', '').lstrip('_'))
        self.aux, self.guards, self.internal, self.hasnode = {}, [], set(), False

    def use(self, c):
        if c not in self.ctx:
            if self.fixed:
                raise Unsupported('context changed between passes: ' + c)
            self.ctx.append(c)
        return c

    def ctxlist(self):
        return [c for c in CTX if c in self.ctx] + [c for c in self.ctx if c not in CTX]

    # ------------------------------------------------------------ expressions -> (text, kind)
    def ex(self, e, env):
        if isinstance(e, ast.Constant):
            if e.value is None:
                return ('', 'none')
            if type(e.value) is int:
                return (str(e.value), 'Z')
        elif isinstance(e, ast.Name):
            v = e.id if e.id in self.internal else 'v_' + e.id
            if v in env:
                return (v, env[v])
        elif isinstance(e, ast.Attribute):
            src = ast.unparse(e)
            if src == 'self._ctxt.max':
                return (self.use('M'), 'Z')
            if src == 'self._ctxt.n':
                return (self.use('ctxt_n'), 'Z')
            if isinstance(e.value, ast.Name) and e.value.id == 'node' and self.hasnode and 'v_node' not in env and re.fullmatch('[a-z]+', e.attr):
                return (self.use('node_' + e.attr), NODEATTR.get(e.attr, 'node'))
        elif isinstance(e, ast.Subscript):
            t, k = self.ex(e.value, env)
            if k == 'pair' and isinstance(e.slice, ast.Constant) and e.slice.value in (0, 1) and type(e.slice.value) is int:
                return ('(%s %s)' % (('fst', 'snd')[e.slice.value], t), 'Z')
        elif isinstance(e, ast.Tuple) and len(e.elts) == 2:
            return ('(%s, %s)' % tuple(self.z(x, env, True) for x in e.elts), 'pair')
        elif isinstance(e, ast.BinOp):
            a, b = self.z(e.left, env), self.z(e.right, env)
            if isinstance(e.op, (ast.Add, ast.Sub, ast.Mult)):
                return ('(%s %s %s)' % (a, {ast.Add: '+', ast.Sub: '-', ast.Mult: '*'}[type(e.op)], b), 'Z')
            if isinstance(e.op, (ast.FloorDiv, ast.Mod)):
                self.guards.append(b)
                return ('(%s %s %s)' % (a, '/' if isinstance(e.op, ast.FloorDiv) else 'mod', b), 'Z')
        elif isinstance(e, ast.UnaryOp) and isinstance(e.op, ast.Not):
            t, k = self.ex(e.operand, env)
            return ('(%s =? 0)' % t, 'bool') if k == 'Z' else (neg(self.truth(e.operand, env)), 'bool')
        elif isinstance(e, ast.BoolOp):
            n0 = len(self.guards)
            ts = [self.ex(v, env) for v in e.values]
            if all(k == 'bool' for _, k in ts) and len(self.guards) == n0:
                return ('(%s)' % (' && ' if isinstance(e.op, ast.And) else ' || ').join(t for t, _ in ts), 'bool')
        elif isinstance(e, ast.Compare):
            return self.compare(e, env)
        elif isinstance(e, ast.Call) and isinstance(e.func, ast.Name) and not e.keywords:
            f, args = e.func.id, e.args
            if f in ('min', 'max') and len(args) >= 2:
                t = self.z(args[0], env)
                for a in args[1:]:
                    t = '(Z.%s %s %s)' % (f, t, self.z(a, env))
                return (t, 'Z')
            if f == 'int' and len(args) == 1:
                return (self.z(args[0], env, True), 'Z')
            if f == 'len' and len(args) == 1 and self.ex(args[0], env)[1] == 'nodes':
                return ('(Z.of_nat (length %s))' % self.ex(args[0], env)[0], 'Z')
            if f == 'gcd' and len(args) == 2:
                return ('(%s %s %s)' % (self.use('gcd'), self.z(args[0], env), self.z(args[1], env)), 'Z')
            if f == 'isinstance' and len(args) == 2 and self.ex(args[0], env)[1] == 'node':
                cs = args[1].elts if isinstance(args[1], ast.Tuple) else [args[1]]
                for c in cs:
                    if not (isinstance(c, ast.Attribute) and ast.unparse(c.value) == 'ast' and c.attr in KCLS):
                        bad(c, 'isinstance class')
                x = self.ex(args[0], env)[0]
                return ('(%s)' % ' || '.join('%s %s K%s' % (self.use('isinst'), x, c.attr) for c in cs), 'bool')
        bad(e, 'expression')

    def z(self, e, env, boolok=False):
        t, k = self.ex(e, env)
        if k == 'bool' and boolok:
            return '(pb2z %s)' % t
        if k != 'Z':
            bad(e, 'int expected, got ' + k)
        return t

    def compare(self, e, env):
        n0 = len(self.guards)
        xs = [self.ex(x, env) for x in [e.left] + e.comparators]
        if len(xs) > 2 and len(self.guards) != n0:
            bad(e, 'division under a chained comparison')
        out = []
        for (a, ka), op, (b, kb) in zip(xs, e.ops, xs[1:]):
            if isinstance(op, (ast.Is, ast.IsNot, ast.Eq, ast.NotEq)) and 'none' in (ka, kb) and {ka, kb} <= {'none', 'Z', 'pair', 'val'}:
                c = 'true' if ka == kb else 'false'
            elif ka == kb == 'Z' and type(op) in CMP:
                c = '(%s %s %s)' % (a, CMP[type(op)], b)
            elif ka == kb == 'pair' and isinstance(op, (ast.Eq, ast.NotEq)):
                c = '(zpair_eqb %s %s)' % (a, b)
            else:
                bad(e, 'comparison of %s and %s' % (ka, kb))
            out.append(neg(c) if isinstance(op, (ast.IsNot, ast.NotEq)) else c)
        if all(c in ('true', 'false') for c in out):
            return ('false' if 'false' in out else 'true', 'bool')
        return (out[0] if len(out) == 1 else '(%s)' % ' && '.join(out), 'bool')

    def truth(self, e, env):
        t, k = self.ex(e, env)
        if k == 'bool':
            return t
        if k == 'Z':
            return '(negb (%s =? 0))' % t
        if k == 'none':
            return 'false'
        bad(e, 'truth value of ' + k)

    def call(self, e, env):
        """CALL -> (text, kind of the value returned) or None"""
        if not (isinstance(e, ast.Call) and not e.keywords):
            return None
        f, args = e.func, list(e.args)
        if isinstance(f, ast.Attribute) and isinstance(f.value, ast.Name) and f.value.id == 'self':
            if f.attr == '_visit' and args:
                star = isinstance(args[-1], ast.Starred)
                if len(args) > 3:
                    bad(e, 'arguments of _visit')
                v = self.use('visitn' if star else ('visit', 'visit1', 'visit2')[len(args) - 1])
                want = ['node'] + (['nodes'] if star else [self.vk] * (len(args) - 1))
                args = [a.value if isinstance(a, ast.Starred) else a for a in args]
                ts = [self.ex(a, env) for a in args]
                if [k for _, k in ts] != want or (star and len(args) != 2):
                    bad(e, 'arguments of _visit')
                return ('%s %s' % (v, ' '.join(t for t, _ in ts)), self.vk, True)
            key = (self.prefix, f.attr)
        elif isinstance(f, ast.Name):
            key = (None, f.id)
        else:
            return None
        if key not in FUNCS:
            return None
        name, ctx, nfixed, vararg, vk, maynone = FUNCS[key]
        if any(isinstance(a, ast.Starred) for a in args) or len(args) < nfixed or (len(args) > nfixed and not vararg):
            bad(e, 'arguments')
        ts = [self.z(a, env) for a in args]
        for c in ctx:
            self.use(c)
        return (' '.join([name] + ctx + ts[:nfixed] + (['[%s]' % '; '.join(ts[nfixed:])] if vararg else [])), vk, maynone)

    def take(self):
        g, self.guards = self.guards, []
        return g

    @staticmethod
    def guard(g, body):
        for d in reversed(g):
            body = 'if %s =? 0 then SRaise XZeroDiv else\n%s' % (d, body)
        return body

    def bind(self, name, node):
        if not re.fullmatch('[A-Za-z_][A-Za-z0-9_]*', name):
            bad(node, 'variable name ' + name)
        return 'v_' + name          # Python locals are v_<name>: no clash with Coq keywords, constructors, context names

    # ------------------------------------------------------------ statements -> text
    def tr(self, stmts, env, k):
        if not stmts:
            return k(env)
        s, rest = stmts[0], stmts[1:]
        if self.guards:
            bad(s, 'internal: pending guards')
        if isinstance(s, ast.Pass):
            return self.tr(rest, env, k)
        if isinstance(s, ast.Return):
            if s.value is None:
                return 'SNone'
            c = self.call(s.value, env)
            if c:
                return self.guard(self.take(), c[0])
            t, kd = self.ex(s.value, env)
            if kd != 'none' and kd != self.vk:
                bad(s, 'return of kind ' + kd)
            return self.guard(self.take(), 'SNone' if kd == 'none' else 'SRet %s' % t)
        if isinstance(s, ast.Raise) and s.cause is None:
            x = s.exc.func if isinstance(s.exc, ast.Call) else s.exc
            for a in s.exc.args if isinstance(s.exc, ast.Call) else []:
                self.ex(a, env)                      # the arguments are dropped, but must be plain expressions
            if isinstance(x, ast.Name) and x.id in EXN and not self.guards and not getattr(s.exc, 'keywords', None):
                return 'SRaise ' + EXN[x.id]
        if isinstance(s, ast.Assert) and s.msg is None:
            c, g = self.truth(s.test, env), self.take()
            body = {'true': lambda: self.tr(rest, env, k), 'false': lambda: 'SAssert'}.get(
                c, lambda: 'if %s then SAssert else\n%s' % (neg(c), self.tr(rest, env, k)))()
            return self.guard(g, body)
        if isinstance(s, ast.If):
            t = s.test
            if isinstance(t, ast.Compare) and self.call(t.left, env):
                v = ast.Name('src_tmp%d' % len(self.internal), ast.Load())
                self.internal.add(v.id)
                new = [ast.Assign([v], t.left), ast.If(ast.Compare(v, t.ops, t.comparators), s.body, s.orelse)]
                return self.tr([ast.copy_location(n, s) for n in new] + rest, env, k)
            if isinstance(t, ast.BoolOp) and any(isinstance(n, ast.BinOp) and isinstance(n.op, (ast.FloorDiv, ast.Mod))
                                                 for v in t.values[1:] for n in ast.walk(v)):
                # a division evaluated only if the operands before it allow: nest the tests
                a, b = t.values[0], t.values[1] if len(t.values) == 2 else ast.BoolOp(t.op, t.values[1:])
                inner = ast.copy_location(ast.If(b, s.body, s.orelse), s)
                new = ast.If(a, [inner], s.orelse) if isinstance(t.op, ast.And) else ast.If(a, s.body, [inner])
                return self.tr([ast.copy_location(new, s)] + rest, env, k)
            c, g = self.truth(t, env), self.take()
            if c == 'true':
                return self.guard(g, self.tr(s.body + rest, env, k))
            if c == 'false':
                return self.guard(g, self.tr(s.orelse + rest, env, k))
            return self.guard(g, 'if %s then\n%s\nelse\n%s' % (c, ind(self.tr(s.body + rest, env, k)), ind(self.tr(s.orelse + rest, env, k))))
        if isinstance(s, ast.AugAssign) and isinstance(s.target, ast.Name):
            s = ast.copy_location(ast.Assign([s.target], ast.BinOp(ast.Name(s.target.id, ast.Load()), s.op, s.value)), s)
        if isinstance(s, ast.Assign):
            return self.assign(s, rest, env, k)
        if isinstance(s, ast.For) and not s.orelse and isinstance(s.target, ast.Name) and k is self.kend:
            return self.loop(s, rest, env, k)
        bad(s, 'statement')

    def assign(self, s, rest, env, k):
        tg = s.targets[0]
        if all(isinstance(t, ast.Name) for t in s.targets):
            names = [t.id if t.id in self.internal else self.bind(t.id, s) for t in s.targets]
            if isinstance(s.value, ast.Constant) and s.value.value is None:
                return self.tr(rest, dict(env, **{n: 'none' for n in names}), k)
            if len(names) == 1:
                v = names[0]
                c = self.call(s.value, env)
                if c:
                    g = self.take()
                    some = self.tr(rest, dict(env, **{v: c[1]}), k)
                    if not c[2]:      # the callee has no path returning None
                        return self.guard(g, 'sbind1 (%s) (fun %s =>\n%s)' % (c[0], v, ind(some)))
                    none = self.tr(rest, dict(env, **{v: 'none'}), k)
                    return self.guard(g, 'sbind (%s) (fun %s =>\n%s)\n  (%s)' % (c[0], v, ind(some), ind(none).lstrip()))
                if isinstance(s.value, ast.Attribute) and s.value.attr == 'n' and ast.unparse(s.value.value) != 'node':
                    x, kx = self.ex(s.value.value, env)
                    if kx != 'node':
                        bad(s, '.n of ' + kx)
                    body = self.tr(rest, dict(env, **{v: 'Z'}), k)
                    return 'match %s %s with\n| None => SRaise XAttribute\n| Some %s =>\n%s\nend' % (self.use('attr_n'), x, v, ind(body))
                t, kd = self.ex(s.value, env)
                g = self.take()
                if kd == 'none':
                    return self.tr(rest, dict(env, **{v: 'none'}), k)
                return self.guard(g, 'let %s := %s in\n%s' % (v, t, self.tr(rest, dict(env, **{v: kd}), k)))
        elif len(s.targets) == 1 and isinstance(tg, ast.Tuple) and len(tg.elts) == 2 and all(isinstance(x, ast.Name) for x in tg.elts):
            a, b = [self.bind(x.id, s) for x in tg.elts]
            t, kd = self.ex(s.value, env)
            if kd == 'pair' and a != b:
                return self.guard(self.take(), "let '(%s, %s) := %s in\n%s" % (a, b, t, self.tr(rest, dict(env, **{a: 'Z', b: 'Z'}), k)))
        elif len(s.targets) == 1 and isinstance(tg, ast.List) and len(tg.elts) == 1 and isinstance(tg.elts[0], ast.Name):
            v = self.bind(tg.elts[0].id, s)
            t, kd = self.ex(s.value, env)
            if kd == 'nodes':
                return 'match %s with\n| [%s] =>\n%s\n| _ => SRaise XValue\nend' % (t, v, ind(self.tr(rest, dict(env, **{v: 'node'}), k)))
        bad(s, 'assignment')

    def loop(self, s, rest, env, k):
        it, kd = self.ex(s.iter, env)
        if kd not in ('nodes', 'zs'):
            bad(s, 'for over ' + kd)
        v = self.bind(s.target.id, s)
        state = [(n, kk) for n, kk in env.items() if kk in TYPES and n != it]
        name = self.name + '_loop'
        after = self.tr(rest, {n: kk for n, kk in env.items() if n != it}, k)
        head = lambda: ' '.join([name] + self.ctxlist() + [n for n, _ in state])
        benv = dict({n: kk for n, kk in env.items() if n != it}, **{v: 'node' if kd == 'nodes' else 'Z'})

        def again(e):            # next iteration: every variable must still have the kind it had at loop entry
            if any(e.get(n) != kk for n, kk in env.items() if n != it):
                bad(s, 'loop body changes the kind of a variable')
            return head() + ' l_'
        body = self.tr(s.body, benv, again)
        if name in self.aux:
            bad(s, 'second loop')
        self.aux[name] = (state, kd, 'match l_ with\n| [] =>\n%s\n| %s :: l_ =>\n%s\nend' % (ind(after), v, ind(body)))
        return head() + ' ' + it

    # ------------------------------------------------------------ whole function
    def run(self):
        a = self.fdef.args
        if a.posonlyargs or a.kwonlyargs or a.kwarg or a.defaults or self.fdef.decorator_list:
            bad(self.fdef, 'signature')
        names = [x.arg for x in a.args]
        if self.prefix:
            if names[:1] != ['self']:
                bad(self.fdef, 'signature')
            self.hasnode = names[1:2] == ['node']
            names = names[2:] if self.hasnode else names[1:]
        env = {self.bind(n, self.fdef): self.vk for n in names}
        if a.vararg:
            env[self.bind(a.vararg.arg, self.fdef)] = 'nodes' if self.prefix else 'zs'
        self.kend = lambda e: 'SNone'
        body = [s for s in self.fdef.body if not (isinstance(s, ast.Expr) and isinstance(s.value, ast.Constant) and isinstance(s.value.value, str))]
        text = self.tr(body, env, self.kend)
        T = TYPES[self.vk]
        ctx = self.ctxlist()

        def sig(params):
            ps = ['(%s : %s)' % (c, (CTXTYPE.get(c) or TYPES[NODEATTR.get(c[5:], 'node')]).replace('T', T)) for c in ctx]
            ps += ['(%s : %s)' % (n, TYPES[kk]) for n, kk in params]
            s = ' '.join(ps)
            imp = ''.join(' {%s : Type}' % X for X in 'AV' if re.search(r'\b%s\b' % X, s + T))
            return imp + (' ' + s if s else '')
        out = []
        for name, (state, kd, btext) in self.aux.items():
            out.append('Fixpoint %s%s {struct l_} : sres %s :=\n%s.\n' % (name, sig(state + [('l_', kd)]), T, ind(btext)))
        out.append('Definition %s%s : sres %s :=\n%s.\n' % (self.name, sig(list(env.items())), T, ind(text)))
        res = '\n'.join(out)
        FUNCS[(self.prefix or None, self.fdef.name)] = (self.name, ctx, len(names), bool(a.vararg), self.vk,
                                                         'SNone' in res or 'visit' in res)
        return res


def translate(prefix, vk, fdef):
    first = Fn(prefix, vk, fdef)
    first.run()                                    # pass 1 only finds the context parameters
    return Fn(prefix, vk, fdef, first.ctxlist()).run()


def main(emit):
    try:
        text = generate()
    except Exception as exc:
        # fail closed: no stale translation stays behind.  The file below compiles (so its .vo is replaced) but defines
        # none of the functions: no source-tie lemma compiles against it
        why = ('%s: %s' % (type(exc).__name__, exc)).replace('(*', '( *').replace('*)', '* )')
        emit('IntExprSrc.v', '(* TRANSLATION FAILED: %s *)\nDefinition source_translation_failed := tt.\n' % why)
        raise
    emit('IntExprSrc.v', text)


def generate():
    src = open(os.path.join(REPO, 'lib', 'intexpr.py'), encoding='utf-8').read()
    tree = ast.parse(src)
    FUNCS.clear()
    out = ['(* generated by tools/gen/gen_intexpr_src.py from lib/intexpr.py: one function per method; rules in that file *)',
           'From Coq Require Import List ZArith Bool.', 'From I18n Require Import Lib.Outcome Lib.PySrc.',
           'Import ListNotations.', 'Local Open Scope Z_scope.', '']
    seen = {}
    for top in tree.body:
        if isinstance(top, ast.FunctionDef) and top.name == 'lcm':
            out += ['(* lcm *)', translate('', 'Z', top)]
            seen[('', 'lcm')] = 1
        if isinstance(top, ast.ClassDef) and top.name in CLASSES:
            prefix, vk = CLASSES[top.name]
            if top.decorator_list or top.keywords or [ast.unparse(b) for b in top.bases] != ([] if prefix == 'base' else ['BaseEvaluator']):
                bad(top, 'class header')
            pinned = [s for s in top.body if isinstance(s, ast.FunctionDef) and s.name in SKIP]
            pinned += [t for t in tree.body if isinstance(t, ast.FunctionDef) and t.name == 'gcd' and prefix == 'pe']
            h = hashlib.sha256('\n'.join(ast.unparse(x) for x in pinned).encode()).hexdigest()[:16]
            out += ['(* %s: %s unchanged? (%s) *)' % (top.name, ', '.join(x.name for x in pinned), h),
                    'Definition src_pin_%s : bool := %s.\n' % (prefix, 'true' if h == PINS[prefix] else 'false')]
            for s in top.body:
                if isinstance(s, ast.FunctionDef):
                    if s.name in SKIP:
                        continue
                    out += ['(* %s.%s *)' % (top.name, s.name), translate(prefix, vk, s)]
                    seen[(prefix, s.name.replace('_visit_', ''))] = seen.get((prefix, s.name.replace('_visit_', '')), 0) + 1
                elif ast.unparse(s) != '_visit_constant = _visit_num':
                    bad(s, 'class-level statement')
    want = {('', 'lcm'): 1, ('ev', '_check_overflow'): 1}
    want.update({(p, m): 1 for p, ms in REQUIRED.items() for m in ms.split()})
    if seen != want:
        raise Unsupported('set of methods changed: %s' % sorted(set(seen.items()) ^ set(want.items())))
    return '\n'.join(out)


if __name__ == '__main__':
    main(lambda name, text: print(text))

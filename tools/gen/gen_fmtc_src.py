"""Source translator: lib/strformat/c.py (FormatString.get_last_integer_conversion, FormatString.add_argument,
Conversion.__init__, FormatString.__init__) -> coq/Generated/FmtCSrc.v.  Proofs/FmtCSrc*.v prove the generated functions equal to the hand-written model Model/FmtC.v.
The generated text applies only the vocabulary of Model/FmtCPy.v, the data types of Model/FmtC.v and the tables of
Generated/CInfo.v.  FAIL CLOSED: anything not listed here raises Unsupported (a definition-free FmtCSrc.v is written).

Results.  A statement list becomes a term of type `cres T`: CRet v (completed), CAssert (failed assert), CRaise x.
A method returns CRet (the attributes it leaves behind): add_argument -> (_argument_map, _next_arg_index);
Conversion.__init__ -> (parent._argument_map, parent._next_arg_index, parent.warnings, self._s, self.type, self.integer);
FormatString.__init__ -> (_items, arguments, warnings); get_last_integer_conversion -> CRet (None | Some conversion).
Extra parameters: maxd (sys.get_int_max_str_digits(), for int()),
cid (the identity of the Conversion object under construction = its index in _items), and for FormatString.__init__ the
two oracles finditer (= _directive_re.finditer, a list of match objects) and printable_prefix (None = no match).

Kinds (static, per path): str ostr char int oint bool pair opair (the rows of _info.int_types) counter amap warns arg args
argss items typeset match none ellipsis, conv / oconv (a reference to a Conversion object: (index in _items, .integer),
or None), stararg / convarg (an element of the argument map known to be a VariableWidth|VariablePrecision / a Conversion),
nn (a value of which only "is not None" is known: bool).  A local is a Gallina
`let` of the same name (v_<name>; self.<x> -> a_<x>; the parent's state in Conversion.__init__ -> p_<x>); rebinding shadows.

Expressions.  str / int literals; None; ... ; names; NL_ARGMAX, INT_MAX -> c_NL_ARGMAX, c_INT_MAX; `i = _info` then i.<x> ->
c_<x> (CInfo.v); match.group('<g>') -> m_<g> match (ostr); match.start() / .end(); match.string[slice(*match.span())] -> m_text;
a + b (str/char concatenation, int addition); x in S: char in str -> mem, str in str -> str_in (substring), in a set literal
of strs -> mem / str_in_set, char in Counter -> mem; == != on str / char / ostr / int; < <= > >= on int, chained comparisons
-> conjunction; not, and, or (the later operands must not contain an operation that can raise); len(x); x or 'lit';
s.startswith((a, b)); s.lower() -> str_lower (ASCII); s.rstrip('$'); s[n:]; D.get(k, d) / D.get(k) on the two dicts of _info;
t[b] (pair indexed by a bool); collections.Counter(x); truth of ostr / lists; VariableWidth(self) / VariablePrecision(self) /
self as an argument value -> mkarg KWidth|KPrec|KConv cid <type> <self.integer> (self.type, self.integer may not be assigned
afterwards; the two classes must read `type = 'int'`-style + `self.parent = parent`).
Operations that can raise are bound in front of the statement they occur in: int(x) -> py_int maxd x (ValueError above the
digit limit; exact for digit strings), _printable_prefix(x) (AttributeError when the oracle says None), and the use of a
str-or-None variable where a str is needed -> match v with None => CRaise (XCrash CTypeError) | Some v => .. (v is a str from
there on).

Statements (rest = what follows).
  v = e, a = b = e, v += e (str, int, lists: items += [x] -> ILit / IConv by kind; m[n] += [v] -> amap_add); pass
  if / elif / else: `x is None` / `x is not None` on an optional variable -> match (x refined in the branches); on a variable of
      known None-ness -> only the live branch is translated.  The rest is duplicated into the branches, EXCEPT for the
      top-level `if` statements of Conversion.__init__, which become separate definitions src_conversion_init_s<k> returning
      the variables they (re)bind (JOIN: kinds of one variable on different paths are merged: X and None -> optional X,
      otherwise nn).
  assert c; assert x is not None (refines); assert False
  raise C(args) for the Error classes (table RAISES; class tree taken from the source), raise IndexError,
      raise OverflowError(n); `ArgumentRangeError(s, f'{exc}$')` with exc the caught OverflowError -> EArgumentRangeErrorStr
  parent.warn(C, args..) -> parent.warnings ++ [W..]  (FormatString.warn must read `self.warnings += [exc_type(*args, **kwargs)]`)
  parent.add_argument(n, v) -> cbind (src_add_argument ..) (fun '(map, next) => rest)
  try: S (one statement) except K: raise .. [except K2 as v: raise ..] -> cbind (ccatch S' handlers) (fun outs => rest),
      K in IndexError OverflowError KeyError; handlers must end in raise
  v = self._argument_map.pop(i) -> amap_pop (None => CRaise XKey)
  items += [Conversion(self, match)] -> cbind (src_conversion_init maxd (length items) ..) ..; the new object's identity is
      its index in _items
  for x in L / for a, b in L: (L: Counter.items(), a literal list of tuples of 1-character strs, range(a, b),
      enumerate(l, start=a), _directive_re.finditer(s)) -> Fixpoint over the list; state = the variables the body rebinds;
      `break` -> CRet state; no continue / return / else.
  self._items = items = [] makes `items` an alias of the attribute.
get_last_integer_conversion only: a - b on ints; l[i] as a loop iterable -> py_index (None => IndexError, negative indices
  from the end); `if isinstance(x, (VariableWidth, VariablePrecision))` / `isinstance(x, Conversion)` on an element x ->
  arg_is_star / arg_is_conv, x refined in the true branch; x.parent only on a refined stararg -> (a_cid x, a_integer x); a
  refined convarg used as a value -> the same pair; a is b / a is not b on these references (b not None) -> equality of the
  index in _items (object identity), None is never identical to an object; c.integer -> snd c; v = w = None;
  return / return None / return c, also inside loops: such a loop returns CRet (inl state) when it completes and
  CRet (inr v) for `return v`, which is passed outwards (cbind .. (fun r => match r with inl .. => rest | inr v => ..)).
Not translated: __iter__, __len__, the regexes (oracles; the pattern text of _directive_re is
emitted as data, whitespace outside character classes removed as re.VERBOSE does), the `message` attributes.
"""
import ast
import os
import re

REPO = os.environ.get('VERIF_REPO') or '/repo'
TYPES = {'str': 'list N', 'ostr': 'option (list N)', 'char': 'N', 'int': 'Z', 'oint': 'option Z', 'bool': 'bool', 'nn': 'bool',
         'none': 'unit', 'ellipsis': 'unit', 'pair': '(list N * list N)', 'opair': 'option (list N * list N)', 'counter': 'list N',
         'amap': 'list (Z * arg)', 'warns': 'list cwarn', 'arg': 'arg', 'args': 'list arg', 'argss': 'list (list arg)',
         'items': 'list item', 'typeset': 'list (list N)', 'match': 'cmatch', 'N': 'N', 'nat': 'nat', 'ovf': 'Z',
         'conv': '(nat * bool)', 'oconv': 'option (nat * bool)', 'stararg': 'arg', 'convarg': 'arg',
         'o_finditer': 'list N -> list cmatch', 'o_prefix': 'list N -> option (list N)', 'info': 'unit', 'parent': 'unit', 'self': 'unit'}
OPT = {'ostr': 'str', 'oint': 'int', 'opair': 'pair', 'oconv': 'conv'}
OPTOF = {v: k for k, v in OPT.items()}
GROUPS = ['literal', 'index', 'flags', 'width', 'varwidth', 'varwidth_index', 'precision', 'varprec', 'varprec_index', 'length',
          'conversion', 'c99conv', 'c99len']
INFO = {'oct_cvt': 'str', 'hex_cvt': 'str', 'dec_cvt': 'str', 'float_cvt': 'str', 'uint_cvt': 'str', 'int_cvt': 'str', 'str_cvt': 'str',
        'int_types': 'dict_pair', 'portable_int_lengths': 'dict_str'}
RAISES = {'Error': ('EError', ['str']), 'LengthError': ('ELengthError', ['str', 'str']), 'FlagError': ('EFlagError', ['str', 'char']),
          'WidthError': ('EWidthError', ['str']), 'WidthRangeError': ('EWidthRangeError', ['str', 'int']),
          'PrecisionError': ('EPrecisionError', ['str']), 'PrecisionRangeError': ('EPrecisionRangeError', ['str']),
          'ArgumentRangeError': ('EArgumentRangeError', ['str', 'int']), 'ArgumentNumberingMixture': ('EArgumentNumberingMixture', ['str']),
          'ForbiddenArgumentIndex': ('EForbiddenArgumentIndex', ['str']), 'MissingArgument': ('EMissingArgument', ['str', 'int']),
          'ArgumentTypeMismatch': ('EArgumentTypeMismatch', ['str', 'int', 'typeset'])}
CATCH = {'IndexError': 'XIndex', 'OverflowError': 'XOverflow', 'KeyError': 'XKey'}
WARN_TEXT = 'def warn(self, exc_type, *args, **kwargs):\n    self.warnings += [exc_type(*args, **kwargs)]'
PREFIX_TEXT = "def _printable_prefix(s, r=re.compile('[ -~]+')):\n    return r.match(s).group()"
STAR_TEXT = "class %s:\n    type = 'int'\n\n    def __init__(self, parent):\n        self.parent = parent"
FS_ATTRS = [('a__argument_map', 'amap'), ('a__next_arg_index', 'oint'), ('a_warnings', 'warns')]
SIGS = {   # method -> (python parameters, environment at entry, returned variables with their kinds, sectioned?)
    'add_argument': (['self', 'n', 'value'],
                     [('maxd', 'N'), ('a__argument_map', 'amap'), ('a__next_arg_index', 'oint'), ('v_n', 'oint'), ('v_value', 'arg')],
                     [('a__argument_map', 'amap'), ('a__next_arg_index', 'oint')], False),
    'Conversion.__init__': (['self', 'parent', 'match'],
                            [('maxd', 'N'), ('cid', 'nat'), ('p__argument_map', 'amap'), ('p__next_arg_index', 'oint'), ('p_warnings', 'warns'),
                             ('v_match', 'match')],
                            [('p__argument_map', 'amap'), ('p__next_arg_index', 'oint'), ('p_warnings', 'warns'), ('a__s', 'str'),
                             ('a_type', 'str'), ('a_integer', 'bool')], True),
    'FormatString.__init__': (['self', 's'],
                              [('maxd', 'N'), ('o_finditer', 'o_finditer'), ('o_prefix', 'o_prefix'), ('v_s', 'str')],
                              [('a__items', 'items'), ('a_arguments', 'argss'), ('a_warnings', 'warns')], False),
    'get_last_integer_conversion': (['self', '*n'], [('maxd', 'N'), ('a_arguments', 'argss'), ('v_n', 'int')], 'oconv', False),
}
COQ = {'get_last_integer_conversion': 'src_get_last_integer_conversion', 'add_argument': 'src_add_argument', 'Conversion.__init__': 'src_conversion_init', 'FormatString.__init__': 'src_formatstring_init'}


class Unsupported(Exception):
    pass


def bad(node, why):
    raise Unsupported('%s: line %s: %s' % (why, getattr(node, 'lineno', '?'), ast.unparse(node)[:100] if isinstance(node, ast.AST) else node))


def ind(t):
    return '\n'.join('  ' + ln for ln in t.split('\n'))


def lit(s):
    return '[%s]%%N' % '; '.join(str(ord(c)) for c in s)


def tup(xs):
    return 'tt' if not xs else xs[0] if len(xs) == 1 else '(%s)' % ', '.join(xs)


def pat(xs):
    return '_' if not xs else xs[0] if len(xs) == 1 else "'(%s)" % ', '.join(xs)


def tupty(kinds):
    return 'unit' if not kinds else ' * '.join(TYPES[k] for k in kinds)


def uses(name, text):
    return re.search(r'(?<![A-Za-z0-9_\'])%s(?![A-Za-z0-9_\'])' % re.escape(name), text) is not None


def joinkind(kinds):
    ks = set(kinds)
    if len(ks) == 1:
        return kinds[0]
    for opt, base in OPT.items():
        if ks <= {opt, base, 'none'}:
            return opt
    if ks <= {'none', 'ellipsis', 'nn'} | set(OPT) | set(OPTOF):
        return 'nn'
    return None


def coerce(t, k, to):
    if k == to:
        return t
    if to in OPT and k == OPT[to]:
        return '(Some %s)' % t
    if to in OPT and k == 'none':
        return 'None'
    if to == 'nn':
        return 'false' if k == 'none' else '(is_some %s)' % t if k in OPT else 'true'
    raise Unsupported('a value of kind %s where %s is expected: %s' % (k, to, t))


class Fn:
    VER = [0]

    def __init__(self, key, fdef, cls):
        self.key, self.fdef, self.cls, self.name = key, fdef, cls, COQ[key]
        params, self.entry, self.rets, self.sectioned = SIGS[key]
        a = fdef.args
        if [x.arg for x in a.args] + ['*' + x.arg for x in a.kwonlyargs] != params or a.posonlyargs or a.kwarg or a.vararg or a.defaults \
                or any(d is not None for d in a.kw_defaults) or fdef.decorator_list:
            bad(fdef, 'signature')
        self.defs, self.pre, self.ntok, self.nsec, self.nloop = [], [], 0, 0, 0
        self.alias = {}
        self.retk = [lambda v: 'CRet %s' % v]      # how `return v` ends the enclosing construct

    # ------------------------------------------------------------ environment: name -> (kind, version)
    def set(self, env, name, kind):
        Fn.VER[0] += 1
        env[name] = (kind, Fn.VER[0])

    def token(self):
        self.ntok += 1
        return '@%d@' % self.ntok

    def var(self, e):
        """the Gallina name of a variable expression, or None"""
        n = None
        if isinstance(e, ast.Name):
            n = 'v_' + e.id
        elif isinstance(e, ast.Attribute) and isinstance(e.value, ast.Name) and e.value.id == 'self':
            n = 'a_' + e.attr
        return self.alias.get(n, n)

    def take(self):
        p, self.pre = self.pre, []
        return p

    @staticmethod
    def wrap(pre, body):
        for head, tail in reversed(pre):
            body = head + '\n' + body + tail
        return body

    # ------------------------------------------------------------ expressions -> (text, kind); may refine env, may add to self.pre
    def pure(self, e, env):
        n0, env0 = len(self.pre), dict(env)
        r = self.ex(e, env)
        if len(self.pre) != n0 or env != env0:
            bad(e, 'an operation that can raise, where evaluation is conditional')
        return r

    def want(self, e, env, kinds, pure=False):
        """evaluate e; accept one of `kinds`, converting char -> str and refining an optional variable when needed"""
        t, k = self.pure(e, env) if pure else self.ex(e, env)
        if k in kinds:
            return t, k
        if k == 'char' and 'str' in kinds:
            return '[%s]' % t, 'str'
        if k in OPT and OPT[k] in kinds and self.var(e) == t and not pure:
            self.pre.append(('match %s with\n| None => CRaise (XCrash CTypeError)\n| Some %s =>' % (t, t), '\nend'))
            self.set(env, t, OPT[k])
            return t, OPT[k]
        bad(e, '%s expected, got %s' % ('/'.join(kinds), k))

    def ex(self, e, env):
        if isinstance(e, ast.Constant):
            v = e.value
            if v is None:
                return ('tt', 'none')
            if v is Ellipsis:
                return ('tt', 'ellipsis')
            if v is True or v is False:
                return (str(v).lower(), 'bool')
            if type(v) is int:
                return ('(%d)' % v, 'int')
            if type(v) is str:
                return (lit(v), 'str')
        elif self.var(e) in env:
            return (self.var(e), env[self.var(e)][0])
        elif isinstance(e, ast.Name) and e.id in ('NL_ARGMAX', 'INT_MAX') and e.id in self.cls['ints']:
            return ('c_' + e.id, 'int')
        elif isinstance(e, ast.Attribute) and isinstance(e.value, ast.Name) and env.get('v_' + e.value.id, ('',))[0] == 'info' and e.attr in INFO:
            return ('c_' + e.attr, INFO[e.attr])
        elif isinstance(e, ast.BinOp) and isinstance(e.op, ast.Add):
            a, ka = self.want(e.left, env, ['str', 'int'])
            b, kb = self.want(e.right, env, [ka])
            return ('(%s %s %s)' % (a, '++' if ka == 'str' else '+', b), ka)
        elif isinstance(e, ast.BinOp) and isinstance(e.op, ast.Sub):
            return ('(%s - %s)' % (self.want(e.left, env, ['int'])[0], self.want(e.right, env, ['int'])[0]), 'int')
        elif isinstance(e, ast.Attribute) and e.attr == 'parent' and self.var(e.value) in env and env[self.var(e.value)][0] == 'stararg':
            return ('(a_cid %s, a_integer %s)' % (self.var(e.value), self.var(e.value)), 'conv')
        elif isinstance(e, ast.Attribute) and e.attr == 'integer' and self.var(e.value) in env and env[self.var(e.value)][0] == 'conv':
            return ('(snd %s)' % self.var(e.value), 'bool')
        elif isinstance(e, ast.UnaryOp) and isinstance(e.op, ast.Not):
            return ('(negb %s)' % self.truth(e.operand, env), 'bool')
        elif isinstance(e, ast.BoolOp):
            if isinstance(e.op, ast.Or) and len(e.values) == 2 and isinstance(e.values[1], ast.Constant) and type(e.values[1].value) is str:
                t, k = self.want(e.values[0], env, ['str', 'ostr'])
                return ('(%s %s %s)' % ('str_or' if k == 'str' else 'ostr_or', t, lit(e.values[1].value)), 'str')
            ts = [self.truth(e.values[0], env)] + [self.truth(v, env, True) for v in e.values[1:]]
            return ('(%s)' % (' && ' if isinstance(e.op, ast.And) else ' || ').join(ts), 'bool')
        elif isinstance(e, ast.Compare):
            return self.compare(e, env)
        elif isinstance(e, ast.Subscript):
            if ast.unparse(e) == 'match.string[slice(*match.span())]' and env.get('v_match', ('',))[0] == 'match':
                return ('(m_text v_match)', 'str')
            if isinstance(e.slice, ast.Slice):
                if e.slice.upper is None and e.slice.step is None and e.slice.lower is not None:
                    s = self.want(e.value, env, ['str'])[0]
                    return ('(str_from %s %s)' % (s, self.want(e.slice.lower, env, ['int'])[0]), 'str')
            else:
                t = self.want(e.value, env, ['pair'])[0]
                b = self.want(e.slice, env, ['bool'])[0]
                return ('(if %s then snd %s else fst %s)' % (b, t, t), 'str')
        elif isinstance(e, ast.Call):
            return self.call(e, env)
        bad(e, 'expression')

    def truth(self, e, env, pure=False):
        t, k = self.pure(e, env) if pure else self.ex(e, env)
        if k in ('bool', 'nn'):
            return t
        if k == 'ostr':
            return '(ostr_truth %s)' % t
        if k in ('amap', 'argss', 'args', 'items', 'counter', 'str'):
            return '(nonempty %s)' % t
        bad(e, 'truth value of ' + k)

    def noneness(self, e, env):
        """`e is not None` as (variable-to-refine | None, static value | None, bool text | None)"""
        v = self.var(e)
        if v in env:
            k = env[v][0]
            if k in OPT:
                return (v, None, '(is_some %s)' % v)
            if k == 'nn':
                return (None, None, v)
            return (None, k != 'none', None)
        t, k = self.ex(e, env)
        if k in OPT:
            return (None, None, '(is_some %s)' % t)
        return (None, k != 'none', None)

    def compare(self, e, env):
        if len(e.ops) == 1 and isinstance(e.ops[0], (ast.Is, ast.IsNot)) and ast.unparse(e.comparators[0]) == 'None':
            _, static, t = self.noneness(e.left, env)
            t = t if static is None else str(static).lower()
            return (t if isinstance(e.ops[0], ast.IsNot) else '(negb %s)' % t, 'bool')
        if len(e.ops) == 1 and isinstance(e.ops[0], (ast.Is, ast.IsNot)):
            a, ka = self.objref(e.left, env)
            b, kb = self.objref(e.comparators[0], env)
            if kb != 'conv':
                bad(e, 'identity test')
            c = '(Nat.eqb (fst %s) (fst %s))' % (a, b) if ka == 'conv' else '(oconv_is %s %s)' % (a, b)
            return (c if isinstance(e.ops[0], ast.Is) else '(negb %s)' % c, 'bool')
        if len(e.ops) == 1 and isinstance(e.ops[0], (ast.In, ast.NotIn)):
            c = self.member(e.left, e.comparators[0], env)
            return (c if isinstance(e.ops[0], ast.In) else '(negb %s)' % c, 'bool')
        parts, left = [], e.left
        for op, right in zip(e.ops, e.comparators):
            parts.append(self.cmp1(left, op, right, env, pure=bool(parts)))
            left = right
        return (parts[0] if len(parts) == 1 else '(%s)' % ' && '.join(parts), 'bool')

    def objref(self, e, env):
        """a reference to a Conversion object (its identity and .integer) or None"""
        t, k = self.ex(e, env)
        if k == 'convarg':
            return ('(a_cid %s, a_integer %s)' % (t, t), 'conv')
        if k == 'none':
            return ('None', 'oconv')
        if k in ('conv', 'oconv'):
            return (t, k)
        bad(e, 'identity test on ' + k)

    def cmp1(self, l, op, r, env, pure):
        one = lambda x: isinstance(x, ast.Constant) and type(x.value) is str and len(x.value) == 1
        a, ka = self.pure(l, env) if pure else self.ex(l, env)
        if ka == 'char' and one(r) and isinstance(op, (ast.Eq, ast.NotEq)):
            c = '(%s =? %d)%%N' % (a, ord(r.value))
            return c if isinstance(op, ast.Eq) else '(negb %s)' % c
        b, kb = self.pure(r, env) if pure else self.ex(r, env)
        if ka == kb == 'int':
            sym = {ast.Gt: '>?', ast.GtE: '>=?', ast.Lt: '<?', ast.LtE: '<=?', ast.Eq: '=?', ast.NotEq: '=?'}.get(type(op)) or bad(l, 'comparison')
            c = '(%s %s %s)%%Z' % (a, sym, b)
            return '(negb %s)' % c if isinstance(op, ast.NotEq) else c
        if isinstance(op, (ast.Eq, ast.NotEq)):
            if {ka, kb} <= {'str', 'ostr'}:
                if ka == kb == 'str':
                    c = '(list_eqb %s %s)' % (a, b)
                else:
                    c = '(ostr_eqb %s %s)' % (coerce(a, ka, 'ostr'), coerce(b, kb, 'ostr'))
                return c if isinstance(op, ast.Eq) else '(negb %s)' % c
        bad(l, 'comparison of %s and %s' % (ka, kb))

    def member(self, x, s, env):
        if isinstance(s, ast.Set) and all(isinstance(c, ast.Constant) and type(c.value) is str for c in s.elts):
            t, k = self.want(x, env, ['char', 'str'])
            if k == 'char' and all(len(c.value) == 1 for c in s.elts):
                return '(mem %s [%s]%%N)' % (t, '; '.join(str(ord(c.value)) for c in s.elts))
            return '(str_in_set %s [%s])' % (t if k == 'str' else '[%s]' % t, '; '.join(lit(c.value) for c in s.elts))
        c, kc = self.want(s, env, ['str', 'counter'])
        if kc == 'counter':
            if isinstance(x, ast.Constant) and type(x.value) is str and len(x.value) == 1:
                return '(mem %d%%N %s)' % (ord(x.value), c)
            return '(mem %s %s)' % (self.want(x, env, ['char'])[0], c)
        t, k = self.want(x, env, ['char', 'str'])
        return '(mem %s %s)' % (t, c) if k == 'char' else '(str_in %s %s)' % (t, c)

    def call(self, e, env):
        f, args, kws = e.func, e.args, e.keywords
        fn = ast.unparse(f)
        if any(isinstance(a, ast.Starred) for a in args) or (isinstance(f, ast.Name) and 'v_' + f.id in env):
            bad(e, 'call')
        if fn == 'len' and len(args) == 1 and not kws:
            t, k = self.want(args[0], env, ['str', 'typeset', 'argss', 'args', 'items'])
            return ('(zlen %s)' % t, 'int')
        if fn == 'int' and len(args) == 1 and not kws:
            t = self.want(args[0], env, ['str'])[0]
            self.ntok += 1
            r = 't%d' % self.ntok
            self.pre.append(('cbind (of_outcome (py_int maxd %s)) (fun %s =>' % (t, r), ')'))
            return (r, 'int')
        if fn == '_printable_prefix' and len(args) == 1 and not kws and self.cls['prefix_ok']:
            t = self.want(args[0], env, ['str'])[0]
            self.ntok += 1
            r = 't%d' % self.ntok
            self.pre.append(('match o_prefix %s with\n| None => CRaise (XCrash CAttributeError)\n| Some %s =>' % (t, r), '\nend'))
            return (r, 'str')
        if fn == 'frozenset' and len(args) == 1 and not kws and isinstance(args[0], ast.GeneratorExp):
            g = args[0]
            if len(g.generators) == 1 and not g.generators[0].ifs and isinstance(g.generators[0].target, ast.Name) \
                    and ast.unparse(g.elt) == g.generators[0].target.id + '.type' and 'v_' + g.generators[0].target.id not in env:
                return ('(arg_typeset %s)' % self.want(g.generators[0].iter, env, ['args'])[0], 'typeset')
        if fn == 'collections.Counter' and len(args) == 1 and not kws:
            return ('(counter_of %s)' % coerce(*self.want(args[0], env, ['ostr', 'str']), 'ostr'), 'counter')
        if fn in ('VariableWidth', 'VariablePrecision') and len(args) == 1 and not kws and ast.unparse(args[0]) == 'self' and 'cid' in env \
                and self.cls['star_ok'][fn] and env.get('a_integer', ('',))[0] == 'bool':
            self.snapshot = True
            return ('(mkarg %s cid c_%s_type a_integer)' % (('KWidth', 'varwidth') if fn == 'VariableWidth' else ('KPrec', 'varprec')), 'arg')
        if isinstance(f, ast.Attribute) and not kws:
            if f.attr == 'group' and len(args) == 1 and isinstance(args[0], ast.Constant) and args[0].value in GROUPS:
                return ('(m_%s %s)' % (args[0].value, self.want(f.value, env, ['match'])[0]), 'ostr')
            if f.attr in ('start', 'end') and not args:
                return ('(m_%s %s)' % (f.attr, self.want(f.value, env, ['match'])[0]), 'int')
            if f.attr == 'get' and isinstance(f.value, ast.Attribute):
                d, kd = self.ex(f.value, env)
                if kd == 'dict_str' and len(args) == 2:
                    k1 = coerce(*self.want(args[0], env, ['ostr', 'str']), 'ostr')
                    return ('(odict_get %s %s %s)' % (d, k1, coerce(*self.want(args[1], env, ['ostr', 'str']), 'ostr')), 'ostr')
                if kd == 'dict_pair' and len(args) == 1:
                    return ('(assoc %s %s)' % (self.want(args[0], env, ['str'])[0], d), 'opair')
            if f.attr == 'startswith' and len(args) == 1 and isinstance(args[0], ast.Tuple) and args[0].elts \
                    and all(isinstance(c, ast.Constant) and type(c.value) is str for c in args[0].elts):
                s = self.want(f.value, env, ['str'])[0]
                return ('(%s)' % ' || '.join('str_startswith %s %s' % (s, lit(c.value)) for c in args[0].elts), 'bool')
            if f.attr == 'lower' and not args:
                return ('(str_lower %s)' % self.want(f.value, env, ['str'])[0], 'str')
            if f.attr == 'rstrip' and len(args) == 1 and isinstance(args[0], ast.Constant) and type(args[0].value) is str and len(args[0].value) == 1:
                return ('(str_rstrip %d%%N %s)' % (ord(args[0].value), self.want(f.value, env, ['str'])[0]), 'str')
        bad(e, 'call')

    def argvalue(self, e, env):
        """the value argument of add_argument: VariableWidth(self) / VariablePrecision(self) / self / a variable of kind arg"""
        if ast.unparse(e) == 'self' and 'cid' in env and env.get('a_type', ('',))[0] == 'str' and env.get('a_integer', ('',))[0] == 'bool':
            self.snapshot = True
            return '(mkarg KConv cid a_type a_integer)'
        return self.want(e, env, ['arg'])[0]

    def exception(self, e, env):
        """raise <e> -> text of a cexn"""
        if isinstance(e, ast.Name) and e.id == 'IndexError':
            return 'XIndex'
        if isinstance(e, ast.Call) and not e.keywords and isinstance(e.func, ast.Name):
            c = e.func.id
            if c == 'OverflowError' and len(e.args) == 1:
                return '(XOverflow %s)' % self.want(e.args[0], env, ['int'])[0]
            if c in RAISES and self.cls['errors'].get(c) == ('Error' if c != 'Error' else 'Exception') and len(e.args) == len(RAISES[c][1]):
                con, kinds = RAISES[c]
                a1 = e.args[-1]
                if c == 'ArgumentRangeError' and isinstance(a1, ast.JoinedStr) and len(a1.values) == 2 and isinstance(a1.values[0], ast.FormattedValue) \
                        and a1.values[0].conversion == -1 and a1.values[0].format_spec is None and isinstance(a1.values[1], ast.Constant) \
                        and a1.values[1].value == '$' and self.ex(a1.values[0].value, env)[1] == 'ovf':
                    return '(XErr (EArgumentRangeErrorStr %s %s))' % (self.want(e.args[0], env, ['str'])[0], self.ex(a1.values[0].value, env)[0])
                return '(XErr (%s %s))' % (con, ' '.join(self.want(a, env, [k])[0] for a, k in zip(e.args, kinds)))
        bad(e, 'raise')

    # ------------------------------------------------------------ statements
    def tr(self, stmts, env, k, top=False):
        if not stmts:
            return k(env)
        s, rest = stmts[0], stmts[1:]
        if self.pre:
            bad(s, 'internal: pending bindings')
        env = dict(env)
        go = lambda env2: self.tr(rest, env2, k, top)
        if isinstance(s, ast.Pass) or (isinstance(s, ast.Expr) and isinstance(s.value, ast.Constant) and type(s.value.value) is str):
            return go(env)
        if isinstance(s, ast.Raise) and s.cause is None and s.exc is not None:
            x = self.exception(s.exc, env)
            return self.wrap(self.take(), 'CRaise %s' % x)
        if isinstance(s, ast.Break):
            return self.brk(env)
        if isinstance(s, ast.Return) and self.rets == 'oconv':
            if s.value is None or ast.unparse(s.value) == 'None':
                return self.retk[-1]('None')
            t, kd = self.objref(s.value, env)
            return self.wrap(self.take(), self.retk[-1](coerce(t, kd, 'oconv')))
        if isinstance(s, ast.Assert):
            if ast.unparse(s.test) == 'False':
                return 'CAssert'
            r = self.refine_test(s.test, env)
            if r:
                v, notnone = r
                if not notnone:
                    bad(s, 'assert')
                e2 = dict(env)
                self.set(e2, v, OPT[env[v][0]])
                return 'match %s with\n| None => CAssert\n| Some %s =>\n%s\nend' % (v, v, ind(go(e2)))
            c, pre = self.truth(s.test, env), self.take()
            return self.wrap(pre, 'if %s then\n%s\nelse CAssert' % (c, ind(go(env))))
        if isinstance(s, ast.Assign):
            return self.assign(s, go, env)
        if isinstance(s, ast.AugAssign) and isinstance(s.op, ast.Add):
            return self.augassign(s, go, env)
        if isinstance(s, ast.Expr) and isinstance(s.value, ast.Call):
            return self.effect(s.value, go, env)
        if isinstance(s, ast.If):
            return self.cond(s, rest, env, k, top)
        if isinstance(s, ast.Try) and len(s.body) == 1 and s.handlers and not s.orelse and not s.finalbody:
            return self.try_(s, rest, env, k, top)
        if isinstance(s, ast.For) and not s.orelse:
            return self.loop(s, rest, env, k, top)
        bad(s, 'statement')

    def brk(self, env):
        bad('break', 'break outside a loop')

    def refine_test(self, test, env):
        """`v is None` / `v is not None` on an optional variable -> (v, is-not-None?)"""
        if isinstance(test, ast.Compare) and len(test.ops) == 1 and isinstance(test.ops[0], (ast.Is, ast.IsNot)) \
                and ast.unparse(test.comparators[0]) == 'None' and self.var(test.left) in env and env[self.var(test.left)][0] in OPT:
            return (self.var(test.left), isinstance(test.ops[0], ast.IsNot))
        return None

    def isinstance_test(self, test, env):
        """isinstance(v, (VariableWidth, VariablePrecision)) / isinstance(v, Conversion) on a variable of kind arg"""
        if isinstance(test, ast.Call) and ast.unparse(test.func) == 'isinstance' and len(test.args) == 2 and not test.keywords \
                and self.var(test.args[0]) in env and env[self.var(test.args[0])][0] == 'arg' and 'v_isinstance' not in env \
                and all(self.cls['star_ok'].values()):
            c = ast.unparse(test.args[1])
            if c in ('(VariableWidth, VariablePrecision)', '(VariablePrecision, VariableWidth)'):
                return (self.var(test.args[0]), 'arg_is_star', 'stararg')
            if c == 'Conversion':
                return (self.var(test.args[0]), 'arg_is_conv', 'convarg')
        return None

    def static_test(self, test, env):
        if isinstance(test, ast.Compare) and len(test.ops) == 1 and isinstance(test.ops[0], (ast.Is, ast.IsNot)) \
                and ast.unparse(test.comparators[0]) == 'None':
            _, static, _ = self.noneness(test.left, env)
            if static is not None:
                return static == isinstance(test.ops[0], ast.IsNot)
        return None

    def cond(self, s, rest, env, k, top):
        st = self.static_test(s.test, env)
        if st is not None:
            return self.tr((s.body if st else s.orelse) + rest, env, k, top)
        isi = self.isinstance_test(s.test, env)
        r = None if isi else self.refine_test(s.test, env)
        if isi:
            v, pred, kind = isi
            etrue = dict(env)
            self.set(etrue, v, kind)
            mk = lambda ta, tb: 'if %s %s then\n%s\nelse\n%s' % (pred, v, ind(ta), ind(tb))
            branches, pre = [(s.body, etrue), (s.orelse, env)], []
        elif r:
            v, notnone = r
            some, none = (s.body, s.orelse) if notnone else (s.orelse, s.body)
            esome, enone = dict(env), dict(env)
            self.set(esome, v, OPT[env[v][0]])
            self.set(enone, v, 'none')
            mk = lambda tn, ts: 'match %s with\n| None =>\n%s\n| Some %s =>\n%s\nend' % (v, ind(tn), v, ind(ts))
            branches, pre = [(none, enone), (some, esome)], []
        else:
            c, pre = self.truth(s.test, env), self.take()
            mk = lambda ta, tb: 'if %s then\n%s\nelse\n%s' % (c, ind(ta), ind(tb))
            branches = [(s.body, env), (s.orelse, env)]
        if top and self.sectioned and rest:
            inner = lambda kb: mk(*[self.tr(b, e, kb) for b, e in branches])
            return self.wrap(pre, self.join(inner, env, rest, k, top, section=True))
        return self.wrap(pre, mk(*[self.tr(b + rest, e, k, top) for b, e in branches]))

    def join(self, inner, env, rest, k, top, section=False, handler=None):
        exits = []

        def kb(e):
            exits.append((self.token(), e))
            return exits[-1][0]
        term = inner(kb)
        if not exits:
            return term
        names = [n for n in exits[0][1] if all(n in e for _, e in exits)
                 and any(n not in env or e[n][1] != env[n][1] for _, e in exits)]
        outs = []
        for n in names:
            jk = joinkind([e[n][0] for _, e in exits])
            if jk is not None:
                outs.append((n, jk))
        for tok, e in exits:
            term = term.replace(tok, 'CRet %s' % tup([coerce(n, e[n][0], jk) for n, jk in outs]))
        if handler:
            term = handler(term)
        env2 = {n: v for n, v in env.items() if n not in names}
        for n, jk in outs:
            self.set(env2, n, jk)
        if section:
            self.nsec += 1
            name = '%s_s%d' % (self.name, self.nsec)
            params = [(n, kd) for n, (kd, _) in env.items() if uses(n, term)]
            self.defs.append('Definition %s%s : cres (%s) :=\n%s.\n' % (name, ''.join(' (%s : %s)' % (n, TYPES[kd]) for n, kd in params),
                                                                      tupty([jk for _, jk in outs]), ind(term)))
            term = ' '.join([name] + [n for n, _ in params])
        return 'cbind (%s) (fun %s =>\n%s)' % (term, pat([n for n, _ in outs]), self.tr(rest, env2, k, top))

    def try_(self, s, rest, env, k, top):
        clauses = []
        for h in s.handlers:
            if not (isinstance(h.type, ast.Name) and h.type.id in CATCH and 'v_' + h.type.id not in env and h.body and isinstance(h.body[-1], ast.Raise)):
                bad(s, 'except clause')
            henv = dict(env)
            patn = CATCH[h.type.id]
            if h.type.id == 'OverflowError':
                patn = '(XOverflow %s)' % ('v_' + h.name if h.name else '_')
                if h.name:
                    self.set(henv, 'v_' + h.name, 'ovf')
            elif h.name:
                bad(s, 'except .. as')
            clauses.append('| %s => Some (\n%s)' % (patn, ind(self.tr(h.body, henv, self.dead))))
        handler = lambda term: 'ccatch (\n%s)\n  (fun x => match x with\n%s\n| _ => None end)' % (ind(term), ind('\n'.join(clauses)))
        return self.join(lambda kb: self.tr(s.body, env, kb), env, rest, k, top, handler=handler)

    def dead(self, env):
        raise Unsupported('a handler that does not end in raise')

    def assign(self, s, go, env):
        val = s.value
        names = [self.var(t) for t in s.targets]
        if None in names:
            # v = m.pop(i)
            bad(s, 'assignment target')
        src = ast.unparse(val)
        if src == '_info' and len(names) == 1 and self.cls['info_ok']:
            self.set(env, names[0], 'info')
            return go(env)
        if isinstance(val, ast.Call) and isinstance(val.func, ast.Attribute) and val.func.attr == 'pop' and len(val.args) == 1 and not val.keywords \
                and len(names) == 1 and self.var(val.func.value) in env and env[self.var(val.func.value)][0] == 'amap':
            m = self.var(val.func.value)
            i, pre = self.want(val.args[0], env, ['int'])[0], self.take()
            self.set(env, names[0], 'args')
            self.set(env, m, 'amap')
            return self.wrap(pre, 'match amap_pop %s %s with\n| None => CRaise XKey\n| Some (%s, %s) =>\n%s\nend' % (m, i, names[0], m, ind(go(env))))
        if isinstance(val, ast.List) and not val.elts:
            kinds = {'a__items': 'items', 'a_arguments': 'argss', 'a_warnings': 'warns'}
            if names[0] not in kinds or len(names) > 2:
                bad(s, 'empty list')
            if len(names) == 2:
                self.alias[names[1]] = names[0]
            self.set(env, names[0], kinds[names[0]])
            return 'let %s := [] in\n%s' % (names[0], go(env))
        if src == 'collections.defaultdict(list)' and names == ['a__argument_map']:
            self.set(env, names[0], 'amap')
            return 'let %s := [] in\n%s' % (names[0], go(env))
        t, kd = self.ex(val, env)
        if kd == 'convarg':
            t, kd = self.objref(val, env)
        if kd not in TYPES or kd in ('info', 'parent', 'self', 'stararg', 'arg'):
            bad(s, 'assignment of ' + kd)
        pre = self.take()
        out = []
        for n in names:
            if n in self.alias.values() or n in ('maxd', 'cid') or not re.fullmatch('[av]_[A-Za-z0-9_]+', n):
                bad(s, 'assignment target')
            if n in ('a_type', 'a_integer') and getattr(self, 'snapshot', False):
                bad(s, 'self.type / self.integer assigned after self was passed on')
            out.append('let %s := %s in' % (n, t))
            t = n
        for n in names:
            self.set(env, n, kd)
        return self.wrap(pre, '\n'.join(out) + '\n' + go(env))

    def augassign(self, s, go, env):
        tg = s.target
        if isinstance(tg, ast.Subscript) and self.var(tg.value) in env and env[self.var(tg.value)][0] == 'amap' \
                and isinstance(s.value, ast.List) and len(s.value.elts) == 1:
            m = self.var(tg.value)
            n = self.want(tg.slice, env, ['int'])[0]
            v, pre = self.argvalue(s.value.elts[0], env), self.take()
            self.set(env, m, 'amap')
            return self.wrap(pre, 'let %s := amap_add %s %s %s in\n%s' % (m, m, n, v, go(env)))
        v = self.var(tg)
        if v not in env:
            bad(s, 'augmented assignment')
        kd = env[v][0]
        if kd in ('items', 'argss') and isinstance(s.value, ast.List) and len(s.value.elts) == 1:
            x = s.value.elts[0]
            if kd == 'items' and ast.unparse(x) == 'Conversion(self, match)' and 'FormatString' in self.key:
                return self.new_conversion(v, go, env)
            t, kx = self.want(x, env, ['str'] if kd == 'items' else ['args'])
            pre = self.take()
            self.set(env, v, kd)
            return self.wrap(pre, 'let %s := %s ++ [%s] in\n%s' % (v, v, 'ILit %s' % t if kd == 'items' else t, go(env)))
        if kd in ('str', 'int'):
            t, pre = self.want(s.value, env, [kd])[0], self.take()
            if v in ('a_type', 'a_integer') and getattr(self, 'snapshot', False):
                bad(s, 'self.type / self.integer assigned after self was passed on')
            self.set(env, v, kd)
            return self.wrap(pre, 'let %s := (%s %s %s) in\n%s' % (v, v, '++' if kd == 'str' else '+', t, go(env)))
        bad(s, 'augmented assignment')

    def callee(self, key, prefix, env, extra):
        """call of a translated method on the object whose attributes are <prefix>_<x> here: (text, [(variable, kind)] it returns)"""
        c = self.cls['done'][key]
        args = []
        for n, kd in c.entry:
            if n in extra:
                args.append(extra[n])
            elif n[:2] in ('a_', 'p_') and prefix + n[1:] in env:
                args.append(coerce(prefix + n[1:], env[prefix + n[1:]][0], kd))
            elif n in env and n[:2] not in ('a_', 'p_', 'v_'):
                args.append(n)
            else:
                bad(key, 'no value for parameter %s of' % n)
        return ' '.join([c.name] + args), c.rets

    def effect(self, c, go, env):
        f = c.func
        if isinstance(f, ast.Attribute) and isinstance(f.value, ast.Name) and f.value.id == 'parent' and 'p_warnings' in env and not c.keywords:
            if f.attr == 'warn' and self.cls['warn_ok'] and c.args and isinstance(c.args[0], ast.Name):
                w = c.args[0].id
                if self.cls['errors'].get(w) != 'Error':
                    bad(c, 'warning class')
                if w == 'NonPortableConversion' and len(c.args) == 4:
                    t = 'WNonPortable %s' % ' '.join(self.want(a, env, ['str'])[0] for a in c.args[1:])
                elif w == 'RedundantFlag' and len(c.args) >= 3:
                    t = 'WRedundantFlag %s [%s]' % (self.want(c.args[1], env, ['str'])[0], '; '.join(self.flagchar(a, env) for a in c.args[2:]))
                else:
                    bad(c, 'warning')
                pre = self.take()
                self.set(env, 'p_warnings', 'warns')
                return self.wrap(pre, 'let p_warnings := p_warnings ++ [%s] in\n%s' % (t, go(env)))
            if f.attr == 'add_argument' and len(c.args) == 2:
                n = coerce(*self.want(c.args[0], env, ['oint', 'int', 'none']), 'oint')
                v, pre = self.argvalue(c.args[1], env), self.take()
                text, rets = self.callee('add_argument', 'p', env, {'v_n': n, 'v_value': v})
                for (r, kd) in rets:
                    self.set(env, 'p' + r[1:], kd)
                return self.wrap(pre, 'cbind (%s) (fun %s =>\n%s)' % (text, pat(['p' + r[1:] for r, _ in rets]), go(env)))
        bad(c, 'statement')

    def flagchar(self, a, env):
        if isinstance(a, ast.Constant) and type(a.value) is str and len(a.value) == 1:
            return '%d%%N' % ord(a.value)
        return self.want(a, env, ['char'])[0]

    def new_conversion(self, items, go, env):
        text, rets = self.callee('Conversion.__init__', 'a', env, {'cid': '(List.length %s)' % items, 'v_match': self.want(ast.Name(id='match'), env, ['match'])[0]})
        names = ['a' + r[1:] if r.startswith('p_') else 'c' + r[1:] for r, _ in rets]
        for (r, kd), n in zip(rets, names):
            if r.startswith('p_'):
                self.set(env, n, kd)
        self.set(env, items, 'items')
        return 'cbind (%s) (fun %s =>\nlet %s := %s ++ [IConv (mkconv (List.length %s) c__s c_type c_integer)] in\n%s)' % (
            text, pat(names), items, items, items, go(env))

    def loop(self, s, rest, env, k, top):
        it = s.iter
        src = ast.unparse(it)
        tg = s.target
        tnames = [tg] if isinstance(tg, ast.Name) else list(tg.elts) if isinstance(tg, ast.Tuple) else bad(s, 'loop target')
        if not all(isinstance(x, ast.Name) for x in tnames) or any('v_' + x.id in env for x in tnames) or len({x.id for x in tnames}) != len(tnames):
            bad(s, 'loop target')
        tn = ['v_' + x.id for x in tnames]
        pre = []
        if isinstance(it, ast.Call) and isinstance(it.func, ast.Attribute) and it.func.attr == 'items' and not it.args and not it.keywords:
            lst, kinds = '(counter_items %s)' % self.want(it.func.value, env, ['counter'])[0], ['char', 'int']
        elif isinstance(it, ast.List) and it.elts and all(isinstance(x, ast.Tuple) and len(x.elts) == 2 and all(
                isinstance(c, ast.Constant) and type(c.value) is str and len(c.value) == 1 for c in x.elts) for x in it.elts):
            lst, kinds = '[%s]%%N' % '; '.join('(%d, %d)' % tuple(ord(c.value) for c in x.elts) for x in it.elts), ['char', 'char']
        elif src.startswith('range(') and len(it.args) == 2 and not it.keywords and 'v_range' not in env:
            lst, kinds = '(py_range %s %s)' % tuple(self.want(a, env, ['int'])[0] for a in it.args), ['int']
        elif src.startswith('enumerate(') and len(it.args) == 1 and len(it.keywords) == 1 and it.keywords[0].arg == 'start' and 'v_enumerate' not in env:
            lst = '(py_enumerate %s %s)' % (self.want(it.keywords[0].value, env, ['int'])[0], self.want(it.args[0], env, ['argss'])[0])
            kinds = ['int', 'args']
        elif isinstance(it, ast.Subscript) and not isinstance(it.slice, ast.Slice):
            l0, i0 = self.want(it.value, env, ['argss'])[0], self.want(it.slice, env, ['int'])[0]
            self.ntok += 1
            lst, kinds = 't%d' % self.ntok, ['arg']
            self.pre.append(('match py_index %s %s with\n| None => CRaise XIndex\n| Some %s =>' % (l0, i0, lst), '\nend'))
        elif src.startswith('_directive_re.finditer(') and len(it.args) == 1 and not it.keywords and 'o_finditer' in env:
            lst, kinds = '(o_finditer %s)' % self.want(it.args[0], env, ['str'])[0], ['match']
        else:
            bad(s, 'loop iterable')
        if len(kinds) != len(tn):
            bad(s, 'loop target')
        pre = self.take()
        retmode = any(isinstance(n, ast.Return) for n in ast.walk(s))
        if retmode and self.rets != 'oconv':
            bad(s, 'return inside a loop')
        for n in ast.walk(s):
            if isinstance(n, ast.Continue):
                bad(n, 'inside a loop')
        self.nloop += 1
        name = '%s_loop%d' % (self.name, self.nloop)
        entry = dict(env)
        saved = (len(self.defs), self.nsec, self.nloop, dict(self.alias))
        for _round in range(4):
            del self.defs[saved[0]:]
            self.nsec, self.nloop, self.alias = saved[1], saved[2], dict(saved[3])
            benv = dict(entry)
            for n, kd in zip(tn, kinds):
                self.set(benv, n, kd)
            exits = []

            def again(e, kind='again'):
                exits.append((self.token(), e, kind))
                return exits[-1][0]
            old_brk, self.brk = self.brk, lambda e: again(e, 'break')
            if retmode:
                self.retk.append(lambda v: 'CRet (inr %s)' % v)
            try:
                body = self.tr(s.body, benv, again)
            finally:
                self.brk = old_brk
                if retmode:
                    self.retk.pop()
            names = [n for n in entry if any(n in e and e[n][1] != entry[n][1] for _, e, _ in exits)]
            if any(n not in e for n in names for _, e, _ in exits):
                bad(s, 'a variable of the loop state is not bound on every path')
            state = [(n, joinkind([entry[n][0]] + [e[n][0] for _, e, _ in exits])) for n in names]
            if any(kd is None for _, kd in state):
                bad(s, 'a variable changes its kind in the loop')
            if all(entry[n][0] == kd for n, kd in state):
                break
            for n, kd in state:
                entry[n] = (kd, entry[n][1])
        else:
            bad(s, 'loop state kinds do not stabilise')
        fixed = [(n, kd) for n, (kd, _) in entry.items() if n not in dict(state) and uses(n, body)]
        head = ' '.join([name] + [n for n, _ in fixed])
        for tok, e, kind in exits:
            st = ' '.join(coerce(n, e[n][0], kd) for n, kd in state)
            done = tup([coerce(n, e[n][0], kd) for n, kd in state])
            body = body.replace(tok, '%s l\' %s' % (head, st) if kind == 'again' else 'CRet (inl %s)' % done if retmode else 'CRet %s' % done)
        elem = tn[0] if len(tn) == 1 else '(%s)' % ', '.join(tn)
        elty = ' * '.join(TYPES[kd] for kd in kinds)
        rty = '(%s) + %s' % (tupty([kd for _, kd in state]), TYPES['oconv']) if retmode else tupty([kd for _, kd in state])
        base = ('CRet (inl %s)' if retmode else 'CRet %s') % tup([n for n, _ in state])
        self.defs.append('Fixpoint %s%s (l : list (%s))%s {struct l} : cres (%s) :=\n  match l with\n  | [] => %s\n  | %s :: l\' =>\n%s\n  end.\n' % (
            name, ''.join(' (%s : %s)' % (n, TYPES[kd]) for n, kd in fixed), elty, ''.join(' (%s : %s)' % (n, TYPES[kd]) for n, kd in state),
            rty, base, elem, ind(ind(body))))
        env2 = dict(env)
        for n, kd in state:
            self.set(env2, n, kd)
        init = ' '.join(coerce(n, env[n][0], kd) for n, kd in state)
        if retmode:
            return self.wrap(pre, 'cbind (%s %s %s) (fun r => match r with\n| inl %s =>\n%s\n| inr v => %s\nend)' % (
                head, lst, init, pat([n for n, _ in state]).lstrip("'"), ind(self.tr(rest, env2, k, top)), self.retk[-1]('v')))
        return self.wrap(pre, 'cbind (%s %s %s) (fun %s =>\n%s)' % (head, lst, init, pat([n for n, _ in state]), self.tr(rest, env2, k, top)))

    # ------------------------------------------------------------ whole method
    def run(self):
        env = {}
        for n, kd in self.entry:
            self.set(env, n, kd)
        if 'parent' in SIGS[self.key][0]:
            self.set(env, 'v_parent', 'parent')

        def result(e):
            if self.rets == 'oconv':
                return 'CRet None'       # falling off the end returns None
            return 'CRet %s' % tup([coerce(n, e[n][0], kd) if n in e else bad(self.fdef, 'no value for ' + n) for n, kd in self.rets])
        text = self.tr(self.fdef.body, env, result, top=True)
        sig = ''.join(' (%s : %s)' % (n, TYPES[kd]) for n, kd in self.entry)
        rty = TYPES['oconv'] if self.rets == 'oconv' else tupty([kd for _, kd in self.rets])
        return '\n'.join(self.defs + ['Definition %s%s : cres (%s) :=\n%s.\n' % (self.name, sig, rty, ind(text))])


def verbose_pattern(p):
    """what re.VERBOSE leaves of a pattern without comments: whitespace outside character classes removed"""
    out, incls, i = [], False, 0
    while i < len(p):
        c = p[i]
        if c == '\\':
            out.append(p[i:i + 2])
            i += 2
            continue
        if c == '#' and not incls:
            raise Unsupported('comment in the verbose pattern')
        if incls:
            incls = c != ']'
        elif c == '[':
            incls = True
        elif c.isspace():
            i += 1
            continue
        out.append(c)
        i += 1
    return ''.join(out)


def generate():
    src = open(os.path.join(REPO, 'lib', 'strformat', 'c.py'), encoding='utf-8').read()
    tree = ast.parse(src)
    top = {}
    for node in tree.body:
        names = []
        if isinstance(node, (ast.Import, ast.ImportFrom)):
            names = [(a.asname or a.name).split('.')[0] for a in node.names]
        elif isinstance(node, (ast.FunctionDef, ast.ClassDef)):
            names = [node.name]
        elif isinstance(node, ast.Assign):
            names = [n.id for t in node.targets for n in ast.walk(t) if isinstance(n, ast.Name)]
        elif not (isinstance(node, ast.Expr) and isinstance(node.value, ast.Constant)):
            bad(node, 'module-level statement')
        for n in names:
            if n in top:
                bad(node, 'module-level name bound twice')
            top[n] = node
    for n in ('IndexError', 'OverflowError', 'KeyError', 'len', 'int', 'range', 'enumerate', 'frozenset', 'slice'):
        if n in top:
            raise Unsupported('builtin %s is rebound' % n)
    if ast.unparse(top.get('collections', ast.Pass())) != 'import collections' or ast.unparse(top.get('re', ast.Pass())) != 'import re':
        raise Unsupported('imports')
    cls = {'done': {}, 'errors': {}, 'ints': []}
    for n, node in top.items():
        if isinstance(node, ast.ClassDef) and len(node.bases) == 1 and isinstance(node.bases[0], ast.Name) and not node.keywords and not node.decorator_list:
            cls['errors'][n] = node.bases[0].id
        if isinstance(node, ast.Assign) and n in ('NL_ARGMAX', 'INT_MAX'):
            cls['ints'].append(n)     # their values come from Generated/CInfo.v (by import)
    cls['info_ok'] = isinstance(top.get('_info'), ast.ClassDef)
    cls['prefix_ok'] = '_printable_prefix' in top and ast.unparse(top['_printable_prefix']) == PREFIX_TEXT
    cls['star_ok'] = {c: c in top and ast.unparse(top[c]) == STAR_TEXT % c for c in ('VariableWidth', 'VariablePrecision')}
    methods = {}
    for cname in ('FormatString', 'Conversion'):
        c = top.get(cname)
        if not isinstance(c, ast.ClassDef) or c.bases or c.keywords or c.decorator_list:
            raise Unsupported('class ' + cname)
        for s in c.body:
            if isinstance(s, ast.FunctionDef):
                if (cname, s.name) in methods:
                    bad(s, 'method defined twice')
                methods[(cname, s.name)] = s
            elif not (isinstance(s, ast.Assign) and cname == 'Conversion' and ast.unparse(s) in ('type = None', 'integer = None')):
                bad(s, 'class-level statement')
    cls['warn_ok'] = ('FormatString', 'warn') in methods and ast.unparse(methods[('FormatString', 'warn')]) == WARN_TEXT
    # the pattern text of _directive_re, as data
    d = top.get('_directive_re')
    if not (isinstance(d, ast.Assign) and isinstance(d.value, ast.Call) and ast.unparse(d.value.func) == 're.compile' and len(d.value.args) == 2
            and isinstance(d.value.args[0], ast.Constant) and type(d.value.args[0].value) is str and ast.unparse(d.value.args[1]) == 're.VERBOSE'
            and not d.value.keywords):
        raise Unsupported('_directive_re')
    out = ['(* generated by tools/gen/gen_fmtc_src.py from lib/strformat/c.py; the translation rules are in that file *)',
           'From Coq Require Import List NArith ZArith Bool.',
           'From I18n Require Import Lib.Outcome Lib.CFmtSyntax Generated.CInfo Model.FmtC Model.FmtCPy.',
           'Import ListNotations.', 'Local Open Scope Z_scope.', '',
           '(* _directive_re: the pattern as re.VERBOSE reads it *)',
           'Definition src_directive_re : list N := %s.' % lit(verbose_pattern(d.value.args[0].value)), '']
    for key, (cname, mname) in (('get_last_integer_conversion', ('FormatString', 'get_last_integer_conversion')),
                                ('add_argument', ('FormatString', 'add_argument')), ('Conversion.__init__', ('Conversion', '__init__')),
                                ('FormatString.__init__', ('FormatString', '__init__'))):
        if (cname, mname) not in methods:
            raise Unsupported('method %s.%s is missing' % (cname, mname))
        fn = Fn(key, methods[(cname, mname)], cls)
        out += ['(* %s.%s *)' % (cname, mname), fn.run()]
        cls['done'][key] = fn
    return '\n'.join(out)


def main(emit):
    try:
        text = generate()
    except Exception as exc:
        why = ('%s: %s' % (type(exc).__name__, exc)).replace('(*', '( *').replace('*)', '* )')
        emit('FmtCSrc.v', '(* TRANSLATION FAILED: %s *)\nDefinition source_translation_failed := tt.\n' % why)
        raise
    emit('FmtCSrc.v', text)


if __name__ == '__main__':
    main(lambda name, text: print(text))

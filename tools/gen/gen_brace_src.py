"""Source translator for C13:  lib/strformat/perlbrace.py `_printable_prefix`, `FormatString.__init__`  and
lib/strformat/pybrace.py `_printable_prefix`, `SSIZE_MAX`, `FormatString.__init__`, `FormatString.add_argument`,
`Field.__init__`, `NestedField`, the exception classes and the TEXT of the regular expressions
  ->  coq/Generated/BraceSrc.v   (python `ast` -> Gallina text).

Proofs/BraceSrc.v proves every generated definition equal to the hand-written models (Model/FmtPerlBrace.v,
Model/FmtPyBrace.v) for all arguments; Props/C13.v restates that (C13_source_tie_*).  An edit of the Python code changes
the generated text and breaks those proofs.  FAIL CLOSED: a construct not listed here raises Unsupported; the function is
then emitted as `Definition <name> : unit := tt.` with the reason in a comment (its tie lemma cannot compile), the other
functions are still emitted, and main raises after writing the file (gen_rc != 0).
The target vocabulary is hand-written in coq/Model/FmtBracePy.v; the generated file imports nothing else.

Results.  A body becomes a term of type `bres E R`: `BRet r` (it ended normally) or `BRaise x`.  E = perl_err / pb_err.
  R: __init__ of a FormatString: the attributes named in RESULT (perlbrace: (_items, arguments); pybrace: argument_map);
  add_argument: (the state of self afterwards, the place where `field` was filed);  Field.__init__: the state of `parent`.
Variables.  Python local `x` = Gallina `v_x`, attribute `self.x` = `a_x` (the attributes of a pybrace FormatString are packed
  into a `pbstate` when self is passed on: `Field(self, match)`); rebinding = shadowing by `let` / `fun`.  Every variable has
  a static kind: str optstr char optchar flag bool nat Z optZ tset cell amap optamap state match none.
  `flag` = an Optional[str] that is non-empty when present, seen through its presence only; `char` = a str of length 1.
  Coercions where kinds meet: K -> optK (Some), none -> optK (None).  A variable whose kinds disagree at a join is dropped.
Objects (pybrace).  A Field / NestedField is filed exactly once (`self._argument_map[k] += [field]`) and is represented by
  its `types` cell in that list (None = attribute not assigned yet); its name is the place (k, index).  `parent.add_argument(n,
  self)` passes the cell None and binds the place returned to `self`; `NestedField(self)` is the cell `Some src_nested_types`
  (the class attribute; its __init__ must only store `parent`); `self.types = frozenset(tp)` -> state_set_cell parent self (Some tp).
  `items` / `_items` of pybrace are write-only in the translated code and dropped (DROPPED); of perlbrace they are kept.
  `self.A = v = []` makes v an alias of the attribute: both are the one variable.
Oracles (not translated).  `_field_re.finditer(s)` -> the parameter `finditer s` (list of match objects);  match.start() /
  .end() -> pm_start / pm_end;  match.group(..) -> the accessor in PERL_GROUPS / PB_GROUPS / SPEC_GROUPS;
  match.string[slice(*match.span())] -> pbi_text;  _simple_field_re.findall(v), v bound to match.group('format') -> pbi_findall_simple;
  _format_spec_re.match(x) -> o_format_spec_match O x;  x.isdecimal() -> o_isdecimal O x;  int(x) -> o_int O x (raising);
  R.match(x).group() with R the compiled-regex default parameter of _printable_prefix -> printable_match x, None => AttributeError.
  The pattern texts (constant strings, `+`, names of earlier patterns; flags must be re.VERBOSE / absent) are emitted as
  constants src_*_pattern; SSIZE_MAX (ints, <<, -) as src_ssize_max.
Pure expressions.  'c' -> code point (char), 'text' -> code points, None, ints (nat where a position is meant, else Z);
  {'str','int','float'} subsets -> tset records;  len(s) -> length;  s[a:] -> str_from a s (a a nat variable) / str_tail (a = 1);
  s[1:-1] -> str_inner;  x or None (x str) -> if str_nonempty x then Some x else None;  'c' in s -> str_has;  c in 'abc' (c char)
  -> char_in;  x in {'a','b'} -> str_in;  'str' in tp / not in -> t_str tp;  tp & {..} -> t_and;  truth: tset -> negb t_empty, flag ->
  itself, optchar -> opt_some, bool;  not / and / or;  == != on nat, Z, char, optchar-vs-char (optchar_eqb);  > on Z;
  x is None / is not None on an opt kind (flag: negb x / x);  + on Z / nat;  frozenset(x) / dict(x) -> x (values are immutable here).
Raising expressions (allowed as the right-hand side of an assignment, an assert test `E == 'c'`, the argument of raise):
  s[0], s[-1] -> str_first / str_last, None => IndexError;  int(x);  _printable_prefix(x);  calls of translated functions;
  functools.reduce(frozenset.__and__, (a.types for a in L)) -> py_reduce_tand L.
Statements (rest = what follows).  v = e -> let;  v op= e;  `if` / `elif` / `else`: when at most one statement follows or a branch
  ends in raise, rest is translated inside the branches, otherwise the branches return the tuple of the variables they assign
  (after a call that changes the objects: also the state variables) and rest is bound once (bbind);  `if x is None` / `is not None` on a variable of an opt kind -> match, the variable has the plain kind in the Some branch;
  assert c -> if negb c then BRaise (XCrash CAssertion);  raise C(args) -> BRaise per RAISES (args evaluated if raising, else
  dropped but checked);  pass;  try: ONE call statement except K1: raise .. except K2: raise .. -> match on the call's result, handlers
  in source order (K in IndexError, OverflowError);  for v in L: body -> a top-level Fixpoint over L whose parameters are the
  live variables and whose result is the tuple of the outer variables the body assigns, in order of first definition (no break /
  continue / else);
  for k, args in self._argument_map.items(): body -> the same over the entries, the entry (k, args) with args as possibly
  updated by the body is appended to the rebuilt map, which becomes the attribute afterwards;  for a in args: a.types = e ->
  args := map (fun _ => Some e) args;  arguments.add(x) -> set_add;  L += [x] -> L ++ [x].
Module level, checked: each translated name is defined once; class statements of the exceptions (name, base, only a `message`
  string) are emitted as the table src_pybrace_error_classes / src_perlbrace_error_classes.
"""
import ast
import os

REPO = os.environ.get('VERIF_REPO') or '/repo'
TYPES = {'str': 'pystr', 'optstr': 'option pystr', 'char': 'N', 'optchar': 'option N', 'flag': 'bool', 'bool': 'bool', 'nat': 'nat',
         'Z': 'Z', 'optZ': 'option Z', 'tset': 'tset', 'cell': 'cell', 'amap': 'amap', 'optamap': 'option amap', 'state': 'pbstate',
         'strs': 'list pystr', 'ref': 'oref', 'key': 'akey', 'cells': 'list cell', 'pmatch': 'pymatch pitem', 'bmatch': 'pymatch pb_item',
         'smatch': 'spec_match', 'optsmatch': 'option spec_match'}
OPT = {'str': 'optstr', 'char': 'optchar', 'Z': 'optZ', 'amap': 'optamap', 'smatch': 'optsmatch'}
UNOPT = {v: k for k, v in OPT.items()}
PERL_GROUPS = {None: ('perl_group0', 'str'), 'name': ('perl_group_name', 'optstr')}
PB_GROUPS = {'literal': ('pbi_literal', 'optstr'), 'name': ('pbi_name', 'optstr'), 'conversion': ('pbi_conversion', 'optstr'),
             'format': ('pbi_format', 'optstr')}
SPEC_GROUPS = {'fill': ('sp_fill', 'optchar'), 'align': ('sp_align', 'optchar'), 'sign': ('sp_sign', 'optchar'), 'alt': ('sp_alt', 'flag'),
               'zero': ('sp_zero', 'flag'), 'width': ('sp_width', 'optstr'), 'comma': ('sp_comma', 'flag'), 'precision': ('sp_prec', 'optstr'),
               'type': ('sp_type', 'optchar')}
TNAMES = ('str', 'int', 'float')
# exception class -> constructor of the model's error type; 'payload' keeps the one argument
RAISES = {'perlbrace': {'Error': ('PerlError', True)},
          'pybrace': {'Error': None, 'ConversionError': ('BConversionError', False), 'FormatError': ('BFormatError', False),
                      'FormatTypeMismatch': ('BFormatTypeMismatch', False), 'ArgumentNumberingMixture': ('BNumberingMixture', False),
                      'ArgumentRangeError': ('BRangeError', False), 'ArgumentTypeMismatch': ('BTypeMismatch', False)}}
PB_ERROR = {'FormatString.__init__': ('BError', True), 'Field.__init__': ('BFieldError', True)}   # the model's two names for Error(x)
BUILTIN_RAISES = {'IndexError': 'XIndexError', 'OverflowError': 'XOverflowError', 'RuntimeError': 'XRuntimeError'}
CATCH = {'IndexError': 'exn_is_index', 'OverflowError': 'exn_is_overflow'}
RESULT = {'perlbrace': ['_items', 'arguments'], 'pybrace': ['argument_map']}
DROPPED = {'pybrace': {'items', '_items'}, 'perlbrace': set()}
RESERVED = {'len', 'int', 'set', 'frozenset', 'dict', 'functools', 'collections', 're', 'Field', 'NestedField', 'SSIZE_MAX', '_field_re',
            '_simple_field_re', '_format_spec_re', '_printable_prefix', 'self', 'parent'} | set(BUILTIN_RAISES) | set(RAISES['pybrace'])


class Unsupported(Exception):
    pass


def bad(node, why):
    raise Unsupported('%s: line %s: %s' % (why, getattr(node, 'lineno', '?'), ast.unparse(node)[:90] if isinstance(node, ast.AST) else node))


def ind(t):
    return '\n'.join('  ' + ln for ln in t.split('\n'))


def lit(s):
    return '[%s]%%N' % '; '.join(str(ord(c)) for c in s) if s else '(@nil N)'


def strconst(e):
    return isinstance(e, ast.Constant) and type(e.value) is str


def is_none(e):
    return isinstance(e, ast.Constant) and e.value is None


def tset_lit(names):
    return '{| t_str := %s; t_int := %s; t_float := %s |}' % tuple('true' if n in names else 'false' for n in TNAMES)


def assigned(stmts):
    """names / self attributes syntactically assigned in stmts, in order"""
    out = []

    def tgt(t):
        if isinstance(t, ast.Name):
            out.append(t.id)
        elif isinstance(t, ast.Attribute) and isinstance(t.value, ast.Name) and t.value.id == 'self':
            out.append('self.' + t.attr)
        elif isinstance(t, (ast.Tuple, ast.List)):
            for x in t.elts:
                tgt(x)
    for s in stmts:
        for n in ast.walk(s):
            if isinstance(n, ast.Assign):
                for t in n.targets:
                    tgt(t)
            elif isinstance(n, ast.AugAssign):
                tgt(n.target.value if isinstance(n.target, ast.Subscript) else n.target)
            elif isinstance(n, ast.For):
                tgt(n.target)
            elif isinstance(n, ast.Call) and isinstance(n.func, ast.Attribute) and isinstance(n.func.value, ast.Name):
                if n.func.attr == 'add':
                    out.append(n.func.value.id)
                if n.func.attr == 'add_argument' or (isinstance(n.func.value, ast.Name) and n.func.value.id == 'Field'):
                    out.append('!state')
            if isinstance(n, ast.Call) and isinstance(n.func, ast.Name) and n.func.id == 'Field':
                out.append('!state')
            if isinstance(n, ast.Attribute) and n.attr == 'types' and isinstance(n.ctx, ast.Store):
                out.append('!state')
    return list(dict.fromkeys(out))


def terminates(stmts):
    if not stmts:
        return False
    s = stmts[-1]
    if isinstance(s, (ast.Raise, ast.Return)):
        return True
    if isinstance(s, ast.If):
        return terminates(s.body) and terminates(s.orelse)
    return False


class Fn:
    """one function; env: name -> (Gallina text, kind); special keys: '!self' (place of self), '!filed' (place returned by add_argument)"""

    def __init__(self, mod, qual, fdef, etype):
        self.mod, self.qual, self.fdef, self.etype = mod, qual, fdef, etype
        self.n, self.loops = 0, []
        self.stateattrs = ['self._argument_map', 'self._next_arg_index'] if (mod == 'pybrace' and qual.startswith('FormatString.')) else []

    def fresh(self, p):
        self.n += 1
        return '%s%d' % (p, self.n)

    def var(self, name):
        return 'a_' + name[5:] if name.startswith('self.') else 'v_' + name

    # ------------------------------------------------------------ names
    def key(self, e):
        if isinstance(e, ast.Name):
            return e.id
        if isinstance(e, ast.Attribute) and isinstance(e.value, ast.Name) and e.value.id == 'self':
            return 'self.' + e.attr
        return None

    def coerce(self, t, k, kind, node):
        if k == kind:
            return t
        if OPT.get(k) == kind:
            return '(Some %s)' % t
        if k == 'none' and kind in UNOPT:
            return 'None'
        if k == 'nat' and kind in ('Z', 'optZ') and t.endswith('%nat') and t[:-4].isdigit():
            return t[:-4] + '%Z' if kind == 'Z' else '(Some %s%%Z)' % t[:-4]
        bad(node, 'expected %s, got %s' % (kind, k))

    def want(self, e, env, kind):
        t, k = self.ex(e, env)
        return self.coerce(t, k, kind, e)

    # ------------------------------------------------------------ pure expressions -> (text, kind)
    def ex(self, e, env):
        k = self.key(e)
        if k is not None and k in env and not k.startswith('!'):
            return env[k]
        if isinstance(e, ast.Constant):
            if e.value is None:
                return ('None', 'none')
            if strconst(e):
                return ('%d%%N' % ord(e.value), 'char') if len(e.value) == 1 else (lit(e.value), 'str')
            if type(e.value) is int and e.value >= 0:
                return ('%d%%nat' % e.value, 'nat')
        if isinstance(e, ast.Name) and e.id == 'SSIZE_MAX' and self.mod == 'pybrace':
            return ('src_ssize_max', 'Z')
        if isinstance(e, ast.Set) and e.elts and all(strconst(x) for x in e.elts):
            vals = [x.value for x in e.elts]
            if set(vals) <= set(TNAMES):
                return (tset_lit(vals), 'tset')
            return ('[%s]' % '; '.join(lit(v) for v in vals), 'strs')
        if isinstance(e, ast.BinOp):
            if isinstance(e.op, ast.BitAnd):
                return ('(t_and %s %s)' % (self.want(e.left, env, 'tset'), self.want(e.right, env, 'tset')), 'tset')
            if isinstance(e.op, ast.Add):
                t, k = self.ex(e.left, env)
                if k in ('Z', 'nat'):
                    return ('(%s + %s)%%%s' % (t, self.want(e.right, env, k), k), k)
        if isinstance(e, ast.BoolOp) and isinstance(e.op, ast.Or) and len(e.values) == 2 and is_none(e.values[1]):
            t = self.want(e.values[0], env, 'str')
            return ('(if str_nonempty %s then Some %s else None)' % (t, t), 'optstr')
        if isinstance(e, (ast.BoolOp, ast.Compare)) or (isinstance(e, ast.UnaryOp) and isinstance(e.op, ast.Not)):
            return (self.truth(e, env), 'bool')
        if isinstance(e, ast.Subscript) and isinstance(e.slice, ast.Slice) and e.slice.step is None:
            lo, hi = e.slice.lower, e.slice.upper
            s = self.want(e.value, env, 'str')
            if hi is None and isinstance(lo, ast.Constant) and lo.value == 1:
                return ('(str_tail %s)' % s, 'str')
            if hi is None and isinstance(lo, ast.Name):
                return ('(str_from %s %s)' % (self.want(lo, env, 'nat'), s), 'str')
            if isinstance(lo, ast.Constant) and lo.value == 1 and ast.unparse(hi) == '-1':
                return ('(str_inner %s)' % s, 'str')
        if isinstance(e, ast.Subscript) and ast.unparse(e) == 'match.string[slice(*match.span())]' and env.get('match', ('', ''))[1] == 'bmatch':
            return ('(pbi_text (pm_groups %s))' % env['match'][0], 'str')
        if isinstance(e, ast.Call) and not e.keywords:
            f, a = e.func, e.args
            if isinstance(f, ast.Name) and len(a) == 1:
                if f.id == 'len':
                    return ('(length %s)' % self.want(a[0], env, 'str'), 'nat')
                if f.id in ('frozenset', 'dict'):
                    t, k = self.ex(a[0], env)
                    if (f.id, k) in (('frozenset', 'tset'), ('frozenset', 'strs'), ('dict', 'amap')):
                        return (t, k)
            if isinstance(f, ast.Name) and f.id == 'set' and not a:
                return ('(@nil pystr)', 'strs')
            if isinstance(f, ast.Name) and f.id == 'NestedField' and self.qual == 'Field.__init__' and len(a) == 1 \
                    and isinstance(a[0], ast.Name) and a[0].id == 'self':
                return ('(Some src_nested_types)', 'cell')
            if ast.unparse(f) == 'collections.defaultdict' and len(a) == 1 and ast.unparse(a[0]) == 'list':
                return ('(@nil (akey * list cell))', 'amap')
            if isinstance(f, ast.Attribute) and isinstance(f.value, ast.Name):
                m = env.get(f.value.id, ('', ''))
                if f.attr in ('start', 'end') and not a and m[1] in ('pmatch', 'bmatch'):
                    return ('(pm_%s %s)' % (f.attr, m[0]), 'nat')
                if f.attr == 'group' and len(a) <= 1 and (not a or strconst(a[0])):
                    tab = {'pmatch': PERL_GROUPS, 'bmatch': PB_GROUPS, 'smatch': SPEC_GROUPS}.get(m[1])
                    g = a[0].value if a else None
                    if tab and g in tab:
                        acc, kind = tab[g]
                        return ('(%s %s)' % (acc, m[0] if m[1] == 'smatch' else '(pm_groups %s)' % m[0]), kind)
                if f.attr == 'isdecimal' and not a and self.mod == 'pybrace':
                    return ('(o_isdecimal O %s)' % self.want(f.value, env, 'str'), 'bool')
                if f.attr == 'match' and f.value.id == '_format_spec_re' and len(a) == 1 and self.mod == 'pybrace':
                    return ('(o_format_spec_match O %s)' % self.want(a[0], env, 'str'), 'optsmatch')
        if isinstance(e, ast.List) and not e.elts:
            return ('(@nil pystr)', 'strs')
        bad(e, 'expression')

    def truth(self, e, env):
        if isinstance(e, ast.UnaryOp) and isinstance(e.op, ast.Not):
            t = self.truth(e.operand, env)
            return t[6:-1] if t.startswith('(negb ') else '(negb %s)' % t
        if isinstance(e, ast.BoolOp):
            return '(%s)' % (' && ' if isinstance(e.op, ast.And) else ' || ').join(self.truth(v, env) for v in e.values)
        if isinstance(e, ast.Compare) and len(e.ops) == 1:
            return self.compare(e, e.left, e.ops[0], e.comparators[0], env)
        t, k = self.ex(e, env)
        if k in ('bool', 'flag'):
            return t
        if k == 'tset':
            return '(negb (t_empty %s))' % t
        if k == 'optchar':
            return '(opt_some %s)' % t
        bad(e, 'truth of kind ' + k)

    def compare(self, e, a, op, b, env):
        if isinstance(op, (ast.Is, ast.IsNot)) and is_none(b):
            t, k = self.ex(a, env)
            pos = '(opt_some %s)' % t if k in UNOPT else t if k == 'flag' else bad(e, 'is None on kind ' + k)
            return pos if isinstance(op, ast.IsNot) else '(negb %s)' % pos
        if isinstance(op, (ast.In, ast.NotIn)):
            tb, kb = self.ex(b, env) if not strconst(b) else (None, 'const')
            if strconst(a) and a.value in TNAMES and kb == 'tset':
                c = '(t_%s %s)' % (a.value, tb)
            elif strconst(a) and len(a.value) == 1 and kb == 'str':
                c = '(str_has %d %s)' % (ord(a.value), tb)
            elif kb == 'const':
                c = '(char_in %s %s)' % (self.want(a, env, 'char'), lit(b.value))
            elif kb == 'strs':
                c = '(str_in %s %s)' % (self.want(a, env, 'str'), tb)
            else:
                bad(e, 'membership')
            return c if isinstance(op, ast.In) else '(negb %s)' % c
        ta, ka = self.ex(a, env)
        if isinstance(op, (ast.Eq, ast.NotEq)):
            if ka == 'optchar':
                c = '(optchar_eqb %s %s)' % (ta, self.want(b, env, 'char'))
            elif ka in ('nat', 'Z', 'char'):
                c = '(%s.eqb %s %s)' % ({'nat': 'Nat', 'Z': 'Z', 'char': 'N'}[ka], ta, self.want(b, env, ka))
            else:
                bad(e, 'equality on kind ' + ka)
            return c if isinstance(op, ast.Eq) else '(negb %s)' % c
        if isinstance(op, ast.Gt) and ka == 'Z':
            return '(Z.gtb %s %s)' % (ta, self.want(b, env, 'Z'))
        bad(e, 'comparison')

    # ------------------------------------------------------------ raising expressions -> (text : bres E T, kind T) | None
    def rex(self, e, env):
        if isinstance(e, ast.Subscript) and isinstance(e.slice, (ast.Constant, ast.UnaryOp)) and ast.unparse(e.slice) in ('0', '-1'):
            f = 'str_first' if ast.unparse(e.slice) == '0' else 'str_last'
            return ('match %s %s with Some c_ => BRet c_ | None => BRaise (XCrash CIndexError) end' % (f, self.want(e.value, env, 'str')), 'char')
        if isinstance(e, ast.Call) and not e.keywords:
            f, a = e.func, e.args
            if isinstance(f, ast.Name) and f.id == 'int' and len(a) == 1 and self.mod == 'pybrace':
                return ('of_outcome (o_int O %s)' % self.want(a[0], env, 'str'), 'Z')
            if isinstance(f, ast.Name) and f.id == '_printable_prefix' and len(a) == 1:
                return ('src_%s_printable_prefix %s' % (self.mod, self.want(a[0], env, 'str')), 'str')
            if ast.unparse(f) == 'functools.reduce' and len(a) == 2 and ast.unparse(a[0]) == 'frozenset.__and__' \
                    and isinstance(a[1], ast.GeneratorExp) and len(a[1].generators) == 1:
                g = a[1].generators[0]
                if isinstance(g.target, ast.Name) and not g.ifs and not g.is_async and ast.unparse(a[1].elt) == g.target.id + '.types':
                    return ('py_reduce_tand %s' % self.want(g.iter, env, 'cells'), 'tset')
            # Field(self, match): the state of self goes in, the new state comes out
            if isinstance(f, ast.Name) and f.id == 'Field' and self.qual == 'FormatString.__init__' and self.mod == 'pybrace' \
                    and len(a) == 2 and isinstance(a[0], ast.Name) and a[0].id == 'self':
                return ('src_pybrace_field_init O %s %s' % (self.pack(env, e), self.want(a[1], env, 'bmatch')), 'state')
            # parent.add_argument(name, obj)
            if isinstance(f, ast.Attribute) and f.attr == 'add_argument' and isinstance(f.value, ast.Name) and f.value.id == 'parent' \
                    and self.qual == 'Field.__init__' and len(a) == 2 and isinstance(a[1], ast.Name):
                cell = 'None' if a[1].id == 'self' else self.want(a[1], env, 'cell')
                if a[1].id == 'self' and '!self' in env:
                    bad(e, 'self filed twice')
                return ('src_pybrace_add_argument O %s %s %s' % (self.want(f.value, env, 'state'), self.want(a[0], env, 'optstr'), cell),
                        'addres:' + a[1].id)
        return None

    def pack(self, env, node):
        return '{| s_amap := %s; s_next := %s |}' % (self.coerce(*env['self._argument_map'], 'optamap', node),
                                                      self.coerce(*env['self._next_arg_index'], 'optZ', node))

    # ------------------------------------------------------------ statements
    def bind_result(self, text, kind, name, env, body):
        """bbind (text) (fun <pattern> => body(env'))"""
        if kind.startswith('addres:'):
            w, r = self.fresh('w'), self.fresh('p')
            env = dict(env, parent=(w, 'state'))
            if kind == 'addres:self':
                env['!self'] = (r, 'ref')
            return 'bbind (%s) (fun \'(%s, %s) =>\n%s)' % (text, w, r, body(env))
        if kind == 'state' and name is None:
            w = self.fresh('w')
            env = dict(env)
            env['self._argument_map'] = ('(s_amap %s)' % w, 'optamap')
            env['self._next_arg_index'] = ('(s_next %s)' % w, 'optZ')
            return 'bbind (%s) (fun %s =>\n%s)' % (text, w, body(env))
        v = self.var(name) if name else '_'
        return 'bbind (%s) (fun %s =>\n%s)' % (text, v, body(dict(env, **{name: (v, kind)}) if name else env))

    def let(self, name, t, k, env):
        v = self.var(name)
        return 'let %s%s := %s in\n' % (v, ' : ' + TYPES[k] if k in TYPES else '', t), dict(env, **{name: (v, k)})

    def tr(self, stmts, env, k):
        """k(env) = the text that ends a path falling off the end of stmts"""
        if not stmts:
            return k(env)
        s, rest = stmts[0], stmts[1:]
        go = lambda env2: self.tr(rest, env2, k)  # noqa: E731
        if isinstance(s, ast.Pass) or (isinstance(s, ast.Expr) and strconst(s.value)):
            return go(env)
        if isinstance(s, ast.Raise):
            return self.raise_(s, env)
        if isinstance(s, ast.Assert) and s.msg is None:
            c = s.test
            if isinstance(c, ast.Compare) and len(c.ops) == 1 and isinstance(c.ops[0], ast.Eq) and self.rex(c.left, env):
                t, kind = self.rex(c.left, env)
                x = self.fresh('c')
                return 'bbind (%s) (fun %s =>\nif negb (N.eqb %s %s) then BRaise (XCrash CAssertion) else\n%s)' % (
                    t, x, x, self.want(c.comparators[0], env, 'char'), go(env))
            return 'if negb %s then BRaise (XCrash CAssertion) else\n%s' % (self.truth(c, env), go(env))
        if isinstance(s, ast.If):
            return self.if_(s, rest, env, k)
        if isinstance(s, ast.Try):
            return self.try_(s, rest, env, k)
        if isinstance(s, ast.For):
            return self.for_(s, rest, env, k)
        if isinstance(s, ast.Assign):
            return self.assign(s, env, go)
        if isinstance(s, ast.AugAssign):
            return self.augassign(s, env, go)
        if isinstance(s, ast.Expr) and isinstance(s.value, ast.Call):
            c = s.value
            if isinstance(c.func, ast.Attribute) and c.func.attr == 'add' and len(c.args) == 1 and not c.keywords:
                name = self.key(c.func.value)
                if name in env and env[name][1] == 'strs':
                    h, env2 = self.let(name, '(set_add %s %s)' % (env[name][0], self.want(c.args[0], env, 'str')), 'strs', env)
                    return h + go(env2)
            r = self.rex(c, env)
            if r:
                return self.bind_result(r[0], r[1], None, env, go)
        bad(s, 'statement')

    def raise_(self, s, env):
        if s.cause is not None or s.exc is None:
            bad(s, 'raise')
        x, args = (s.exc.func, s.exc.args) if isinstance(s.exc, ast.Call) else (s.exc, [])
        if not isinstance(x, ast.Name) or getattr(s.exc, 'keywords', None):
            bad(s, 'raise')
        if x.id in BUILTIN_RAISES:
            for a in args:
                if not strconst(a):
                    self.ex(a, env)
            return 'BRaise ' + BUILTIN_RAISES[x.id]
        tab = RAISES[self.mod]
        if x.id not in tab:
            bad(s, 'raise of an unknown class')
        con, payload = tab[x.id] or PB_ERROR.get(self.qual) or bad(s, 'Error raised here')
        if payload:
            if len(args) != 1:
                bad(s, 'payload')
            r = self.rex(args[0], env)
            if r:
                p = self.fresh('r')
                return 'bbind (%s) (fun %s => BRaise (XOwn (%s %s)))' % (r[0], p, con, p)
            return 'BRaise (XOwn (%s %s))' % (con, self.want(args[0], env, 'str'))
        for a in args:
            if not (isinstance(a, ast.Name) and a.id in env):
                self.ex(a, env)
        return 'BRaise (XOwn %s)' % con

    def assign(self, s, env, go):
        v = s.value
        names = [self.key(t) for t in s.targets]
        if None in names:
            bad(s, 'assignment target')
        live = [n for n in names if n.replace('self.', '') not in DROPPED[self.mod]]
        if len(names) > 1:                      # self.A = v = []: one variable under two names
            if not live:
                return go(env)
            t, k = self.ex(v, env)
            if not (isinstance(v, ast.List) and not v.elts):
                bad(s, 'aliasing of a value other than a fresh list')
            h, env2 = self.let(names[0], t, k, env)
            for n in names[1:]:
                env2[n] = env2[names[0]]
            env2['!alias'] = env.get('!alias', ()) + (tuple(names),)
            return h + go(env2)
        name = names[0]
        if not live:
            return go(env)
        if name in RESERVED or any(name in al for al in env.get('!alias', ())):
            bad(s, 'assignment to a reserved / aliased name')
        if name == 'self.types' and self.qual == 'Field.__init__':
            if '!self' not in env:
                bad(s, 'self.types before self was filed')
            w = self.fresh('w')
            return 'let %s := state_set_cell %s %s (Some %s) in\n' % (w, env['parent'][0], env['!self'][0], self.want(v, env, 'tset')) + \
                go(dict(env, parent=(w, 'state')))
        r = self.rex(v, env)
        if r:
            if r[1] == 'state' or r[1].startswith('addres'):
                bad(s, 'value of a constructor / add_argument')
            return self.bind_result(r[0], r[1], name, env, go)
        t, k = self.ex(v, env)
        if name in self.stateattrs:
            k2 = {'_argument_map': 'optamap', '_next_arg_index': 'optZ'}[name[5:]]
            t, k = self.coerce(t, k, k2, s), k2
        h, env2 = self.let(name, t, k, env)
        return h + go(env2)

    def augassign(self, s, env, go):
        tg = s.target
        if isinstance(tg, ast.Subscript) and self.key(tg.value) == 'self._argument_map' and isinstance(s.op, ast.Add) \
                and self.qual == 'FormatString.add_argument' and ast.unparse(s.value) == '[field]':
            if '!filed' in env:
                bad(s, 'field filed twice')
            m = self.want(tg.value, env, 'amap')
            kt, kk = self.ex(tg.slice, env)
            key = {'Z': 'KNum', 'str': 'KName'}.get(kk) or bad(s, 'key kind')
            key = '(%s %s)' % (key, kt)
            p = self.fresh('p')
            h = 'let %s := (%s, amap_count %s %s) in\n' % (p, key, key, m)
            h2, env2 = self.let('self._argument_map', '(amap_append %s %s %s)' % (key, env['field'][0], m), 'amap', env)
            return h + h2 + go(dict(env2, **{'!filed': (p, 'ref')}))
        name = self.key(tg)
        if name is None:
            bad(s, 'augmented assignment')
        if name.replace('self.', '') in DROPPED[self.mod]:
            v = s.value
            if isinstance(v, ast.List) and len(v.elts) == 1:
                r = self.rex(v.elts[0], env)
                if r:
                    return self.bind_result(r[0], r[1], None, env, go)
                self.ex(v.elts[0], env)
                return go(env)
            bad(s, 'dropped variable')
        if name not in env:
            bad(s, 'augmented assignment to an unknown variable')
        t, k = env[name]
        if isinstance(s.op, ast.Add) and k == 'strs' and isinstance(s.value, ast.List) and len(s.value.elts) == 1:
            new = '(%s ++ [%s])' % (t, self.want(s.value.elts[0], env, 'str'))
        elif isinstance(s.op, ast.Add) and k in ('Z', 'nat'):
            new = '(%s + %s)%%%s' % (t, self.want(s.value, env, k), k)
        elif isinstance(s.op, ast.BitAnd) and k == 'tset':
            new = '(t_and %s %s)' % (t, self.want(s.value, env, 'tset'))
        else:
            bad(s, 'augmented assignment')
        h, env2 = self.let(name, new, k, env)
        for al in env.get('!alias', ()):
            if name in al:
                for n in al:
                    env2[n] = env2[name]
        return h + go(env2)

    # `if`: test -> (kind of test, pieces)
    def if_(self, s, rest, env, k):
        t = s.test
        refine = None
        if isinstance(t, ast.Compare) and len(t.ops) == 1 and isinstance(t.ops[0], (ast.Is, ast.IsNot)) and is_none(t.comparators[0]):
            name = self.key(t.left)
            if name in env and env[name][1] in UNOPT:
                refine = (name, isinstance(t.ops[0], ast.IsNot))

        def branches(kk, rest2):
            if refine:
                name, pos = refine
                x = self.fresh('x')
                some_env = dict(env, **{name: (x, UNOPT[env[name][1]])})
                yes, no = (s.body, s.orelse) if pos else (s.orelse, s.body)
                return 'match %s with\n| Some %s =>\n%s\n| None =>\n%s\nend' % (
                    env[name][0], x, ind(self.tr(yes + rest2, some_env, kk)), ind(self.tr(no + rest2, env, kk)))
            return 'if %s then\n%s\nelse\n%s' % (self.truth(t, env), ind(self.tr(s.body + rest2, env, kk)), ind(self.tr(s.orelse + rest2, env, kk)))
        if len(rest) <= 1 or terminates(s.body) or terminates(s.orelse):
            return branches(k, rest)
        # join: the branches return the variables they assign
        names = [n for n in assigned([s]) if n.replace('self.', '') not in DROPPED[self.mod]]
        if '!state' in names:       # a call that changes the object state: the state variables of this function are assigned
            names = [n for n in names if n != '!state'] + (['parent'] + [x for x in ('!self',) if x in env] if self.qual == 'Field.__init__'
                                                           else self.stateattrs or bad(s, 'state change in a function without state'))
            names = list(dict.fromkeys(names))
        ends, saved = [], (self.n, len(self.loops))
        branches(lambda e2: ends.append(e2) or 'X', [])            # first pass: the kinds at the end of each path
        self.n = saved[0]
        del self.loops[saved[1]:]
        kinds = {}
        for n in names:
            ks = {e2[n][1] for e2 in ends if n in e2}
            if len(ks) == 1 and all(n in e2 for e2 in ends):
                kinds[n] = ks.pop()
            elif all(n in e2 for e2 in ends) and len(ks - {'none'}) == 1 and OPT.get(list(ks - {'none'})[0]):
                kinds[n] = OPT[list(ks - {'none'})[0]]
            elif all(n in e2 for e2 in ends) and len(ks) == 2 and any(OPT.get(a) in ks for a in ks):
                kinds[n] = [OPT[a] for a in ks if OPT.get(a) in ks][0]
        keep = [n for n in names if n in kinds]
        if any(n.startswith('!') and n not in kinds for n in names if n in env):
            bad(s, 'object state differs between branches')

        def ret(e2):
            vals = [self.coerce(e2[n][0], e2[n][1], kinds[n], s) for n in keep]
            return 'BRet (%s)' % ', '.join(vals) if vals else 'BRet tt'
        body = branches(ret, [])
        env2 = {n: v for n, v in env.items() if n in keep or n not in names}
        vs = []
        for n in keep:
            v = self.fresh('j') if n.startswith('!') else self.var(n)
            vs.append(v)
            env2[n] = (v, kinds[n])
        pat = "'(%s)" % ', '.join(vs) if len(vs) > 1 else vs[0] if vs else '_'
        return 'bbind (%s) (fun %s =>\n%s)' % (body, pat, self.tr(rest, env2, k))

    def try_(self, s, rest, env, k):
        if s.orelse or s.finalbody or len(s.body) != 1 or not isinstance(s.body[0], ast.Expr):
            bad(s, 'try')
        r = self.rex(s.body[0].value, env)
        if not r or not r[1].startswith('addres'):
            bad(s, 'try body')
        x = self.fresh('e')
        hs = ''
        for h in s.handlers:
            if not (isinstance(h.type, ast.Name) and h.type.id in CATCH and h.name is None and len(h.body) == 1 and isinstance(h.body[0], ast.Raise)):
                bad(h, 'handler')
            hs += 'if %s %s then %s else\n' % (CATCH[h.type.id], x, self.raise_(h.body[0], env))
        w, p = self.fresh('w'), self.fresh('p')
        env2 = dict(env, parent=(w, 'state'))
        if r[1] == 'addres:self':
            env2['!self'] = (p, 'ref')
        return 'match %s with\n| BRet (%s, %s) =>\n%s\n| BRaise %s =>\n%s\nend' % (
            r[0], w, p, ind(self.tr(rest, env2, k)), x, ind(hs + 'BRaise ' + x))

    def for_(self, s, rest, env, k):
        if s.orelse or any(isinstance(n, (ast.Break, ast.Continue, ast.Return)) for b in s.body for n in ast.walk(b)):
            bad(s, 'for with else / break / continue / return')
        it = s.iter
        itemsloop = ast.unparse(it) == 'self._argument_map.items()' and self.qual == 'FormatString.__init__' and self.mod == 'pybrace'
        if itemsloop:
            if not (isinstance(s.target, ast.Tuple) and len(s.target.elts) == 2 and all(isinstance(x, ast.Name) for x in s.target.elts)):
                bad(s, 'items loop target')
            kn, an = [x.id for x in s.target.elts]
            if env['self._argument_map'][1] == 'optamap':       # None.items(): AttributeError
                x = self.fresh('x')
                return 'match %s with\n| Some %s =>\n%s\n| None => BRaise (XCrash CAttributeError)\nend' % (
                    env['self._argument_map'][0], x, ind(self.for_(s, rest, dict(env, **{'self._argument_map': (x, 'amap')}), k)))
            lst, elt_t, binder = self.want(it.func.value, env, 'amap'), 'akey * list cell', "(v_%s, v_%s)" % (kn, an)
            inner = {kn: ('v_' + kn, 'key'), an: ('v_' + an, 'cells')}
        else:
            if not isinstance(s.target, ast.Name):
                bad(s, 'loop target')
            if ast.unparse(it) == '_field_re.finditer(s)' and self.qual == 'FormatString.__init__':
                mk = 'pmatch' if self.mod == 'perlbrace' else 'bmatch'
                lst, elt_t, kind = '(finditer %s)' % env['s'][0], TYPES[mk], mk
            elif isinstance(it, ast.Call) and ast.unparse(it.func) == '_simple_field_re.findall' and len(it.args) == 1 and not it.keywords \
                    and isinstance(it.args[0], ast.Name) and env.get('!fmtof') == it.args[0].id and env['match'][1] == 'bmatch':
                lst, elt_t, kind = '(pbi_findall_simple (pm_groups %s))' % env['match'][0], 'pystr', 'str'
            else:
                bad(s, 'iterable')
            binder, inner = 'v_' + s.target.id, {s.target.id: ('v_' + s.target.id, kind)}
        outs = [n for n in assigned(s.body) if n.replace('self.', '') not in DROPPED[self.mod]]
        if '!state' in outs:
            outs = [n for n in outs if n != '!state'] + (['parent'] if self.qual == 'Field.__init__' else self.stateattrs)
        outs = [n for n in env if n in outs and n not in inner and not n.startswith('!')]      # in order of first definition
        if itemsloop:
            outs = []
        params = [n for n in env if not n.startswith('!') and n not in inner and env[n][1] in TYPES]
        params = [n for n in params if n in outs or any(self.key(x) == n for b in s.body for x in ast.walk(b))]
        seen, uparams = set(), []
        for n in params:                        # aliases share one Gallina variable
            if env[n][0] not in seen:
                seen.add(env[n][0])
                uparams.append(n)
        lname = 'src_%s_%s_loop%d' % (self.mod, self.qual.split('.')[0].lower() if self.qual != 'FormatString.__init__' else 'init', len(self.loops) + 1)
        self.loops.append(None)
        slot = len(self.loops) - 1
        lenv = {n: (self.var(n), env[n][1]) for n in params}
        for key_ in ('!self', '!alias', '!fmtof'):
            if key_ in env:
                lenv[key_] = env[key_]
        extra = ''
        if '!self' in env:
            extra = ' (self_ : oref)'
            lenv['!self'] = ('self_', 'ref')
        lenv.update(inner)
        def call(e2, l, acc=None):
            parts = [lname] + (['O'] if self.mod == 'pybrace' else []) + [e2[n][0] for n in uparams]
            parts += [e2['!self'][0]] if '!self' in env else []
            parts += [acc] if itemsloop else []
            return ' '.join(parts + [l])
        if itemsloop:
            def kbody(e2):
                return call(e2, 'l_', '(acc_ ++ [(%s, %s)])' % (e2[kn][0], e2[an][0]))
            rty, nil = 'amap', 'BRet acc_'
        else:
            def kbody(e2):
                return call(e2, 'l_')
            rty = ' * '.join(TYPES[env[n][1]] for n in outs) if outs else 'unit'
            nil = 'BRet (%s)' % ', '.join(self.var(n) for n in outs) if outs else 'BRet tt'
        body = self.tr(s.body, lenv, kbody)
        for n in outs:
            if lenv[n][1] != env[n][1]:
                bad(s, 'kind of %s changes in the loop' % n)
        self.loops[slot] = 'Fixpoint %s %s%s%s%s (l_ : list (%s)) : bres %s (%s) :=\n  match l_ with\n  | [] => %s\n  | %s :: l_ =>\n%s\n  end.\n' % (
            lname, '(O : pb_oracles) ' if self.mod == 'pybrace' else '',
            ''.join('(%s : %s) ' % (self.var(n), TYPES[env[n][1]]) for n in uparams), extra.strip() + (' ' if extra else ''),
            '(acc_ : amap)' if itemsloop else '', elt_t, self.etype, rty, nil, binder, ind(ind(body)))
        env2 = dict(env)
        if itemsloop:
            v = self.fresh('m')
            env2['self._argument_map'] = (v, 'amap')
            return 'bbind (%s) (fun %s =>\n%s)' % (call(env, lst, '(@nil (akey * list cell))'), v, self.tr(rest, env2, k))
        vs = []
        for n in outs:
            v = self.var(n)
            vs.append(v)
            env2[n] = (v, env[n][1])
            for al in env.get('!alias', ()):
                if n in al:
                    for m_ in al:
                        env2[m_] = env2[n]
        pat = "'(%s)" % ', '.join(vs) if len(vs) > 1 else vs[0] if vs else '_'
        return 'bbind (%s) (fun %s =>\n%s)' % (call(env, lst), pat, self.tr(rest, env2, k))


# special statement forms that need the statement context: handled by wrapping Fn.tr
class Fn2(Fn):
    def tr(self, stmts, env, k):
        if stmts:
            s = stmts[0]
            # fmt = match.group('format'): remember which variable is the format group (for findall)
            if isinstance(s, ast.Assign) and len(s.targets) == 1 and isinstance(s.targets[0], ast.Name) \
                    and ast.unparse(s.value) == "match.group('format')":
                env = dict(env, **{'!fmtof': s.targets[0].id})
            elif isinstance(s, (ast.Assign, ast.AugAssign)) and env.get('!fmtof') in [self.key(t) for t in (s.targets if isinstance(s, ast.Assign) else [s.target])]:
                env = {n: v for n, v in env.items() if n != '!fmtof'}
            # for arg in args: arg.types = e   (inside the items loop)
            if isinstance(s, ast.For) and isinstance(s.target, ast.Name) and isinstance(s.iter, ast.Name) \
                    and env.get(s.iter.id, ('', ''))[1] == 'cells' and len(s.body) == 1 and not s.orelse \
                    and isinstance(s.body[0], ast.Assign) and ast.unparse(s.body[0].targets[0]) == s.target.id + '.types' and len(s.body[0].targets) == 1:
                e = self.want(s.body[0].value, env, 'tset')
                h, env2 = self.let(s.iter.id, '(map (fun _ : cell => Some %s) %s)' % (e, env[s.iter.id][0]), 'cells', env)
                return h + Fn.tr(self, stmts[1:], env2, k) if stmts[1:] else h + k(env2)
        return Fn.tr(self, stmts, env, k)


# ---------------------------------------------------------------------------------------------------------------- module level
def const_str(e, names):
    """pattern text: constants, +, earlier names"""
    if strconst(e):
        return e.value
    if isinstance(e, ast.Name) and e.id in names:
        return names[e.id]
    if isinstance(e, ast.BinOp) and isinstance(e.op, ast.Add):
        return const_str(e.left, names) + const_str(e.right, names)
    bad(e, 'pattern expression')


def const_int(e):
    if isinstance(e, ast.Constant) and type(e.value) is int:
        return e.value
    if isinstance(e, ast.BinOp) and isinstance(e.op, (ast.LShift, ast.Sub, ast.Add)):
        a, b = const_int(e.left), const_int(e.right)
        if isinstance(e.op, ast.LShift):
            if not 0 <= b <= 128:
                bad(e, 'shift')
            return a << b
        return a - b if isinstance(e.op, ast.Sub) else a + b
    bad(e, 'integer constant expression')


def compile_pattern(e, names):
    """re.compile(P) / re.compile(P, re.VERBOSE) -> (text, verbose)"""
    if isinstance(e, ast.Call) and ast.unparse(e.func) == 're.compile' and not e.keywords and 1 <= len(e.args) <= 2:
        if len(e.args) == 2 and ast.unparse(e.args[1]) != 're.VERBOSE':
            bad(e, 'regex flags')
        return const_str(e.args[0], names), len(e.args) == 2
    bad(e, 're.compile')


def module(mod):
    path = os.path.join(REPO, 'lib', 'strformat', mod + '.py')
    tree = ast.parse(open(path, encoding='utf-8').read())
    top, pats, out, classes, errors = {}, {}, [], [], []
    for s in tree.body:
        names = []
        if isinstance(s, (ast.FunctionDef, ast.ClassDef)):
            names = [s.name]
        elif isinstance(s, ast.Assign):
            names = [t.id for t in s.targets if isinstance(t, ast.Name)]
        for n in names:
            if n in top:
                raise Unsupported('%s defined twice in %s.py' % (n, mod))
            top[n] = s
    return tree, top, pats, out, classes, errors


def emit_fn(out, errors, name, header, fn, stmts, env, k):
    try:
        body = fn.tr(stmts, env, k)
        if any(l is None for l in fn.loops):
            raise Unsupported('loop not finished')
        out.extend(fn.loops)
        out.append('Definition %s %s :=\n%s.\n' % (name, header, ind(body)))
    except Unsupported as e:
        errors.append('%s: %s' % (name, e))
        out.append('(* UNSUPPORTED: %s *)\nDefinition %s : unit := tt.\n' % (str(e).replace('(*', '( *').replace('*)', '* )'), name))


def args_of(fdef, expect):
    a = fdef.args
    if [x.arg for x in a.args] != expect or a.vararg or a.kwarg or a.kwonlyargs or a.posonlyargs or a.defaults or fdef.decorator_list:
        raise Unsupported('signature of %s' % fdef.name)


def method(cls, name):
    ms = [s for s in cls.body if isinstance(s, ast.FunctionDef) and s.name == name]
    if len(ms) != 1:
        raise Unsupported('%s.%s missing or duplicated' % (cls.name, name))
    return ms[0]


def printable(mod, top, out, errors):
    f = top.get('_printable_prefix')
    name = 'src_%s_printable_prefix' % mod
    try:
        if not isinstance(f, ast.FunctionDef) or [x.arg for x in f.args.args] != ['s', 'r'] or len(f.args.defaults) != 1 or f.decorator_list \
                or f.args.vararg or f.args.kwarg or f.args.kwonlyargs or len(f.body) != 1 or ast.unparse(f.body[0]) != 'return r.match(s).group()':
            raise Unsupported('_printable_prefix shape')
        pat, verbose = compile_pattern(f.args.defaults[0], {})
        if verbose:
            raise Unsupported('_printable_prefix flags')
        out.append('Definition src_%s_printable_pattern : pystr := %s.\n' % (mod, lit(pat)))
        out.append('Definition %s {E} (v_s : pystr) : bres E pystr :=\n  match printable_match v_s with Some g_ => BRet g_ | None => BRaise (XCrash CAttributeError) end.\n' % name)
    except Unsupported as e:
        errors.append('%s: %s' % (name, e))
        out.append('(* UNSUPPORTED: %s *)\nDefinition %s : unit := tt.\n' % (e, name))


def error_classes(mod, top, out, errors):
    rows = []
    try:
        for n, s in top.items():
            if isinstance(s, ast.ClassDef) and (n == 'Error' or n.endswith('Error') or n in RAISES[mod]):
                if len(s.bases) != 1 or not isinstance(s.bases[0], ast.Name) or s.keywords or s.decorator_list or len(s.body) != 1 \
                        or not (isinstance(s.body[0], ast.Assign) and ast.unparse(s.body[0].targets[0]) == 'message' and strconst(s.body[0].value)):
                    raise Unsupported('exception class %s' % n)
                rows.append('(%s, %s)' % (lit(n), lit(s.bases[0].id)))
        if set(RAISES[mod]) - {n for n in top if isinstance(top[n], ast.ClassDef)}:
            raise Unsupported('exception class missing')
        out.append('(* (class, base) of the exception classes, in source order *)\nDefinition src_%s_error_classes : list (pystr * pystr) :=\n  [%s].\n' % (mod, ';\n   '.join(rows)))
    except Unsupported as e:
        errors.append('error classes of %s: %s' % (mod, e))
        out.append('(* UNSUPPORTED: %s *)\nDefinition src_%s_error_classes : unit := tt.\n' % (e, mod))


def patterns(mod, top, out, errors, wanted):
    names = {}
    try:
        for n, s in top.items():
            if isinstance(s, ast.Assign) and len(s.targets) == 1 and n.endswith('_pattern'):
                names[n] = const_str(s.value, names)
        for n in wanted:
            s = top.get(n)
            if not isinstance(s, ast.Assign) or len(s.targets) != 1:
                raise Unsupported('%s missing' % n)
            pat, verbose = compile_pattern(s.value, names)
            if not verbose:
                raise Unsupported('%s is not re.VERBOSE' % n)
            out.append('Definition src_%s%s_pattern : pystr :=\n  %s.\n' % (mod, n, lit(pat)))
    except Unsupported as e:
        errors.append('patterns of %s: %s' % (mod, e))
        out.append('(* UNSUPPORTED: %s *)\nDefinition src_%s_field_re_pattern : unit := tt.\n' % (e, mod))


def gen_perl(out, errors):
    mod = 'perlbrace'
    tree, top, *_ = module(mod)
    patterns(mod, top, out, errors, ['_field_re'])
    error_classes(mod, top, out, errors)
    printable(mod, top, out, errors)
    cls = top.get('FormatString')
    init = method(cls, '__init__')
    args_of(init, ['self', 's'])
    fn = Fn2(mod, 'FormatString.__init__', init, 'perl_err')

    def k(env):
        return 'BRet (%s)' % ', '.join(fn.coerce(*env['self.' + a], 'strs', init) for a in RESULT[mod])
    emit_fn(out, errors, 'src_perlbrace_init', '(finditer : pystr -> list (pymatch pitem)) (v_s : pystr) : bres perl_err (list pystr * list pystr)',
            fn, init.body, {'s': ('v_s', 'str')}, k)


def gen_py(out, errors):
    mod = 'pybrace'
    tree, top, *_ = module(mod)
    patterns(mod, top, out, errors, ['_simple_field_re', '_field_re', '_format_spec_re'])
    error_classes(mod, top, out, errors)
    printable(mod, top, out, errors)
    try:
        out.append('Definition src_ssize_max : Z := %d%%Z.\n' % const_int(top['SSIZE_MAX'].value))
    except (Unsupported, KeyError) as e:
        errors.append('SSIZE_MAX: %s' % e)
        out.append('Definition src_ssize_max : unit := tt.\n')
    # NestedField: class attribute types, __init__ only stores parent
    try:
        nf = top.get('NestedField')
        ok = isinstance(nf, ast.ClassDef) and not nf.bases and len(nf.body) == 2 and isinstance(nf.body[0], ast.Assign) \
            and ast.unparse(nf.body[0].targets[0]) == 'types' and isinstance(nf.body[0].value, ast.Call) \
            and ast.unparse(nf.body[0].value.func) == 'frozenset' and len(nf.body[0].value.args) == 1 and isinstance(nf.body[0].value.args[0], ast.Set) \
            and all(strconst(x) and x.value in TNAMES for x in nf.body[0].value.args[0].elts) \
            and isinstance(nf.body[1], ast.FunctionDef) and nf.body[1].name == '__init__' \
            and [ast.unparse(x) for x in nf.body[1].body] == ['self.parent = parent'] and [x.arg for x in nf.body[1].args.args] == ['self', 'parent']
        if not ok:
            raise Unsupported('NestedField shape')
        out.append('Definition src_nested_types : tset := %s.\n' % tset_lit([x.value for x in nf.body[0].value.args[0].elts]))
    except Unsupported as e:
        errors.append(str(e))
        out.append('Definition src_nested_types : unit := tt.\n')
    fs, fld = top.get('FormatString'), top.get('Field')
    for c in (fs, fld):
        if not isinstance(c, ast.ClassDef) or c.bases or c.decorator_list:
            raise Unsupported('class shape')
    if [s.name for s in fld.body if isinstance(s, ast.FunctionDef)] != ['__init__'] or len(fld.body) != 1:
        raise Unsupported('Field has more than __init__')
    # add_argument
    add = method(fs, 'add_argument')
    args_of(add, ['self', 'name', 'field'])
    fn = Fn2(mod, 'FormatString.add_argument', add, 'pb_err')

    def k_add(env):
        if '!filed' not in env:
            bad(add, 'a path of add_argument does not file the field')
        return 'BRet (%s, %s)' % (fn.pack(env, add), env['!filed'][0])
    emit_fn(out, errors, 'src_pybrace_add_argument', '(O : pb_oracles) (w_ : pbstate) (v_name : option pystr) (v_field : cell) : bres pb_err (pbstate * oref)',
            fn, add.body, {'name': ('v_name', 'optstr'), 'field': ('v_field', 'cell'),
                           'self._argument_map': ('(s_amap w_)', 'optamap'), 'self._next_arg_index': ('(s_next w_)', 'optZ')}, k_add)
    # Field.__init__
    fi = method(fld, '__init__')
    args_of(fi, ['self', 'parent', 'match'])
    fn = Fn2(mod, 'Field.__init__', fi, 'pb_err')
    for n in ast.walk(fi):                      # self is used only as an object passed on, and for self.types = ..
        if isinstance(n, ast.Attribute) and isinstance(n.value, ast.Name) and n.value.id == 'self' and not (n.attr == 'types' and isinstance(n.ctx, ast.Store)):
            raise Unsupported('Field.__init__ reads or writes self.%s' % n.attr)

    def k_field(env):
        if '!self' not in env or not fi.body or ast.unparse(fi.body[-1].targets[0] if isinstance(fi.body[-1], ast.Assign) else fi.body[-1]) != 'self.types':
            bad(fi, 'Field.__init__ must end with self.types = ...')
        return 'BRet %s' % env['parent'][0]
    emit_fn(out, errors, 'src_pybrace_field_init', '(O : pb_oracles) (v_parent : pbstate) (v_match : pymatch pb_item) : bres pb_err pbstate',
            fn, fi.body, {'parent': ('v_parent', 'state'), 'match': ('v_match', 'bmatch')}, k_field)
    # FormatString.__init__
    init = method(fs, '__init__')
    args_of(init, ['self', 's'])
    fn = Fn2(mod, 'FormatString.__init__', init, 'pb_err')

    def k_init(env):
        return 'BRet (%s)' % ', '.join(fn.coerce(*env['self.' + a], 'amap', init) for a in RESULT[mod])
    emit_fn(out, errors, 'src_pybrace_init', '(O : pb_oracles) (finditer : pystr -> list (pymatch pb_item)) (v_s : pystr) : bres pb_err amap',
            fn, init.body, {'s': ('v_s', 'str')}, k_init)


def main(emit):
    out = ['(* generated by tools/gen/gen_brace_src.py from lib/strformat/perlbrace.py and pybrace.py of the working tree: do not edit *)\n'
           'From Coq Require Import List NArith ZArith Bool.\nFrom I18n Require Import Lib.Outcome Model.FmtPyBrace Model.FmtPerlBrace Model.FmtBracePy.\n'
           'Import ListNotations.\n']
    errors = []
    for g in (gen_perl, gen_py):
        try:
            g(out, errors)
        except (Unsupported, OSError, SyntaxError, KeyError, AttributeError, TypeError, IndexError) as e:
            errors.append('%s: %s: %s' % (g.__name__, type(e).__name__, e))
            out.append('(* UNSUPPORTED: %s *)\nDefinition src_%s_failed : unit := tt.\n' % (str(e).replace('*)', '* )'), g.__name__))
    emit('BraceSrc.v', '\n'.join(out))
    if errors:
        raise Unsupported('; '.join(errors))


if __name__ == '__main__':
    import sys
    sys.path.insert(0, os.path.dirname(os.path.abspath(__file__)))
    import gen_tables
    main(gen_tables.emit)

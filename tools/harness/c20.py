"""C20: charset names are classified consistently and the extra codecs are lossless."""
import codecs
import configparser
import ctypes
import errno
import json
import os
import random
import re
import subprocess
import sys
import warnings

import common
from common import enc_str, enc_bytes

TRUSTED = [
    'Coq 8.16.1 kernel (coqc, vm_compute); coqchk in thorough tier',
    'axioms: none (Print Assumptions must report "Closed under the global context" for every theorem of Props/C20.v)',
    'hand-written Gallina models Model/Encodings.v (charmap codecs as codecs.charmap_build/charmap_decode/charmap_encode build them, '
    'is_portable_encoding, propose_portable_encoding, is_ascii_compatible_encoding, _codec_search_function, the charset decision of '
    'Checker.check_mime, Language.get_unrepresentable_characters) and Model/Iconv.v (encode/decode and the retry loops of lib/iconv.py)',
    'Spec/Iconv.v: the iconv(3) contract, a hand-written reading of the manual page; libc iconv itself is an oracle (function argument)',
    'Generated/Charmaps.v, EncodingsData.v (data/charmaps and data/encodings through the repository loader) and CodecOracle.v '
    '(codecs.lookup / bytes.decode of the running interpreter for every charset name known to Python, gettext or the tool), '
    'regenerated on every run by tools/gen/gen_data.py',
    'source translator tools/gen/gen_encodings_src.py (python ast of lib/iconv.py, lib/encodings.py, the charset statement of Checker.check_mime, the tail of '
    'Language.get_unrepresentable_characters -> Generated/EncodingsSrc.v; rules in its docstring) and its vocabulary Model/EncodingsPy.v, Model/EncodingsMime.v',
    'extraction (ExtrOcamlBasic only) + ocaml/driver.ml',
    'correspondence harness tools/harness/c20.py; /usr/bin/iconv (glibc) as the reference for "the system iconv"',
    'CPython codec machinery (codecs.lookup normalisation, charmap_* C functions, ctypes) is modelled, not verified',
]
ASSUME = [
    '"usable text codec": codecs.lookup succeeds, the codec is a text encoding, and decoding plain ASCII with it raises nothing but '
    'UnicodeDecodeError (punycode and undefined are text codecs of CPython that fail this and are classified unknown)',
    '"the ASCII repertoire" is the list of 105 bytes (NUL EOT BEL BS HT LF VT FF CR ESC, 0x20-0x7E) the tool uses at the pinned commit, kept as a constant of the harness; names whose verdict '
    'differs on all 128 ASCII bytes are listed in the evidence notes',
    '"Python ships a codec": codecs.lookup in a pristine interpreter (python -I), before install_extra_encodings()',
    'iconv loops: theorems hold under the iconv(3) contract of Spec/Iconv.v; every libc call observed at run time is checked against it',
]

EXTRA = ['KOI8-RU', 'KOI8-T', 'VISCII', 'GEORGIAN-PS', 'EUC-TW']
# the reading of "the ASCII repertoire" stated in ASSUME, pinned here so that an edit of the tool's own list is judged against it
REPERTOIRE = bytes([0, 4, 7, 8, 9, 10, 11, 12, 13, 27] + list(range(32, 127)))
SIZE_MAX = ctypes.c_size_t(-1).value
STATEFUL = ('UTF-7', 'ISO-2022-JP')      # converters with shift state among those exercised


def setup():
    common.ensure_path()
    from lib import encodings as E
    E.install_extra_encodings()
    return E


def enc_ints(xs):
    return 's' + ','.join(str(int(x)) for x in xs)


# =====================================================================================================
# 1. charmap codecs: model vs the registered codecs, and vs lib.encodings.charmap_encoding on synthetic files
def real_codec_call(name, dirn, data):
    """canonical result of bytes.decode / str.encode with a registered codec"""
    try:
        if dirn == 'D':
            r = bytes(data).decode(name)
            if not isinstance(r, str):
                return 'crash notstr'
            return 'ok ' + enc_str(r)
        r = ''.join(map(chr, data)).encode(name)
        return 'ok ' + enc_bytes(r)
    except UnicodeDecodeError as e:
        return 'err %d %d' % (e.start, e.end) if dirn == 'D' else 'crash UnicodeDecodeError'
    except UnicodeEncodeError as e:
        return 'err %d %d' % (e.start, e.end) if dirn == 'E' else 'crash UnicodeEncodeError'
    except Exception as e:  # noqa
        return 'crash ' + type(e).__name__


def impl_cmfile(payload):
    name, dirn, data = payload
    setup()
    return real_codec_call(name, dirn, data)


_synth_dir = {}


def impl_synth(payload):
    """lib.encodings.charmap_encoding on a synthetic data/charmaps file (datadir redirected for the call)"""
    op, table, data = payload
    E = setup()
    from lib import paths
    d = _synth_dir.get('d')
    if d is None:
        d = os.path.join(common.WORK, 'c20-synth-%d' % os.getpid())
        os.makedirs(os.path.join(d, 'charmaps'), exist_ok=True)
        _synth_dir['d'] = d
    with open(os.path.join(d, 'charmaps', 'SYNTH'), 'wb') as f:
        f.write(''.join(map(chr, table)).encode('utf-8'))
    saved = paths.datadir
    paths.datadir = d
    try:
        try:
            ci = E.charmap_encoding('synth')
        except TypeError:
            return 'none' if op == 'M' else 'crash TypeError'
        finally:
            paths.datadir = saved
        if op == 'M':
            i = ci.encode.__code__.co_freevars.index('encoding_table')
            m = ci.encode.__closure__[i].cell_contents
            return 'dict' if isinstance(m, dict) else 'trie'
        try:
            if op == 'D':
                return 'ok ' + enc_str(ci.decode(bytes(data))[0])
            return 'ok ' + enc_bytes(ci.encode(''.join(map(chr, data)))[0])
        except UnicodeDecodeError as e:
            return 'err %d %d' % (e.start, e.end)
        except UnicodeEncodeError as e:
            return 'err %d %d' % (e.start, e.end)
        except Exception as e:  # noqa
            return 'crash ' + type(e).__name__
    finally:
        paths.datadir = saved


def charmap_names():
    from lib import paths
    return sorted(os.listdir(os.path.join(paths.datadir, 'charmaps')))


def charmap_cases(ctx):
    rng = ctx.rng
    E = setup()
    out = []
    for name in charmap_names():
        ci = codecs.lookup(name)
        i = ci.decode.__code__.co_freevars.index('decoding_table')
        table = ci.decode.__closure__[i].cell_contents
        chars = [ord(c) for c in table]
        fn = enc_str(name)
        def add(dirn, data, origin):
            out.append(('cmfile %s %s %s' % (dirn, fn, enc_ints(data)), (name, dirn, list(data)), origin))
        for b in range(256):
            add('D', [b], 'single-byte')
            add('D', [65, b, 66], 'single-byte-mid')
        for c in sorted(set(chars)):
            add('E', [c], 'table-char')
        foreign = [0, 0x80, 0xFF, 0x100, 0x3B1, 0x2122, 0xFFFE, 0xFFFF, 0xD800, 0xDFFF, 0x10000, 0x1F600, 0x10FFFF] + \
                  [rng.randrange(0x110000) for _ in range(40)]
        for c in foreign:
            add('E', [c], 'foreign-char')
        n = 300 if ctx.quick() else 6000
        for _ in range(n):
            ln = rng.choice([0, 1, 2, 3, 5, 8, 20, 100])
            add('D', [rng.randrange(256) for _ in range(ln)], 'random-bytes')
            txt = [rng.choice(chars) if rng.random() < 0.85 else rng.choice(foreign) for _ in range(ln)]
            add('E', txt, 'random-text')
        # an unencodable run at every position of a short text: start and end of the error
        base = [rng.choice(chars) for _ in range(6)]
        for pos in range(7):
            for run in (1, 2, 3):
                t = base[:pos] + [0x1F600] * run + base[pos:]
                add('E', t, 'error-position')
    # synthetic tables through lib.encodings.charmap_encoding: undefined bytes, duplicates, dict mode, short/long tables
    pools = [[0, 65, 66, 0xFFFE, 0x10000, 0x1F600], list(range(0, 300)), [65, 66, 67, 0xFFFE],
             list(range(1, 0x3000, 0x80)), list(range(1, 0xFFFF, 0x101))]
    ntab = 60 if ctx.quick() else 1200
    for k in range(ntab):
        L = rng.choice([0, 1, 2, 5, 200, 255, 256, 256, 256, 256, 257, 300])
        pool = rng.choice(pools)
        t = [rng.choice(pool) for _ in range(L)]
        if rng.random() < 0.6 and L:
            t[0] = 0
        if rng.random() < 0.3:
            t = list(dict.fromkeys(t))
        if rng.random() < 0.2 and len(t) >= 256:
            t = [0] + [0x80 * i + rng.randrange(0x80) for i in range(1, 256)] + t[256:]
        if rng.random() < 0.3 and len(t) >= 10:
            for _ in range(rng.randrange(1, 8)):
                t[rng.randrange(1, len(t))] = 0xFFFE
        t = [c for c in t if not 0xD800 <= c <= 0xDFFF]
        ts = enc_ints(t)
        out.append(('cmmode ' + ts, ('M', t, []), 'synthetic-mode'))
        if not t:
            out.append(('cmenc %s s65' % ts, ('E', t, [65]), 'synthetic-empty'))
            continue
        for _ in range(6):
            b = [rng.randrange(256) for _ in range(rng.randrange(0, 7))]
            out.append(('cmdec %s %s' % (ts, enc_ints(b)), ('D', t, b), 'synthetic-decode'))
            x = [rng.choice(pool + [0, 0xFFFE, 65]) for _ in range(rng.randrange(0, 7))]
            x = [c for c in x if not 0xD800 <= c <= 0xDFFF]
            out.append(('cmenc %s %s' % (ts, enc_ints(x)), ('E', t, x), 'synthetic-encode'))
        # every error position for decoding: a table with undefined bytes, an undefined byte at each position
        und = [i for i, c in enumerate(t[:256]) if c == 0xFFFE] + list(range(len(t), 256))
        good = [i for i, c in enumerate(t[:256]) if c != 0xFFFE]
        if und and good:
            basebytes = [rng.choice(good) for _ in range(5)]
            for pos in range(6):
                b = basebytes[:pos] + [rng.choice(und)] + basebytes[pos:]
                out.append(('cmdec %s %s' % (ts, enc_ints(b)), ('D', t, b), 'synthetic-error-position'))
    return out


# =====================================================================================================
# 2. the five extra codecs vs /usr/bin/iconv: totality, positions, round trip, agreement
def iconv_cli(frm, to, data):
    p = subprocess.run(['iconv', '-f', frm, '-t', to], input=data, stdout=subprocess.PIPE, stderr=subprocess.PIPE,
                       env=dict(os.environ, LC_ALL='C'), timeout=60)
    if p.returncode == 0 and not p.stderr:
        return ('ok', p.stdout)
    err = p.stderr.decode('ascii', 'replace')
    m = re.search(r'illegal input sequence at position (\d+)', err)
    if m:
        return ('illegal', int(m.group(1)), p.stdout)
    if 'incomplete character' in err:
        return ('incomplete', None, p.stdout)
    if 'cannot convert' in err or 'conversion stopped' in err:
        return ('cannot', None, p.stdout)
    return ('other', err.strip()[:200], p.stdout)


_HANGS = {}      # (codec, direction) -> number of calls that did not finish: after 3 the codec is not called again in this process


def _guarded(key, fn):
    if _HANGS.get(key, 0) >= 3:
        return ('hang', 'not called: three earlier calls did not finish')
    try:
        with common.inner_deadline(5):
            return fn()
    except common.CaseTimeout:
        _HANGS[key] = _HANGS.get(key, 0) + 1
        return ('hang', 'did not finish within 5 s')


def py_decode(name, b):
    """('ok', text) | ('err', start, end) | ('crash', what) | ('hang', what)"""
    def go():
        try:
            r = b.decode(name)
            if not isinstance(r, str):
                return ('crash', 'not a str')
            return ('ok', r)
        except UnicodeDecodeError as e:
            return ('err', e.start, e.end)
        except common.CaseTimeout:
            raise
        except Exception as e:  # noqa
            return ('crash', type(e).__name__ + ': ' + str(e)[:100])
    return _guarded((name, 'D'), go)


def py_encode(name, t):
    def go():
        try:
            r = t.encode(name)
            if not isinstance(r, bytes):
                return ('crash', 'not bytes')
            return ('ok', r)
        except UnicodeEncodeError as e:
            return ('err', e.start, e.end)
        except common.CaseTimeout:
            raise
        except Exception as e:  # noqa
            return ('crash', type(e).__name__ + ': ' + str(e)[:100])
    return _guarded((name, 'E'), go)


def has_surrogate(t):
    return any(0xD800 <= ord(c) <= 0xDFFF for c in t)


def oracle_decode_items(payload):
    """payload: (codec name, [bytes items]).  For every item: totality with valid positions, round trip, agreement with the
    system iconv.  Items the codec accepts are sent to iconv in one batch (newline separated; a mismatch is then narrowed
    item by item); rejected items are sent one by one.  Returns (list of failures, counters)."""
    name, items = payload
    setup()
    fails = []
    cnt = {'ok': 0, 'err': 0}
    oks = []
    for b in items:
        r = py_decode(name, b)
        if r[0] == 'hang':
            fails.append(('hang', name, list(b), 'decoding these bytes: ' + r[1]))
            if _HANGS.get((name, 'D'), 0) >= 3:
                break
            continue
        if r[0] == 'crash':
            fails.append(('totality', name, list(b), 'decode raised ' + r[1]))
            continue
        if r[0] == 'err':
            cnt['err'] += 1
            _, s, e = r
            if not (isinstance(s, int) and isinstance(e, int) and 0 <= s < e <= len(b)):
                fails.append(('position', name, list(b), 'UnicodeDecodeError start=%r end=%r len=%d' % (s, e, len(b))))
                continue
            c = iconv_cli(name, 'UTF-32LE', b)
            if c[0] == 'ok':
                fails.append(('iconv-disagree', name, list(b), 'codec rejects at %d, iconv accepts' % s))
            elif c[0] == 'illegal' and c[1] != s:
                fails.append(('iconv-disagree', name, list(b), 'codec error at %d, iconv reports position %d' % (s, c[1])))
            elif c[0] == 'incomplete':
                # the converted prefix is what iconv wrote before stopping
                pre = py_decode(name, b[:s])
                if pre[0] != 'ok' or pre[1].encode('utf-32-le') != c[2]:
                    fails.append(('iconv-disagree', name, list(b), 'incomplete input: prefix before start=%d is not what iconv converted' % s))
            elif c[0] in ('other', 'cannot'):
                fails.append(('iconv-disagree', name, list(b), 'iconv: %r' % (c[1],)))
        else:
            cnt['ok'] += 1
            t = r[1]
            back = py_encode(name, t)
            if back != ('ok', b):
                fails.append(('roundtrip', name, list(b), 'decode -> %r, encode back -> %r' % (enc_str(t), back if back[0] != 'ok' else list(back[1]))))
            oks.append((b, t))
    # batch: all accepted items, separated by LF (LF decodes to LF in all five; checked by the single-byte stream)
    def batch_ok(part):
        data = b'\n'.join(b for b, _ in part)
        c = iconv_cli(name, 'UTF-32LE', data)
        return c[0] == 'ok' and c[1] == '\n'.join(t for _, t in part).encode('utf-32-le')
    def narrow(part):
        if not part or batch_ok(part):
            return
        if len(part) == 1:
            b, t = part[0]
            c = iconv_cli(name, 'UTF-32LE', b)
            fails.append(('iconv-disagree', name, list(b), 'codec decodes to %s, iconv: %r' % (enc_str(t), c[:2] if c[0] != 'ok' else list(c[1]))))
            return
        h = len(part) // 2
        narrow(part[:h])
        narrow(part[h:])
    narrow(oks)
    return fails, cnt


def oracle_encode_items(payload):
    name, items = payload
    setup()
    fails = []
    cnt = {'ok': 0, 'err': 0}
    oks = []
    for t in items:
        r = py_encode(name, t)
        if r[0] == 'hang':
            fails.append(('hang', name, [ord(c) for c in t], 'encoding these characters: ' + r[1]))
            if _HANGS.get((name, 'E'), 0) >= 3:
                break
            continue
        if r[0] == 'crash':
            fails.append(('totality', name, [ord(c) for c in t], 'encode raised ' + r[1]))
            continue
        if r[0] == 'err':
            cnt['err'] += 1
            _, s, e = r
            if not (isinstance(s, int) and isinstance(e, int) and 0 <= s < e <= len(t)):
                fails.append(('position', name, [ord(c) for c in t], 'UnicodeEncodeError start=%r end=%r len=%d' % (s, e, len(t))))
                continue
            if has_surrogate(t):
                continue        # cannot be handed to the command-line iconv
            if any(0xE0000 <= ord(ch) <= 0xE007F for ch in t):
                # glibc's iconv silently DROPS Unicode tag characters (U+E0000..U+E007F) when converting from UCS instead of converting
                # or rejecting them; "agrees with the system iconv" cannot mean reproducing that omission, so these inputs are not compared
                continue
            c = iconv_cli('UTF-32LE', name, t.encode('utf-32-le'))
            if c[0] == 'ok':
                fails.append(('iconv-disagree', name, [ord(x) for x in t], 'codec cannot encode position %d, iconv can' % s))
            elif c[0] == 'illegal' and c[1] != 4 * s:
                fails.append(('iconv-disagree', name, [ord(x) for x in t], 'codec error at %d, iconv reports byte %d' % (s, c[1])))
            elif c[0] in ('other', 'incomplete'):
                fails.append(('iconv-disagree', name, [ord(x) for x in t], 'iconv: %r' % (c[1],)))
        else:
            cnt['ok'] += 1
            b = r[1]
            back = py_decode(name, b)
            # decode(encode(t)) == t is more than the property asks (it states encode(decode(b)) == b); it is still checked, except for the
            # Unicode tag characters U+E0000..U+E007F, which glibc's iconv silently drops when converting from UCS (same exclusion as below)
            if back != ('ok', t) and not any(0xE0000 <= ord(ch) <= 0xE007F for ch in t):
                fails.append(('roundtrip-text', name, [ord(x) for x in t], 'encode -> %r, decode back differs' % (list(b),)))
            oks.append((t, b))
    def batch_ok(part):
        data = '\n'.join(t for t, _ in part).encode('utf-32-le')
        c = iconv_cli('UTF-32LE', name, data)
        return c[0] == 'ok' and c[1] == b'\n'.join(b for _, b in part)
    def narrow(part):
        if not part or batch_ok(part):
            return
        if len(part) == 1:
            t, b = part[0]
            c = iconv_cli('UTF-32LE', name, t.encode('utf-32-le'))
            fails.append(('iconv-disagree', name, [ord(x) for x in t], 'codec encodes to %r, iconv: %r' % (list(b), c[:2] if c[0] != 'ok' else list(c[1]))))
            return
        h = len(part) // 2
        narrow(part[:h])
        narrow(part[h:])
    narrow([p for p in oks if '\n' not in p[0]])
    return fails, cnt


def chunks(xs, n):
    return [xs[i:i + n] for i in range(0, len(xs), n)]


def extra_codec_streams(ctx):
    """(decode payloads, encode payloads) for the five extra codecs"""
    rng = ctx.rng
    setup()
    dec, enc = [], []
    for name in EXTRA:
        items = [bytes([b]) for b in range(256)]
        # repertoire of the codec: what single bytes / two-byte sequences decode to
        rep = []
        for b in range(256):
            r = py_decode(name, bytes([b]))
            if r[0] == 'ok':
                rep.append((bytes([b]), r[1]))
        if name == 'EUC-TW':
            two = [bytes([a, b]) for a in range(0xA1, 0xFF) for b in range(256)]
            two += [bytes([a, b]) for a in (0x80, 0x8D, 0x8E, 0x8F, 0xA0, 0xFF) for b in range(256)]
            four = [bytes([0x8E, p, a, b]) for p in range(0xA0, 0xB2) for a in (0xA0, 0xA1, 0xC4, 0xFE, 0xFF) for b in (0x41, 0xA0, 0xA1, 0xE3, 0xFE, 0xFF)]
            four += [bytes([0x8E, rng.randrange(0xA1, 0xB1), rng.randrange(0xA1, 0xFF), rng.randrange(0xA1, 0xFF)]) for _ in range(300 if ctx.quick() else 5000)]
            if ctx.quick():
                two = rng.sample(two, 4000)
            items += two + four
            for b in rng.sample(two + four, min(len(two + four), 3000)):
                r = py_decode(name, b)
                if r[0] == 'ok':
                    rep.append((b, r[1]))
        if not rep:     # nothing decodes at all (e.g. every call hangs): keep the streams going on ASCII so that this is what gets reported
            rep = [(bytes([b]), chr(b)) for b in range(32, 127)]
        # random strings of valid units with occasional noise; every truncation of some of them
        nrand = 150 if ctx.quick() else 3000
        for _ in range(nrand):
            units = [rng.choice(rep)[0] for _ in range(rng.randrange(1, 12))]
            if rng.random() < 0.3:
                units.insert(rng.randrange(len(units) + 1), bytes([rng.randrange(256) for _ in range(rng.randrange(1, 3))]))
            s = b''.join(units)
            items.append(s)
            if rng.random() < (0.3 if ctx.quick() else 0.5):
                for cut in range(len(s)):
                    items.append(s[:cut])
        for ln in (64, 257, 1000, 4096):      # long inputs: several doublings of the buffer
            items.append(b''.join(rng.choice(rep)[0] for _ in range(ln)))
            items.append(b'a' * ln)
        items = [b for b in items if b'\n' not in b or len(b) == 1]
        for ch in chunks(items, 400):
            dec.append((name, ch))
        # encode: every character of the repertoire, foreign characters, random texts, errors at every position
        chars = sorted({t for _, t in rep if len(t) == 1})
        texts = list(chars)
        foreign = [chr(c) for c in (0x80, 0xA0, 0xFF, 0x100, 0x3B1, 0x20AC, 0x4E2D, 0x6587, 0xFFFD, 0xFFFE, 0xFFFF, 0x10000, 0x1F600, 0x10FFFF)]
        foreign += [chr(c) for c in (0xD800, 0xDBFF, 0xDC00, 0xDFFF)]
        nfor = 400 if ctx.quick() else (0x10000 if name != 'EUC-TW' else 0x30000)
        if ctx.quick():
            foreign += [chr(rng.randrange(0x110000)) for _ in range(nfor)]
            foreign += [chr(rng.randrange(0x3000)) for _ in range(nfor)]
        else:
            foreign += [chr(c) for c in range(nfor)]
        texts += foreign
        for _ in range(nrand):
            t = [rng.choice(chars) for _ in range(rng.randrange(1, 12))]
            if rng.random() < 0.4:
                pos = rng.randrange(len(t) + 1)
                t[pos:pos] = [rng.choice(foreign[:18])] * rng.randrange(1, 4)
            texts.append(''.join(t))
        base = [rng.choice(chars) for _ in range(5)]
        for pos in range(6):
            for bad in ('€', '\U0001F600', '\ud800'):
                texts.append(''.join(base[:pos]) + bad + ''.join(base[pos:]))
        for ln in (64, 1000, 4096):
            texts.append(''.join(rng.choice(chars) for _ in range(ln)))
        for ch in chunks(texts, 400):
            enc.append((name, ch))
    return dec, enc


# =====================================================================================================
# 3. the iconv binding: every libc call recorded, checked against the contract, and replayed through the model
def traced_iconv(payload):
    """run lib.iconv.decode/encode with _iconv wrapped.  Returns (canonical real result, model request line, contract
    problems, number of doublings)."""
    dirn, encoding, data = payload
    common.ensure_path()
    from lib import iconv as I
    orig = I._iconv
    log = []

    def rec(cd, inb, inl, outb, outl):
        bi = inl._obj.value if inl is not None else None
        bo = outl._obj.value if outl is not None else None
        start = ctypes.cast(outb.contents, ctypes.c_void_p).value if outb is not None else None
        rc = orig(cd, inb, inl, outb, outl)
        err = ctypes.get_errno()
        ai = inl._obj.value if inl is not None else None
        ao = outl._obj.value if outl is not None else None
        kind = 'reset' if (inb is None and outb is None) else ('flush' if inb is None else 'conv')
        written = b''
        if len(log) < 400 and outb is not None and bo is not None and ao is not None and 0 <= bo - ao <= bo:
            written = ctypes.string_at(start, bo - ao)
        if len(log) < 100000:
            log.append((kind, bi, bo, rc == SIZE_MAX, err, ai, ao, written))
        return rc
    I._iconv = rec
    try:
        try:
            if dirn == 'D':
                r = I.decode(bytes(data), encoding)
                real = 'ok ' + enc_str(r)
                n_in = len(data)
            else:
                t = ''.join(map(chr, data))
                r = I.encode(t, encoding)
                real = 'ok ' + enc_bytes(r)
                n_in = 4 * len(data)
        except UnicodeDecodeError as e:
            real = 'err %d %d' % (e.start, e.end) if dirn == 'D' else 'crash UnicodeDecodeError'
        except UnicodeEncodeError as e:
            real = 'err %d %d' % (e.start, e.end) if dirn == 'E' else 'crash UnicodeEncodeError'
        except Exception as e:  # noqa
            real = 'crash ' + type(e).__name__
    finally:
        I._iconv = orig
    # rows for the model, contract monitoring
    rcname = {errno.E2BIG: 'e2big', errno.EILSEQ: 'eilseq', errno.EINVAL: 'einval'}
    rows = {}
    problems = []
    cur = None
    n_in = len(data) if dirn == 'D' else 4 * len(data)
    unit = 1 if dirn == 'D' else 4
    for (kind, bi, bo, failed, err, ai, ao, written) in log:
        if kind == 'reset':
            cur = {'reset': not failed}
            if failed:
                problems.append('reset failed errno=%d' % err)
        elif kind == 'conv':
            cur = dict(cur or {'reset': True})
            cur.update(cap=bo, rc=('ok' if not failed else rcname.get(err, 'other')), inleft=ai, outleft=ao, frc='ok', foutleft=ao, buf=written)
            rows[bo] = cur
            if bi != n_in:
                problems.append('conversion call did not start from the whole input')
            if not (0 <= ai <= bi and 0 <= ao <= bo):
                problems.append('consumed/produced outside the buffers: in %d->%d out %d->%d' % (bi, ai, bo, ao))
            if ai % unit:
                problems.append('input not consumed in whole units: %d left' % ai)
            if not failed and ai != 0:
                problems.append('success with %d input bytes left' % ai)
            if failed and err in (errno.EILSEQ, errno.EINVAL) and ai < unit:
                problems.append('EILSEQ/EINVAL with %d input bytes left' % ai)
            if failed and err not in rcname:
                problems.append('unexpected errno %d' % err)
        else:
            cur['frc'] = 'ok' if not failed else rcname.get(err, 'other')
            cur['foutleft'] = ao
            cur['buf'] = cur['buf'] + written
            if failed and err != errno.E2BIG:
                problems.append('flush failed with errno %d' % err)
            if not 0 <= ao <= bo:
                problems.append('flush produced outside the buffer')
    caps = sorted(rows)
    if len(caps) > 64:
        # far more iterations than any doubling schedule: do not build a model request of that size
        return ('%d %s' % (len(caps) - 1, real), None, problems + ['%d iterations of the retry loop' % len(caps)], len(caps) - 1, len(data))
    for c in caps[:-1]:
        rows[c]['buf'] = b''           # only the buffer of the last iteration is ever returned
    # "E2BIG only if the buffer was too small": a capacity that failed with E2BIG is smaller than one that sufficed
    final = [c for c in caps if rows[c]['rc'] == 'ok' and rows[c]['frc'] == 'ok']
    if final:
        # glibc's stateful converters stop with E2BIG as soon as less than one maximal output unit is free, even when the
        # rest of the input (a shift sequence) produces no output: for them "room that suffices" is the output size
        # plus one unit (Spec/Iconv.v leaves `need` to the instance)
        slack = 0 if encoding.upper() not in STATEFUL else (4 if dirn == 'D' else 8)
        need = final[0] - rows[final[0]]['foutleft']
        for c in caps:
            if (rows[c]['rc'] == 'e2big' or rows[c]['frc'] == 'e2big') and c >= need + slack:
                problems.append('E2BIG with capacity %d although %d bytes suffice' % (c, need))
        if dirn == 'D' and need % 4:
            problems.append('wchar_t output of %d bytes' % need)
        unit_in = len(data)
        if unit_in and not slack and need > 4 * unit_in:
            problems.append('output of %d bytes for %d input units: more than the ratio the two-doublings bound is proved for' % (need, unit_in))
        # the proved bound (C20_iconv_loop_terminates): at most k doublings when need <= units * 2^k
        k = 0
        while unit_in and unit_in * (1 << k) < need + slack:
            k += 1
        if len(caps) - 1 > k:
            problems.append('%d doublings although %d units * 2^%d >= %d' % (len(caps) - 1, unit_in, k, need + slack))
    grows = max(0, len(caps) - 1)

    def units(row):
        b = row['buf']
        if dirn == 'D':
            return [int.from_bytes(b[i:i + 4], 'little') for i in range(0, len(b) - len(b) % 4, 4)]
        return list(b)
    parts = ['iconvdec' if dirn == 'D' else 'iconvenc', '64', '1', enc_ints(data), '1', '1', str(len(caps))]
    for c in caps:
        r = rows[c]
        parts += [str(c), '1' if r['reset'] else '0', r['rc'], str(r['inleft']), str(r['outleft']), r['frc'], str(r['foutleft']), enc_ints(units(r))]
    return ('%d %s' % (grows, real), ' '.join(parts), problems, grows, len(data))


def iconv_cases(ctx):
    rng = ctx.rng
    out = []
    samples = {
        'EUC-TW': [b'\xc4\xe3', b'\xc5\xc6', b'a', b'\x8e\xa2\xa1\xa1', b'\x8e\xa1\xc4\xe3', b'Z'],
        'UTF-8': ['Ę'.encode(), b'a', '\U0001F600'.encode(), '€'.encode()],
        'ISO-8859-2': [bytes([b]) for b in (0x41, 0xAF, 0xB1, 0xF3)],
        'TCVN-5712': [b'D', b'\xb9', b'\xca', b'o'],
        'KOI8-T': [b'a', b'\xe1', b'\xc1'],
        'UTF-16': [b'a\x00', b'\x3d\xd8\x00\xde'],
        'UTF-7': [b'a', b'+AKM-', b'-'],
        'ISO-2022-JP': [b'a', b'\x1b$B0!\x1b(B', b'b'],
    }
    n = 120 if ctx.quick() else 2500
    for encname, units in samples.items():
        for _ in range(n):
            s = b''.join(rng.choice(units) for _ in range(rng.choice([1, 1, 2, 3, 4, 5, 7, 8, 9, 16, 17, 33, 100])))
            r = rng.random()
            if r < 0.25:
                cut = rng.randrange(len(s) + 1)
                s = s[:cut]
            elif r < 0.45:
                pos = rng.randrange(len(s) + 1)
                s = s[:pos] + bytes([rng.randrange(0x80, 0x100)]) + s[pos:]
            out.append(('D', encname, list(s)))
        for ln in (1, 2, 3, 4, 5, 15, 16, 17, 255, 256, 1023, 4097):
            out.append(('D', encname, list((b''.join(rng.choice(units) for _ in range(ln)))[:ln * 2])))
            out.append(('D', encname, [97] * ln))
        chars = ['a', 'Z', '中', '文', 'Ę', 'ế', '€', 'д', '\U0001F600', '\ud800', '乂']
        for _ in range(n):
            t = [rng.choice(chars[:6]) for _ in range(rng.choice([1, 1, 2, 3, 4, 5, 8, 16, 17, 100]))]
            if rng.random() < 0.35:
                t.insert(rng.randrange(len(t) + 1), rng.choice(chars[6:]))
            out.append(('E', encname, [ord(c) for c in t]))
        for ln in (1, 2, 3, 4, 5, 255, 1024, 4097):
            out.append(('E', encname, [0x4e2d] * ln))
            out.append(('E', encname, [97] * ln))
    out.append(('D', 'EUC-TW', []))
    out.append(('E', 'EUC-TW', []))
    return out


# =====================================================================================================
# 4. classification: model vs the real functions and Checker.check_mime; oracle laws computed in Python
_PRISTINE_PROBE = r"""
import codecs, json, sys
names = json.load(sys.stdin)
out = []
for n in names:
    try:
        out.append(codecs.lookup(n).name)
    except LookupError:
        out.append(None)
json.dump(out, sys.stdout)
"""


def pristine_lookup(names):
    p = subprocess.run([sys.executable, '-I', '-c', _PRISTINE_PROBE], input=json.dumps(names).encode(),
                       stdout=subprocess.PIPE, check=True, timeout=300)
    return json.loads(p.stdout)


def ascii_outcome(name, b):
    try:
        with warnings.catch_warnings():
            warnings.simplefilter('ignore')
            r = b.decode(name)
        if not isinstance(r, str):
            return 'notstr'
        return 'same' if r == b.decode('ascii') else 'diff'
    except UnicodeDecodeError:
        return 'decerr'
    except LookupError:
        return 'lookup'
    except Exception:  # noqa
        return 'other'


def tool_lookup(name):
    try:
        ci = codecs.lookup(name)
        return ci.name, bool(getattr(ci, '_is_text_encoding', True))
    except LookupError:
        return None, False
    except Exception:  # noqa  (e.g. a name with a NUL)
        return None, False


def impl_classify(name):
    """the real functions and the real check_mime on charset=<name>, as one canonical line"""
    E = setup()
    from harness import impl_checker as IC
    def ac(mo):
        try:
            return '1' if E.is_ascii_compatible_encoding(name, missing_ok=mo) else '0'
        except E.EncodingLookupError:
            return 'E'
        except Exception as e:  # noqa
            return 'crash ' + type(e).__name__
    try:
        pr = E.propose_portable_encoding(name)
        pr = '-' if pr is None else enc_str(pr)
    except Exception as e:  # noqa
        pr = 'crash ' + type(e).__name__
    funcs = 'ascii %s %s | portable %d %d | propose %s' % (ac(True), ac(False), E.is_portable_encoding(name),
                                                           E.is_portable_encoding(name, python=False), pr)
    cls = IC.get_checker_class()
    chk = cls('/nonexistent/x.po', options=IC.make_options())
    c = IC.new_ctx(is_template=False, language=None)
    c.metadata['MIME-Version'] = ['1.0']
    c.metadata['Content-Transfer-Encoding'] = ['8bit']
    c.metadata['Content-Type'] = ['text/plain; charset=' + name]
    try:
        chk.check_mime(c)
    except Exception as e:  # noqa
        return 'crash ' + type(e).__name__ + ' | ' + funcs
    tags = [(t, [str(x) for x in extra]) for t, extra in chk.recorded]
    names = [t for t, _ in tags]
    if 'invalid-content-type' in names:
        return 'unparsed | ' + funcs
    if 'unknown-encoding' in names or 'boilerplate-in-content-type' in names:
        k = 'unknown'
    elif 'non-ascii-compatible-encoding' in names:
        k = 'nonascii'
    elif 'non-portable-encoding' in names:
        extra = dict(tags)['non-portable-encoding']
        k = 'nonportable ' + (enc_str(extra[2]) if len(extra) == 3 else '-')
    else:
        k = 'portable'
    if len(tags) > 1:
        k += ' +' + ','.join(names)
    return k + ' | ' + funcs


def classification_names(ctx):
    """every name of the generated oracle's universe (recomputed here), plus hostile spellings"""
    sys.path.insert(0, os.path.join(common.VERIF, 'tools', 'gen'))
    import gen_data
    rows = gen_data.codec_oracle_rows()
    names = [r[0] for r in rows]
    rng = ctx.rng
    extra = ['KOI8-R', 'KOI8-ʀ', 'ISO_8859-1', 'iso_8859_1', 'ISO_8859_1', 'Iso_8859-15', 'ISO-8859-1 ', 'utf–8', 'UTF-8\x00', 'utf8',
             'UTF_8', 'U8', 'cp-1252', 'windows_1252', 'CP1252', 'Windows-1252', 'ANSI_X3.4-1968', 'ansi_x3.4_1968', 'x-mac-roman', 'KOI8-T', 'koi8_t',
             'Koi8-t', 'TCVN', 'TCVN5712-1', 'BIG5-HKSCS', 'big5hkscs', 'EUC_TW', 'euc-tw', 'EUCTW', 'GEORGIAN_PS', 'Georgian-PS', 'viscii', 'VISCII1.1-1',
             'idna', 'punycode', 'rot13', 'rot_13', 'uu', 'uu_codec', 'base64', 'hex', 'bz2', 'zlib', 'quopri', 'raw_unicode_escape', 'unicode_escape',
             'undefined', 'mbcs', 'oem', 'unicode_internal', 'string_escape', 'charmap', 'utf-7', 'utf-16', 'utf-32', 'utf-8-sig', 'hz', 'iso2022_jp',
             'iso2022_kr', 'cp037', 'cp500', 'palmos', 'latin-1', 'L1', '8859', '8859-1', '8859_2', 'ISO-8859-16', 'iso-8859-10', 'CHARSET', 'charset',
             'eggs', '', 'a' * 300, 'é', '\U0001F600', '-', '_', '..', 'iso_', 'ISO_', 'iso-', 'iso_x']
    for _ in range(100 if ctx.quick() else 3000):
        base = rng.choice(names)
        k = rng.random()
        if k < 0.3:
            v = ''.join(c.upper() if rng.random() < 0.5 else c.lower() for c in base)
        elif k < 0.6:
            v = ''.join(rng.choice('-_ ') if c in '-_' else c for c in base)
        elif k < 0.8 and base:
            i = rng.randrange(len(base))
            v = base[:i] + rng.choice(['-', '_', '0', 'x', '']) + base[i + (rng.random() < 0.5):]
        else:
            v = base + rng.choice(['x', '-1', '_codec', ' '])
        extra.append(v)
    seen = set(names)
    for v in extra:
        if v not in seen and not re.search(r'[\s;]', v) and v != '' and '\x00' not in v:
            seen.add(v)
            names.append(v)
    return names


def behaviour_signature(name, rng_seed):
    """how a codec decodes: every single byte, a fixed sample of two- and three-byte strings"""
    rnd = random.Random(rng_seed)
    sample = [bytes([b]) for b in range(256)]
    sample += [bytes([rnd.randrange(0x80, 0x100), rnd.randrange(0x30, 0x100)]) for _ in range(600)]
    sample += [bytes([rnd.randrange(256) for _ in range(3)]) for _ in range(300)]
    sample += [b'abc\xe4\xb8\xad', b'\xa4', b'\x80', b'\xff\xfe', b'\x1b$B0!\x1b(B']
    out = []
    with warnings.catch_warnings():
        warnings.simplefilter('ignore')
        for b in sample:
            try:
                out.append(b.decode(name))
            except UnicodeDecodeError as e:
                out.append(('E', e.start))
            except Exception as e:  # noqa
                out.append(('X', type(e).__name__))
    return out


def oracle_classification(payload):
    """the laws of the property, evaluated directly on the implementation for one name.
    payload = (name, pristine codec name or None).  Returns list of (kind, what, finding)."""
    name, pristine = payload
    E = setup()
    fails = []
    line = impl_classify(name)
    cls = line.split(' | ')[0]
    if cls.startswith('crash'):
        return [('classification-crash', 'check_mime raised on charset=%r: %s' % (name, cls), None)], line
    if cls == 'unparsed':
        return [], line
    tname, is_text = tool_lookup(name)
    asc = ascii_outcome(name, REPERTOIRE)
    usable = tname is not None and is_text and asc not in ('other', 'notstr')
    low = name.lower() if name.isascii() else None
    norm = None
    if low is not None:
        norm = 'iso-' + low[4:] if low.startswith('iso_') else low
    listed_names = set(E.get_portable_encodings(python=False))
    listed = norm in listed_names
    d10 = 'D10' if norm == 'koi8-t' else None
    kind = cls.split(' ')[0]
    if (kind == 'unknown') != (not usable):
        fails.append(('unknown-law', 'charset=%r: classified %s but usable text codec = %s (lookup=%r text=%s ascii=%s)' % (name, cls, usable, tname, is_text, asc), None))
    if usable:
        if (kind == 'nonascii') != (asc != 'same'):
            fails.append(('ascii-law', 'charset=%r: classified %s but decoding the ASCII repertoire gives %s' % (name, cls, asc), None))
        if asc == 'same':
            should = listed and pristine is not None
            if (kind == 'portable') != should:
                fails.append(('portable-law', 'charset=%r: classified %s; gettext lists it: %s; Python ships a codec: %s (%r)' % (name, cls, listed, pristine is not None, pristine), d10))
            if kind == 'nonportable' and cls != 'nonportable -':
                prop = common.dec_str(cls.split(' ')[1])
                if not E.is_portable_encoding(prop):
                    fails.append(('proposal-not-portable', 'charset=%r: proposal %r is not portable' % (name, prop), None))
                pn, _ = tool_lookup(prop)
                if pn != tname:
                    fails.append(('proposal-other-codec', 'charset=%r -> %r: codec %r vs %r' % (name, prop, tname, pn), None))
                if behaviour_signature(name, 7) != behaviour_signature(prop, 7):
                    fails.append(('proposal-decodes-differently', 'charset=%r and its proposal %r decode some byte string differently' % (name, prop), None))
    # function level, ASCII names: is_portable_encoding <-> listed and shipped
    if low is not None and tname is not None:
        ip = E.is_portable_encoding(name)
        if ip != (listed and pristine is not None):
            fails.append(('portable-function-law', 'is_portable_encoding(%r) = %s; gettext lists it: %s; Python ships a codec: %s' % (name, ip, listed, pristine is not None), d10))
    return fails, line


# =====================================================================================================
# 5. unrepresentable-characters vs a direct per-character encode, for every (language, charset)
def language_characters():
    """independent reading of data/languages: {language: {key: [entries]}} for keys characters, characters@mod"""
    from lib import paths
    cp = configparser.ConfigParser(interpolation=None, default_section='')
    cp.read(os.path.join(paths.datadir, 'languages'), encoding='UTF-8')
    out = {}
    for lang in cp.sections():
        d = {}
        for key, val in cp[lang].items():
            if key == 'characters' or key.startswith('characters@'):
                d[key] = val.split()
        out[lang] = d
    return out


def enc_result(ch, charset):
    try:
        ch.encode(charset)
        return 0
    except UnicodeEncodeError:
        return 1
    except Exception:  # noqa
        return 2


def unrep_case(payload):
    """one (language tag, charset): the real function and the real tag vs the direct computation.
    Returns (model request line, real canonical line, oracle failure or None, nontrivial)."""
    tag, key, entries, charset = payload
    E = setup()
    from lib import ling
    from harness import impl_checker as IC
    listed = [e for e in entries if not (e.startswith('(') and e.endswith(')'))]
    res = [enc_result(ch, charset) for ch in listed]
    joined = ''.join(listed)
    jres = enc_result(joined, charset)
    expected = [ch for ch, r in zip(listed, res) if r != 0]
    line = 'unrep 0 %d %s %d' % (len(listed), ' '.join('%s %d' % (enc_str(ch), r) for ch, r in zip(listed, res)), jres)
    lang = ling.parse_language(tag)
    try:
        got = lang.get_unrepresentable_characters(charset)
    except Exception as e:  # noqa
        return (line, 'crash ' + type(e).__name__, 'get_unrepresentable_characters raised %s: %s' % (type(e).__name__, e), True)
    # the tag, through check_mime
    cls = IC.get_checker_class()
    chk = cls('/nonexistent/x.po', options=IC.make_options())
    c = IC.new_ctx(is_template=False, language=lang)
    c.metadata['MIME-Version'] = ['1.0']
    c.metadata['Content-Transfer-Encoding'] = ['8bit']
    c.metadata['Content-Type'] = ['text/plain; charset=' + charset]
    try:
        chk.check_mime(c)
    except Exception as e:  # noqa
        return (line, 'crash ' + type(e).__name__, 'check_mime raised %s: %s' % (type(e).__name__, e), True)
    targs = [list(map(str, extra)) for t, extra in chk.recorded if t == 'unrepresentable-characters']
    real = 'ok ' + '|'.join(enc_str(x) for x in (got or [])) + ' tag ' + ('|'.join(enc_str(x) for x in targs[0][1:]) if targs else '-')
    why = None
    if got is None:
        why = 'no character list found although data/languages has %s for %s' % (key, tag)
    elif list(got) != expected:
        why = 'reported %r, direct per-character encode says %r' % (got, expected)
    elif bool(targs) != bool(expected):
        why = 'tag emitted: %s, unencodable listed characters: %r' % (bool(targs), expected)
    elif targs:
        want = expected if len(expected) <= 5 else expected[:4] + ['...']
        enc_used = targs[0][0]
        if targs[0][1:] != want:
            why = 'tag arguments %r, expected %r' % (targs[0][1:], want)
        elif len(targs) != 1:
            why = 'tag emitted %d times' % len(targs)
    return (line, real, why, bool(expected))


# =====================================================================================================
def check(ctx):
    build = common.coq_build()
    aud = common.audit(ctx.id, coqchk=not ctx.quick())
    E = setup()
    rng = ctx.rng

    # provenance of the five extra codecs (recorded in the evidence)
    prov = {}
    for n in EXTRA:
        ci = codecs.lookup(n)
        q = getattr(ci.encode, '__qualname__', '?')
        prov[n] = 'data/charmaps' if 'charmap_encoding' in q else ('libc iconv(3) through ctypes' if 'iconv_encoding' in q else 'CPython (%s)' % ci.encode.__module__)
    ctx.notes.append('extra codecs come from: ' + '; '.join('%s: %s' % kv for kv in prov.items()))
    avail = subprocess.run(['iconv', '-l'], stdout=subprocess.PIPE, text=True).stdout.upper()
    missing = [n for n in EXTRA if n + '//' not in avail]
    if missing:
        ctx.notes.append('system iconv does not know: %s (agreement not checked for them)' % missing)
    from lib import iconv as I
    ctx.notes.append('lib.iconv uses %s' % ('iconv(3) through ctypes' if I._iconv is not None else 'the iconv(1) fallback'))

    # ---- 1. charmap model vs codecs
    cs = charmap_cases(ctx)
    real_cases = [(l, p) for (l, p, o) in cs if l.startswith('cmfile')]
    syn_cases = [(l, p) for (l, p, o) in cs if not l.startswith('cmfile')]
    res = common.compare_parallel('harness.c20', 'impl_cmfile', real_cases)
    res2 = common.compare_parallel('harness.c20', 'impl_synth', syn_cases)
    ctx.evaluations += len(res) + len(res2)
    for (line, payload, m, r) in res:
        ctx.count('charmap:' + payload[1] + ':' + r.split(' ')[0])
        if r.startswith('err') or (payload[1] == 'D' and len(payload[2]) == 1):
            ctx.nontriv(('cm', payload))
        if m != r:
            ctx.disagree('charmap-codec', {'codec': payload[0], 'direction': payload[1], 'data': payload[2][:50]}, m[:300], r[:300])
        if r.startswith('crash'):
            ctx.fail('charmap-totality', {'codec': payload[0], 'direction': payload[1], 'data': payload[2][:50]}, 'raised ' + r)
        if r.startswith('err'):
            a, b = map(int, r.split()[1:])
            if not 0 <= a < b <= len(payload[2]):
                ctx.fail('charmap-position', {'codec': payload[0], 'direction': payload[1], 'data': payload[2][:50]}, r)
    for (line, payload, m, r) in res2:
        ctx.count('synthetic:' + payload[0] + ':' + r.split(' ')[0])
        if r.startswith('err') or payload[0] == 'M':
            ctx.nontriv(('syn', payload))
        if m != r:
            ctx.disagree('charmap-synthetic', {'op': payload[0], 'table': payload[1][:300], 'data': payload[2]}, m[:300], r[:300])

    # ---- 2. extra codecs vs the system iconv
    dec, enc = extra_codec_streams(ctx)
    dec = [p for p in dec if p[0] not in missing]
    enc = [p for p in enc if p[0] not in missing]
    outs = common.pmap('harness.c20', 'oracle_decode_items', dec, per_case_timeout=600)
    outs2 = common.pmap('harness.c20', 'oracle_encode_items', enc, per_case_timeout=600)
    for (payload, o, dirn) in [(p, o, 'D') for p, o in zip(dec, outs)] + [(p, o, 'E') for p, o in zip(enc, outs2)]:
        if o == 'timeout' or isinstance(o, str):
            ctx.disagree('extra-codec-vs-iconv', {'codec': payload[0], 'direction': dirn}, 'completed', str(o))
            continue
        fails, cnt = o
        ctx.evaluations += len(payload[1])
        for k, v in cnt.items():
            ctx.count('extra:%s:%s:%s' % (payload[0], dirn, k), v)
        for (kind, name, data, what) in fails:
            finding = None
            if kind == 'roundtrip' and name == 'EUC-TW' and len(data) >= 4 and any(data[i] == 0x8E and data[i + 1] == 0xA1 for i in range(len(data) - 1)):
                finding = 'D19'
            ctx.fail('extra-codec-' + kind, {'codec': name, 'direction': dirn, 'data': data[:5000]}, what, finding)
    for name in EXTRA:
        ctx.nontriv(('extra', name))

    # ---- 3. the iconv binding
    ic = iconv_cases(ctx)
    traced = common.pmap('harness.c20', 'traced_iconv', ic, per_case_timeout=10)
    lines = [t[1] for t in traced if not isinstance(t, str) and t[1] is not None]
    model = common.run_driver(lines)
    ctx.evaluations += len(lines)
    mi = 0
    for payload, t in zip(ic, traced):
        if isinstance(t, str) or 'CaseTimeout' in str(t[0]):
            # the grow-and-retry loop must terminate (C20_iconv_* theorems: at most two doublings under the iconv(3) contract)
            ctx.fail('iconv-loop-hang', {'direction': payload[0], 'encoding': payload[1], 'data': list(payload[2])[:50], 'len': len(payload[2])},
                     'lib.iconv.%s did not finish within 10 s' % ('decode' if payload[0] == 'D' else 'encode'))
            continue
        real, line, problems, grows, n = t
        if line is None:
            m = real
        else:
            m = model[mi]
            mi += 1
        ctx.count('iconv:%s:%s' % (payload[0], real.split(' ')[1]))
        ctx.count('iconv:doublings:%d' % grows)
        if grows or real.split(' ')[1] == 'err':
            ctx.nontriv(('iconv', payload[0], payload[1], tuple(payload[2][:40]), len(payload[2])))
        what = {'direction': payload[0], 'encoding': payload[1], 'len': len(payload[2]), 'data': payload[2][:5000]}
        if m != real:
            ctx.disagree('iconv-loop', what, m[:300], real[:300])
        for pr in problems:
            ctx.disagree('iconv-contract', what, 'iconv(3) contract', pr)
        r = real.split(' ')
        if r[1] == 'crash':
            ctx.fail('iconv-totality', what, 'lib.iconv raised ' + r[2])
        if r[1] == 'err' and not 0 <= int(r[2]) < int(r[3]) <= n:
            ctx.fail('iconv-position', what, 'start=%s end=%s len=%d' % (r[2], r[3], n))
        # the proved bound: output of at most 4 units per input unit -> at most two doublings
        # the proved bound for stateless converters of at most 4 output bytes per unit: at most two doublings
        if payload[1] not in STATEFUL and grows > 2:
            ctx.fail('iconv-doublings', what, 'the buffer was doubled %d times' % grows)

    # ---- 4. classification
    names = classification_names(ctx)
    pristine = pristine_lookup(names)
    req = []
    for n in names:
        tn, _ = tool_lookup(n)
        asc = ascii_outcome(n, REPERTOIRE)
        req.append(('classify %s %s %s %s %s' % (enc_str(n), enc_str(n.lower()), enc_str(n.upper()), '-' if tn is None else enc_str(tn), asc), n))
    res = common.compare_parallel('harness.c20', 'impl_classify', req)
    ctx.evaluations += len(res)
    for (line, n, m, r) in res:
        ctx.count('class:' + r.split(' ')[0])
        if r.split(' ')[0] not in ('unknown',):
            ctx.nontriv(('cls', n))
        if m != r:
            ctx.disagree('classify', {'charset': n}, m[:300], r[:300])
    outs = common.pmap('harness.c20', 'oracle_classification', list(zip(names, pristine)), per_case_timeout=120)
    ctx.evaluations += len(outs)
    text_but_unknown, ascii_differs = [], []
    full = bytes(range(128))
    for (n, pr), o in zip(zip(names, pristine), outs):
        if isinstance(o, str):
            ctx.disagree('classification-oracle', {'charset': n}, 'completed', o)
            continue
        fails, line = o
        for (kind, what, finding) in fails:
            ctx.fail(kind, {'charset': n}, what, finding)
        tn, tx = tool_lookup(n)
        if tn is not None and tx and line.startswith('unknown'):
            text_but_unknown.append(n)
        a105, a128 = ascii_outcome(n, REPERTOIRE), ascii_outcome(n, full)
        if (a105 == 'same') != (a128 == 'same'):
            ascii_differs.append(n)
    ctx.notes.append('text codecs of CPython classified unknown because decoding ASCII raises a non-decode error: %s' % sorted(set(x.lower() for x in text_but_unknown)))
    ctx.notes.append('names that are ASCII-compatible on the tool\'s 105-byte repertoire but not on all 128 ASCII bytes: %s' % sorted(set(x.lower().replace('_', '-') for x in ascii_differs)))
    special = {}
    for n in ['idna', 'punycode', 'rot13', 'uu', 'base64', 'raw_unicode_escape', 'unicode_escape', 'undefined', 'mbcs', 'oem', 'utf-7', 'utf-16', 'charmap', 'utf-8-sig', 'iso2022_jp', 'hz']:
        special[n] = impl_classify(n).split(' | ')[0]
    ctx.notes.append('classification of special codecs (D11 context): ' + json.dumps(special))

    # ---- 5. unrepresentable-characters
    lc = language_characters()
    charsets = sorted(E.get_portable_encodings(python=False)) + sorted(E._extra_encodings)
    charsets = [c.upper() for c in charsets if c.upper() not in missing or True]
    payloads = []
    for lang, keys in sorted(lc.items()):
        for key, entries in sorted(keys.items()):
            tag = lang if key == 'characters' else lang + '@' + key.split('@', 1)[1]
            for cset in charsets:
                payloads.append((tag, key, entries, cset))
    # every other text codec Python knows, for totality of the check (one spelling each)
    import pkgutil
    import encodings as pyenc
    others = sorted({m.name for m in pkgutil.iter_modules(pyenc.__path__)} - {'aliases'})
    others = [o for o in others if impl_classify(o).split(' ')[0] not in ('unknown', 'crash')]
    langs_sample = sorted(lc) if not ctx.quick() else sorted(lc)[::6]
    for lang in langs_sample:
        if 'characters' in lc[lang]:
            for cset in others:
                payloads.append((lang, 'characters', lc[lang]['characters'], cset))
    outs = common.pmap('harness.c20', 'unrep_case', payloads, per_case_timeout=30)
    good = [(p, o) for p, o in zip(payloads, outs) if not isinstance(o, str)]
    for p, o in zip(payloads, outs):
        if o == 'timeout':
            # totality: encoding the listed characters one by one / the check itself must terminate (C20_iconv_* theorems: at most two doublings)
            ctx.fail('unrepresentable-hang', {'language': p[0], 'charset': p[3], 'characters': ''.join(x for x in p[2] if isinstance(x, str))[:80]},
                     'encoding the characters listed for the language in this charset (one by one and joined) and running get_unrepresentable_characters did not finish within 30 s')
        elif isinstance(o, str):
            ctx.disagree('unrepresentable', {'language': p[0], 'charset': p[3]}, 'completed', o)
    model = common.run_driver([o[0] for _, o in good])
    ctx.evaluations += len(good)
    for (p, o), m in zip(good, model):
        line, real, why, nontriv = o
        ctx.count('unrep:' + ('tag' if ' tag s' in real else real.split(' ')[0] if real.startswith('crash') else 'silent'))
        if nontriv:
            ctx.nontriv(('unrep', p[0], p[3]))
        if why:
            finding = 'D11' if p[3].lower() == 'idna' else None
            ctx.fail('unrepresentable-crash' if 'raised' in why else 'unrepresentable-wrong', {'language': p[0], 'charset': p[3]}, why, finding)
        if m != real:
            ctx.disagree('unrepresentable', {'language': p[0], 'charset': p[3]}, m[:300], real[:300])
    ctx.count('unrep:languages_with_character_lists', sum(1 for v in lc.values() if v))
    ctx.count('unrep:charsets_of_data_encodings', len(charsets))

    ctx.samples = [{'stream': 'charmap', 'request': cs[i][0][:120], 'origin': cs[i][2]} for i in range(0, len(cs), max(1, len(cs) // 4))][:4] + \
                  [{'stream': 'iconv-loop', 'direction': p[0], 'encoding': p[1], 'len': len(p[2])} for p in ic[::max(1, len(ic) // 3)]][:3] + \
                  [{'stream': 'classification', 'charset': n} for n in names[::max(1, len(names) // 3)]][:3] + \
                  [{'stream': 'unrepresentable', 'language': p[0], 'charset': p[3]} for p in payloads[::max(1, len(payloads) // 2)]][:2]
    return common.finish(
        ctx, 'proof', build, aud, TRUSTED, ASSUME,
        checker_cmd='tools/build.sh (coq_makefile + make: coqc on Props/C20.v) then coqc Audit_C20.v (Print Assumptions)',
        rule='(1) model charmap codec vs the registered KOI8-RU/VISCII/GEORGIAN-PS codecs on every single byte, every table character, foreign '
             'characters, random byte strings/texts, an unencodable run at every position; vs lib.encodings.charmap_encoding on synthetic '
             'charmap files (undefined bytes at every position, duplicates, dict-mode tables, short/long/empty files). '
             '(2) the five extra codecs vs /usr/bin/iconv: all single bytes, EUC-TW two-byte sequences (sampled in quick, all 25600 in thorough) '
             'and four-byte sequences, random strings with noise, every truncation, long inputs; every repertoire character and foreign '
             'characters (all of the BMP in thorough) for encoding: totality with 0 <= start < end <= len, encode(decode(b)) == b, agreement. '
             '(3) lib.iconv with every libc call recorded: each call checked against the iconv(3) contract, the recorded behaviour replayed '
             'through the model loop (result, positions, number of doublings), doublings <= 2. '
             '(4) model classify/is_portable/propose/is_ascii_compatible vs the real functions and Checker.check_mime for every name known to '
             'Python, gettext or the tool in several spellings plus hostile spellings; the laws of the property computed directly in Python '
             '(pristine interpreter for "Python ships a codec"), proposals compared behaviourally. '
             '(5) unrepresentable-characters: every (language[@modifier], charset of data/encodings) pair, and every other usable codec for '
             'a sample of languages, vs a direct per-character encode and vs the model. '
             'non-trivial = distinct case with an error position, a doubling, a classification other than unknown, or a reported character',
        extra_obligations=0, extra_discharged=0)


def replay(ctx, path):
    """re-evaluate the failing inputs of a replay file on the implementation (the property's own oracles)"""
    obj = json.load(open(path))
    E = setup()
    still = 0
    items = obj.get('failing_inputs') or []
    if not items:
        print('replay: %s names no failing input (broken tie): run the check itself' % path)
        return 1
    lc = None
    for f in items:
        kind, inp = f['kind'], f['input']
        why = None
        if kind.startswith('extra-codec-'):
            if inp['direction'] == 'D':
                fails, _ = oracle_decode_items((inp['codec'], [bytes(inp['data'])]))
            else:
                fails, _ = oracle_encode_items((inp['codec'], [''.join(map(chr, inp['data']))]))
            why = fails[0][3] if fails else None
        elif kind.startswith('iconv-'):
            real, line, problems, grows, n = traced_iconv((inp['direction'], inp['encoding'], inp['data']))
            r = real.split(' ')
            if r[1] == 'crash':
                why = 'raised ' + r[2]
            elif r[1] == 'err' and not 0 <= int(r[2]) < int(r[3]) <= n:
                why = 'start=%s end=%s len=%d' % (r[2], r[3], n)
            elif grows > 2 and inp['encoding'] not in STATEFUL:
                why = 'the buffer was doubled %d times' % grows
        elif kind.startswith('unrepresentable-'):
            if lc is None:
                lc = language_characters()
            tag = inp['language']
            lang, _, mod = tag.partition('@')
            key = 'characters' + ('@' + mod if mod else '')
            why = unrep_case((tag, key, lc[lang][key], inp['charset']))[2]
        elif kind.startswith('charmap-'):
            r = real_codec_call(inp['codec'], inp['direction'], inp['data'])
            why = r if r.startswith('crash') else None
        else:
            name = inp['charset']
            fails, _ = oracle_classification((name, pristine_lookup([name])[0]))
            why = '; '.join(w for (_, w, _) in fails) or None
        print('%s %s: %s' % ('FAILS' if why else 'passes', json.dumps(inp)[:200], why or ''))
        still += bool(why)
    return 1 if still else 0

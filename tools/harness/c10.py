"""C10: PO text decodes to exactly the strings gettext would see.

Streams
 (a) polib_unescape vs the model on all strings over an escape alphabet (small scope) and random runs;
 (a2) hexadecimal escapes of every length: ORACLE polib_unescape(spelling) == the bytes GNU gettext reads, asked from msgfmt itself when it
     is installed and from a small implementation of the C rule otherwise (harness/gettext_ref.py; never from the model);
 (b) generated catalogs rendered by a PO printer with spelling parameters (chunking, per-character escape
     form, blank lines, comment kinds, obsolete markers, CRLF, separators) in every ASCII-compatible charset
     of data/encodings able to encode them: ORACLE load(render(c)) == c on the implementation (needs no model),
     and model == implementation on the same bytes;
 (c) damaged files (byte edits, line shuffles, hostile lines): model == implementation, error line included;
 (d) detect_encoding / Codecs.open line splitting on separator-laden text; str.isspace table;
 (e) sequences of files with different charsets spelling the same escaped bytes, loaded by one fresh process in varying order:
     ORACLE load(render(c)) == c for every file of the sequence.
"""
import codecs
import os
import shutil
import types
import warnings

import common
from common import enc_str, enc_bytes
from harness import gettext_ref

TRUSTED = [
    'Coq 8.16.1 kernel (coqc, vm_compute); coqchk in thorough tier',
    'axioms: none (Print Assumptions must report "Closed under the global context" for every theorem of Props/C10.v)',
    'hand-written Gallina models Model/PoUnescape.v (polib4us.polib_unescape, CPython bytes-literal evaluation), Model/PoParser.v '
    '(polib 1.2.0 _POFileParser.parse / process / handle_*, patched flags property, IntDict, None defaults), Model/PoLexer.v '
    '(polib.detect_encoding, polib4us.Codecs.open, pofile + the ISO-8859-1 retry of Checker.check)',
    'Spec/PoSyntax.v: the printer family (hand-written reading of the PO grammar and of C escape sequences)',
    'oracles, not modelled: codecs.lookup, is_ascii_compatible_encoding, bytes.decode of every codec, int()/isdigit() of non-ASCII characters',
    'the re engine (each regex replaced by a scanner), str.strip/split/isspace (py_isspace table compared with CPython on every run), '
    'ast.literal_eval, inspect.stack frame walk',
    'extraction (ExtrOcamlBasic only) + ocaml/driver.ml; this harness (printer, canonicalisers)',
    'source translator tools/gen/gen_polib_src.py (lib/polib4us.py: regex texts, polib_unescape, Codecs.open, detect_encoding / POFile.find / '
    'default_encoding patches -> Generated/PolibSrc.v; rules in its docstring) + its vocabulary Model/PoPy.v (the regex engine = the model\'s scanners)',
]
ASSUME = ['the codec of the file is ASCII-compatible and stateless on the rendered text (checked per case: encode/decode round trip)',
          'C10_load_po_render: the whole-file decode and codecs.lookup are oracle hypotheses of the theorem (answered by CPython in the harness)']

_impl = {}


def _setup_impl():
    if 'polib' in _impl:
        return
    common.ensure_path()
    from harness import impl_checker as IC
    IC.get_checker_class()            # installs polib4us patches and the extra encodings
    import polib
    from lib import polib4us
    from lib import encodings
    _impl['polib'] = polib
    _impl['polib4us'] = polib4us
    _impl['encodings'] = encodings


# ---------------------------------------------------------------- canonical forms (identical to ocaml/driver.ml)
def opt_s(x):
    return 'n' if x is None else enc_str(x)


def canon_entry(e):
    """e: dict with msgctxt msgid msgid_plural msgstr plural(list of (int,str)) obsolete comment tcomment occ flags pc pm pp"""
    return ';'.join([
        opt_s(e['msgctxt']), enc_str(e['msgid']), opt_s(e['msgid_plural']), opt_s(e['msgstr']),
        'pl=' + '/'.join('%d:%s' % (k, enc_str(v)) for k, v in e['plural']),
        '1' if e['obsolete'] else '0', enc_str(e['comment']), enc_str(e['tcomment']),
        'occ=' + '/'.join(enc_str(f) + ':' + enc_str(l) for f, l in e['occ']),
        'fl=' + '/'.join(enc_str(f) for f in e['flags']),
        opt_s(e['pc']), opt_s(e['pm']), opt_s(e['pp'])])


def canon_file(enc, broken, warned, header, entries):
    return 'ok enc=%s broken=%d warned=%d header=%s n=%d%s' % (
        enc_str(enc if isinstance(enc, str) else repr(enc)), broken, warned, enc_str(header), len(entries), ''.join(' | ' + canon_entry(e) for e in entries))


def entry_of_polib(e):
    return {'msgctxt': e.msgctxt, 'msgid': e.msgid, 'msgid_plural': e.msgid_plural, 'msgstr': e.msgstr,
            'plural': list(e.msgstr_plural.items()), 'obsolete': bool(e.obsolete), 'comment': e.comment, 'tcomment': e.tcomment,
            'occ': list(e.occurrences), 'flags': list(e.flags), 'pc': e.previous_msgctxt, 'pm': e.previous_msgid,
            'pp': e.previous_msgid_plural}


# ---------------------------------------------------------------- implementation runners
def _workdir():
    d = os.path.join(common.WORK, 'c10', str(os.getpid()))
    os.makedirs(d, exist_ok=True)
    return d


def impl_load(raw):
    """what Checker.check does to obtain the file: polib.pofile(path), ISO-8859-1 retry after a UnicodeDecodeError"""
    _setup_impl()
    polib = _impl['polib']
    path = os.path.join(_workdir(), 'f.po')
    with open(path, 'wb') as f:
        f.write(raw)
    broken = 0
    with warnings.catch_warnings(record=True) as w:
        warnings.simplefilter('always')
        try:
            try:
                po = polib.pofile(path)
            except UnicodeDecodeError:
                broken = 1
                po = polib.pofile(path, encoding='ISO-8859-1')
        except UnicodeDecodeError:
            return 'err decode'
        except OSError as exc:
            msg = str(exc)
            pre = 'Syntax error in po file ' + path + ' (line '
            if exc.errno is None and msg.startswith(pre):
                rest = msg[len(pre):]
                num, _, det = rest.partition(')')
                det = det[2:] if det.startswith(': ') else ''
                if det == '':
                    d = '-'
                elif det == 'unescaped double quote found':
                    d = 'unescaped-quote'
                elif det == 'invalid continuation line':
                    d = 'invalid-continuation'
                elif det.startswith('unknown keyword '):
                    d = 'unknown-keyword ' + enc_str(det[len('unknown keyword '):])
                else:
                    d = '?' + det
                return 'err syntax %s %s' % (num, d)
            return 'crash OSError ' + msg[:80]
        except Exception as exc:   # noqa
            return 'crash ' + type(exc).__name__
    warned = 1 if any(issubclass(x.category, SyntaxWarning) for x in w) else 0
    return canon_file(po.encoding, broken, warned, po.header, [entry_of_polib(e) for e in po])


class _FakeParser:
    """polib_unescape discovers the charset by walking two frames up and reading self.instance.encoding"""
    def __init__(self, enc):
        self.instance = types.SimpleNamespace(encoding=enc)

    def handle(self, s):
        return _impl['polib4us'].polib_unescape(s)


def impl_unescape(payload):
    s, enc = payload
    _setup_impl()
    with warnings.catch_warnings(record=True) as w:
        warnings.simplefilter('always')
        try:
            r = _FakeParser(enc).handle(s)
        except UnicodeDecodeError:
            return 'err decode'
        except Exception as exc:  # noqa
            return 'crash ' + type(exc).__name__
    return 'ok %s %d' % (enc_str(r), 1 if any(issubclass(x.category, SyntaxWarning) for x in w) else 0)


# ---------------------------------------------------------------- the model with its oracle questions answered by CPython
def _dec_str(t):
    return [] if t == 's' else [int(x) for x in t[1:].split(',')]


def answer(key, default_codec=None):
    _setup_impl()
    kind, name, data = key.split(' ')
    kind = int(kind)
    name = ''.join(map(chr, _dec_str(name)))
    data = _dec_str(data)
    try:
        if kind == 0:
            codecs.lookup(name)
            return 's'
        if kind == 1:
            return 's' if _impl['encodings'].is_ascii_compatible_encoding(name) else 'n'
        if kind == 2:
            return enc_str(bytes(data).decode(name or default_codec))
        if kind == 3:
            return 's%d' % int(chr(data[0]))
        if kind == 4:
            return 's' if chr(data[0]).isdigit() else 'n'
    except (LookupError, UnicodeDecodeError, ValueError):
        return 'n'
    raise AssertionError(key)


def run_model(reqs, default_codecs=None, rounds=8):
    """reqs: request lines without oracle table.  Questions the model asks are answered and the request resubmitted."""
    tables = [dict() for _ in reqs]
    out = [None] * len(reqs)
    todo = list(range(len(reqs)))
    for _ in range(rounds):
        if not todo:
            break
        lines = [reqs[i] + ''.join(' %s %s' % (k, v) for k, v in tables[i].items()) for i in todo]
        res = common.run_driver(lines)
        nxt = []
        for i, r in zip(todo, res):
            if r.startswith('miss '):
                for key in r[5:].split(' | '):
                    tables[i][key] = answer(key, default_codecs[i] if default_codecs else None)
                nxt.append(i)
            else:
                out[i] = r
        todo = nxt
    for i in todo:
        out[i] = 'oracle-loop'
    return out


def shard_load(raws):
    """worker: implementation and model on a list of files"""
    impl = [impl_load(r) for r in raws]
    model = run_model(['po_load ' + enc_bytes(r) for r in raws])
    return list(zip(impl, model))


def shard_unescape(cases):
    impl = [impl_unescape(c) for c in cases]
    model = run_model(['po_unescape ' + enc_str(s) for s, _ in cases], [e for _, e in cases])
    return list(zip(impl, model))


def pshards(fname, items, size):
    shards = [items[i:i + size] for i in range(0, len(items), size)]
    res = common.pmap('harness.c10', fname, shards, per_case_timeout=600)
    out = []
    for sh, r in zip(shards, res):
        if not isinstance(r, list) or len(r) != len(sh):
            out.extend([('shard-failed %r' % (r,), 'shard-failed')] * len(sh))
        else:
            out.extend(r)
    return out


# ---------------------------------------------------------------- the printer family (spelling parameters)
NAMED = {'\n': 'n', '\t': 't', '\b': 'b', '\r': 'r', '\f': 'f', '\v': 'v', '\a': 'a', '\\': '\\', '"': '"'}
NAMED_BYTE = {ord(k): v for k, v in NAMED.items()}
SPLITTERS = ['\x0b', '\x0c', '\x1c', '\x1d', '\x1e', '\x85', '\u2028', '\u2029']
HEXD = '0123456789abcdefABCDEF'


def spell_byte(b, rng, forms):
    """one escape item for byte b: (text, kind) with kind in named/oct1..3/hex1..2/hexN (three or more digits: gettext, like C,
    takes every hex digit and keeps the low 8 bits, so the leading digits are zeros or anything else)"""
    form = rng.choice(forms)
    if form == 'named' and b in NAMED_BYTE:
        return '\\' + NAMED_BYTE[b], 'named'
    if form in ('oct', 'named'):
        o = '%o' % b
        k = rng.randrange(len(o), 4)
        return '\\' + o.rjust(k, '0'), 'oct%d' % k
    h = '%x' % b
    if rng.random() < 0.3:
        lead = rng.randrange(1, 7)
        h = ('0' * lead if rng.random() < 0.5 else ''.join(rng.choice('0123456789abcdef') for _ in range(lead))) + '%02x' % b
        kind = 'hexN'
    else:
        k = rng.randrange(len(h), 3)
        h = h.rjust(k, '0')
        kind = 'hex%d' % k
    return '\\x' + ''.join(c.upper() if rng.random() < 0.4 else c for c in h), kind


def spell_chunk(text, charset, rng, sp, stats):
    """text -> the characters between the quotes.  Each character literal or as the escaped bytes of its encoding.
    Stays inside the family: after a hex escape no literal hex digit (gettext would read it as one more digit of the escape);
    after a short octal escape no literal digit."""
    out = []
    last = None          # kind of the last item when the previous character was escaped
    for ch in text:
        must = ch in '\\"\n'
        lit_ok = not must and not (last and last.startswith('hex') and ch in HEXD) \
            and not (last in ('oct1', 'oct2') and ch in '0123456789')
        if lit_ok and rng.random() >= sp['p_escape'] and (ord(ch) >= 0x20 or rng.random() < sp['p_raw_control']):
            out.append(ch)
            last = None
            continue
        bs = ch.encode(charset)
        if ord(ch) >= 0x80 and max(bs) < 0x80:
            stats['_ascii_bytes_letter_escaped'] = 1     # D27: a letter the charset puts on ASCII byte positions, spelled as escapes
        for b in bs:
            t, last = spell_byte(b, rng, sp['forms'])
            out.append(t)
            stats[last] = stats.get(last, 0) + 1
    return ''.join(out)


def chunk_string(s, rng, sp):
    """split s into chunks (continuation lines)"""
    if s == '':
        return [''] if rng.random() < 0.7 else ['', '']
    cuts = sorted(set(rng.randrange(0, len(s) + 1) for _ in range(rng.choice(sp['ncuts']))))
    parts = [s[a:b] for a, b in zip([0] + cuts, cuts + [len(s)])]
    if rng.random() < 0.5:
        parts = [p for p in parts if p] or ['']
    if rng.random() < sp['p_empty_first'] and parts[0] != '':
        parts = [''] + parts
    return parts


class Printer:
    def __init__(self, rng, charset, sp):
        self.rng, self.charset, self.sp = rng, charset, sp
        self.lines = []
        self.stats = {}
        self.split_multibyte = False

    def blank(self):
        while self.rng.random() < self.sp['p_blank']:
            self.lines.append(self.rng.choice(['', '', ' ', '\t', ' \x0c', '  ']))

    def line(self, s, nolead=False):
        self.blank()
        lead = self.rng.choice(['', '', '', ' ', '\t']) if (self.rng.random() < self.sp['p_pad'] and not nolead) else ''
        trail = self.rng.choice(['', '', ' ', '\t', ' \x0c']) if self.rng.random() < self.sp['p_pad'] else ''
        self.lines.append(lead + s + trail)

    def string(self, keyword, s, prefix, literal_chunks=()):
        rng = self.rng
        if literal_chunks:
            # the header: one chunk per line of the value, so that the charset declaration sits on one physical line
            parts = [x + '\n' for x in s.split('\n')[:-1]] + ([s.split('\n')[-1]] if s.split('\n')[-1] else [])
            if rng.random() < 0.7:
                parts = [''] + parts
        else:
            parts = chunk_string(s, rng, self.sp)
        sep = rng.choice([' ', ' ', ' ', '\t', '  ']) if rng.random() < self.sp['p_pad'] else ' '
        first = True
        for part in parts:
            if any(m in part for m in literal_chunks):
                body = part.replace('\\', '\\\\').replace('"', '\\"').replace('\n', '\\n')
            else:
                body = spell_chunk(part, self.charset, rng, self.sp, self.stats)
            self.line(prefix + (keyword + sep if first else '') + '"' + body + '"')
            first = False

    def split_inside_character(self, keyword, s, prefix):
        """D16-style spelling: the escaped bytes of one multi-byte character on two continuation lines"""
        for i, ch in enumerate(s):
            bs = ch.encode(self.charset)
            if len(bs) > 1:
                a = spell_chunk(s[:i], self.charset, self.rng, self.sp, self.stats) + '\\%03o' % bs[0]
                b = ''.join('\\%03o' % x for x in bs[1:]) + spell_chunk(s[i + 1:], self.charset, self.rng, self.sp, self.stats)
                self.line(prefix + keyword + ' "' + a + '"')
                self.line(prefix + '"' + b + '"')
                self.split_multibyte = True
                return True
        return False


WS = ' \t\n\x0b\x0c\r\x1c\x1d\x1e\x1f\x85\xa0\u1680\u2000\u2001\u2002\u2003\u2004\u2005\u2006\u2007\u2008\u2009\u200a\u2028\u2029\u202f\u205f\u3000'


def join_comments(lines):
    """polib joins comment lines with LF but only once the accumulated text is non-empty: leading empty comment
    lines vanish (translator comments are not part of the property; this is how the value is defined here)"""
    acc = ''
    for x in lines:
        if acc != '':
            acc += '\n'
        acc += x
    return acc


def render(cat, charset, rng, sp):
    """catalog -> (bytes, expected canonical result, facts).  cat: header_comments, charset_name, header_fields, entries"""
    P = Printer(rng, charset, sp)
    for c in cat['header_comments']:
        form = rng.random()
        if c == '':
            P.line('#' if form < 0.5 else '# ')
        elif form < 0.25 and c[0] not in ' .:,|~':
            P.line('#' + c, nolead=True)    # atypical comment, normalised by Codecs.open (only at the start of a line)
        else:
            P.line('# ' + c)
    exp_entries = []
    facts = {'max_plural_index': -1, 'obsolete_prev': False, 'split_multibyte': False}
    first = True
    for e in cat['entries']:
        pre = '#~ ' if e['obsolete'] else ''
        if e['obsolete'] and rng.random() < 0.3:
            pre = '#~\t'
        clines = []
        for c in e['tcomments']:
            clines.append(('t', c))
        for c in e['extracted']:
            clines.append(('e', c))
        for refs in e['refs']:
            clines.append(('r', refs))
        for fl in e['flags']:
            clines.append(('f', fl))
        if sp['shuffle_comments'] and rng.random() < 0.5:
            rng.shuffle(clines)
        if first:
            # translator comments before any other line of the first entry belong to the file header
            k = 0
            while k < len(clines) and clines[k][0] == 't':
                k += 1
            clines = clines[k:] + clines[:k] if k < len(clines) else []
        tcom, ecom, occ, flags = [], [], [], []
        for kind, v in clines:
            if kind == 't':
                tcom.append(v)
                if v and v[0] not in ' .:,|~' and rng.random() < 0.2:
                    P.line('#' + v, nolead=True)
                else:
                    P.line('# ' + v if v else rng.choice(['#', '# ']))
            elif kind == 'e':
                ecom.append(v)
                P.line('#.' + rng.choice([' ', ' ', '\t']) + v)
            elif kind == 'r':
                occ += v
                P.line('#:' + rng.choice([' ', '\t']) + rng.choice([' ', '  ', '\t']).join(f + (':' + l if l else '') for f, l in v))
            else:
                items = []
                for f in v:
                    items.append(rng.choice(['', ' ', '\t', '  ']) + f + rng.choice(['', '', ' ', '\t']))
                    flags.append(f)
                body = ','.join(items)
                P.line('#,' + rng.choice([' ', '\t']) + body)
        prev = {'pc': e['pc'], 'pm': e['pm'], 'pp': e['pp']}
        ppre = '#~| ' if e['obsolete'] else '#| '
        for key, kw in (('pc', 'msgctxt'), ('pm', 'msgid'), ('pp', 'msgid_plural')):
            if prev[key] is not None:
                P.string(kw, prev[key], ppre)
                if e['obsolete']:
                    facts['obsolete_prev'] = True
        if e['msgctxt'] is not None:
            P.string('msgctxt', e['msgctxt'], pre)
        lit = ('Content-Type:',) if e['msgid'] == '' else ()
        P.string('msgid', e['msgid'], pre)
        if e['msgid_plural'] is not None:
            P.string('msgid_plural', e['msgid_plural'], pre)
            for i, s in enumerate(e['plural']):
                facts['max_plural_index'] = max(facts['max_plural_index'], i)
                P.string('msgstr[%d]' % i, s, pre)
        else:
            s = e['msgstr']
            if e.get('split_inside') and P.split_inside_character('msgstr', s, pre):
                pass
            else:
                P.string('msgstr', s, pre, lit)
        exp_entries.append({
            'msgctxt': e['msgctxt'], 'msgid': e['msgid'], 'msgid_plural': e['msgid_plural'],
            'msgstr': None if e['msgid_plural'] is not None else e['msgstr'],
            'plural': list(enumerate(e['plural'])) if e['msgid_plural'] is not None else [],
            'obsolete': e['obsolete'], 'comment': join_comments(ecom), 'tcomment': join_comments(tcom), 'occ': occ, 'flags': flags,
            'pc': e['pc'], 'pm': e['pm'], 'pp': e['pp']})
        first = False
    P.blank()
    for c in cat.get('trailing_comments', []):
        P.line('# ' + c)          # trailing translator comments are dropped by design (Codecs.open)
    facts['split_multibyte'] = P.split_multibyte
    facts['ascii_bytes_letter_escaped'] = bool(P.stats.pop('_ascii_bytes_letter_escaped', 0))
    eol = '\r\n' if sp['crlf'] else '\n'
    text = eol.join(P.lines) + (eol if (P.lines and rng.random() < 0.9) else '')
    raw = text.encode(charset)
    expected = canon_file(cat['charset_name'], 0, 0, join_comments(cat['header_comments']), exp_entries)
    return raw, expected, facts, P.stats


# ---------------------------------------------------------------- catalog generator
LETTERS = 'abcXYZ019 fF'
NONASCII = 'éßñЖя中日本語ก€·«»ąęŁ\xa0\xad٣３๓ソ表功'     # ٣３๓ are decimal digits outside ASCII (what follows a short octal escape must not be read as part of it); ソ表功 have 0x5C as their trail byte in SHIFT_JIS / CP932 / BIG5 (the escaped byte pair is then \\x83 + \\\\)
# character pairs whose encoding in a legacy 8-bit charset is also a valid UTF-8 sequence
# (ISO-8859-2 / CP1250 D3 A3, D3 B3, C5 B1...; KOI8-R D0 A3, D1 B3; CP1251 D0 B3 ...): spelled as escapes they tell
# "decoded with the charset of the file" from "decoded with some other charset first"
UTF8_LOOKALIKES = ['ÓŁ', 'Ół', 'Ĺą', 'Ńł', 'пё', 'яЁ', 'Рі', 'Ã©', 'Ã¤', 'Â£']


def gen_text(rng, alphabet, maxlen=12, allow_empty=True):
    n = rng.randrange(0 if allow_empty else 1, maxlen)
    return ''.join(rng.choice(alphabet) for _ in range(n))


def gen_catalog(rng, charset_name, rich, extra_alpha=()):
    alpha = list(LETTERS) + ['\\', '"', '\n', '\t', '\r', '\x07', '\x08', '\x0c', '\x0b', '\x00', '\x1b', '\x7f', '%', 'x', 'n', '8', '9', '7', 'a']
    if rich:
        alpha += list(NONASCII) + SPLITTERS + UTF8_LOOKALIKES
    alpha += list(extra_alpha) * 3
    # texts that look like escape sequences once their backslash is spelled as "\\\\": a literal backslash followed by x + hex digit(s),
    # octal digits or an escape letter (the loader must not read the pair as an escape)
    alpha += ['\\x5', '\\xA', '\\x5z', '\\x', '\\7', '\\12', '\\n', '\\t', '\\"', '\\\\x41', 'C:\\x1\\bin']
    calpha = [c for c in alpha if c not in '\n'] + [' ', '#', ',', ':', '|', '~', '.'] + list('=!-*/@<>([{_+&?$^%;\'`')

    def ctext(nonempty=True):
        while True:
            t = gen_text(rng, calpha, 10, allow_empty=not nonempty).strip(WS)
            if t or not nonempty:
                return t

    def ref():
        f = ''.join(rng.choice('abc/._-é:' if rich else 'abc/._-:') for _ in range(rng.randrange(1, 8)))
        if rng.random() < 0.8:
            return (f, str(rng.randrange(0, 5000)))
        f = f.replace(':', '') or 'f'
        return (f, '')

    def flag():
        return rng.choice(['fuzzy', 'c-format', 'no-c-format', 'range:1..5', 'python-format', '', 'fuzzy', 'x y', 'é' if rich else 'z'])

    header_fields = [('Project-Id-Version', 'x 1'), ('Content-Type', 'text/plain; charset=' + charset_name), ('Content-Transfer-Encoding', '8bit')]
    rng.shuffle(header_fields)
    hdr = ''.join('%s: %s\n' % kv for kv in header_fields)
    entries = [{'tcomments': [], 'extracted': [], 'refs': [], 'flags': [['fuzzy']] if rng.random() < 0.3 else [], 'pc': None, 'pm': None, 'pp': None,
                'obsolete': False, 'msgctxt': None, 'msgid': '', 'msgid_plural': None, 'msgstr': hdr, 'plural': []}]
    seen = set([(None, '')])
    for _ in range(rng.randrange(0, 5)):
        e = {'tcomments': [ctext(False) for _ in range(rng.choice([0, 0, 1, 2]))],
             'extracted': [ctext() for _ in range(rng.choice([0, 0, 1, 2]))],
             'refs': [[ref() for _ in range(rng.randrange(1, 4))] for _ in range(rng.choice([0, 0, 1, 2]))],
             'flags': [[flag() for _ in range(rng.randrange(0, 3))] + ['fuzzy'] for _ in range(rng.choice([0, 0, 1, 1, 2]))],
             'pc': None, 'pm': None, 'pp': None, 'obsolete': rng.random() < 0.2,
             'msgctxt': gen_text(rng, alpha) if rng.random() < 0.3 else None,
             'msgid': gen_text(rng, alpha, allow_empty=False), 'msgid_plural': None, 'msgstr': gen_text(rng, alpha), 'plural': []}
        if rng.random() < 0.3:
            e['pm'] = gen_text(rng, alpha)
            if rng.random() < 0.4:
                e['pc'] = gen_text(rng, alpha)
            if rng.random() < 0.4:
                e['pp'] = gen_text(rng, alpha)
        if rng.random() < 0.35:
            e['msgid_plural'] = gen_text(rng, alpha)
            n = rng.choice([1, 2, 2, 3, 3, 4, 6, 10, 10, 11, 12])
            e['plural'] = [gen_text(rng, alpha, 6) for _ in range(n)]
        elif rich and rng.random() < 0.05:
            e['split_inside'] = True
        if (e['msgctxt'], e['msgid']) in seen:
            continue
        seen.add((e['msgctxt'], e['msgid']))
        entries.append(e)
    return {'header_comments': [ctext(False) for _ in range(rng.choice([0, 1, 3]))], 'charset_name': charset_name, 'entries': entries,
            'trailing_comments': [ctext()] if rng.random() < 0.2 else []}


def gen_spelling(rng):
    return {'p_escape': rng.choice([0.0, 0.1, 0.3, 0.6, 1.0]), 'p_raw_control': rng.choice([0.0, 0.5, 1.0]),
            'forms': rng.choice([['named'], ['oct'], ['hex'], ['named', 'oct', 'hex'], ['named', 'named', 'oct', 'hex']]),
            'ncuts': rng.choice([[0], [0, 1], [0, 1, 2, 3], [3, 5]]), 'p_empty_first': rng.choice([0.0, 0.3]),
            'p_blank': rng.choice([0.0, 0.1, 0.3]), 'p_pad': rng.choice([0.0, 0.2]), 'shuffle_comments': rng.random() < 0.5,
            'crlf': rng.random() < 0.15}


# the 105 bytes the tool probes at the pinned commit (kept here so that an edit of the tool's own list is judged against it)
REPERTOIRE = bytes([0, 4, 7, 8, 9, 10, 11, 12, 13, 27] + list(range(32, 127)))
# letters of the charsets the tool supplies codecs for (VISCII: the six letters it puts on C0 positions come first)
OWN_LETTERS = {'VISCII': 'ẲẴẪỶỸỴếệạđÀ', 'KOI8-RU': 'ЎўҐґЖяІї', 'GEORGIAN-PS': 'აბგდევ', 'KOI8-T': 'ҒғҚқҲҳЖ', 'EUC-TW': '中日語一丁'}


def charsets(python=True):
    """supported charsets in which the pinned ASCII repertoire decodes to itself; python=False: also the ones served by the tool's own codecs"""
    _setup_impl()
    E = _impl['encodings']
    out = []
    for name in E.get_portable_encodings(python=python):
        if name.upper() in OWN_LETTERS:
            out.append(name)      # the codecs the tool supplies are in scope by the property's own list, whatever the tool's codec answers today
            continue
        try:
            if REPERTOIRE.decode(name) == REPERTOIRE.decode('ascii'):
                out.append(name)
        except (UnicodeError, LookupError):
            continue
    return out


def text_of_catalog(cat):
    parts = list(cat['header_comments']) + cat.get('trailing_comments', [])
    for e in cat['entries']:
        parts += e['tcomments'] + e['extracted'] + [f + l for r in e['refs'] for f, l in r] + [f for fl in e['flags'] for f in fl]
        parts += [x for x in (e['pc'], e['pm'], e['pp'], e['msgctxt'], e['msgid'], e['msgid_plural'], e['msgstr']) if x] + e['plural']
    return ''.join(parts)


def stateless_ok(text, cs):
    """the charset encodes the text, character by character, and decodes it back (the codec hypothesis of the theorems);
    for the tool's own codecs the decode direction is what is under test, so only the encode side decides the scope"""
    try:
        b = text.encode(cs)
        if cs.upper() not in OWN_LETTERS and b.decode(cs) != text:
            return False
        if cs.upper() in OWN_LETTERS:
            return b == b''.join(ch.encode(cs) for ch in text)
        return b == b''.join(ch.encode(cs) for ch in text) and all(ch.encode(cs).decode(cs) == ch for ch in set(text))
    except (UnicodeError, LookupError):
        return False


# ---------------------------------------------------------------- damage (stream c)
HOSTILE_LINES = ['#~| msgid "x"', '#~ #| msgid "x"', '#| msgid', '#| foo "x"', '#|', '#~', 'msgid', 'msgstr[', 'msgstr[x] "a"', 'msgstr[1',
                 'msgstr[٣] "a"', 'msgid"x"', '"dangling"', 'msgid "a" "b"', 'msgid "a\\\\"b"', 'msgid "a"b"', 'msgstr "\\303"', 'msgstr "\\777\\9"',
                 '#,fuzzy', '#, a,b', '#:x', '#: a:1 b:٣ c:x:2', '#.', '#. ', '##', '#!x', '#\x0cx', 'msgctxt "c"', '# c', '#~ msgid "o"', '#~ msgstr "p"',
                 'msgid_plural "p"', 'msgstr[0] "z"', 'msgstr[10] "z"', '\ufeffmsgid "b"', 'foo', 'msgstr "s"', 'msgid ""', '"Content-Type: text/plain; charset=foo\\n"',
                 '"Content-Type: a charset= charset=UTF-8\\n"', 'msgstr "a\x85b\u2028c"', 'msgid "x" ', '#, fuzzy\x0c', '#  two']


def damage(raw, rng):
    lines = raw.split(b'\n')
    r = rng.random()
    if r < 0.35 and lines:
        i = rng.randrange(len(lines) + 1)
        try:
            new = rng.choice(HOSTILE_LINES).encode('utf-8')
        except UnicodeError:
            new = b'#'
        lines.insert(i, new)
    elif r < 0.5 and len(lines) > 1:
        i = rng.randrange(len(lines))
        del lines[i]
    elif r < 0.6 and len(lines) > 1:
        i, j = rng.randrange(len(lines)), rng.randrange(len(lines))
        lines[i], lines[j] = lines[j], lines[i]
    elif r < 0.8 and raw:
        b = bytearray(raw)
        i = rng.randrange(len(b))
        b[i] = rng.choice([0x22, 0x5c, 0x23, 0x20, 0x0a, 0x0d, 0x0c, 0x85, 0xff, 0x7e, 0x7c, 0x5b, 0x30, 0x39, 0x6d])
        return bytes(b)
    elif raw:
        i = rng.randrange(len(raw))
        return raw[:i] + raw[i + rng.randrange(1, 4):]
    return b'\n'.join(lines)



# ---------------------------------------------------------------- (e) several files in one process
def escape_spellings(b):
    return [''.join('\\%03o' % x for x in b), ''.join('\\x%02x' % x for x in b), ''.join('\\x%02X' % x for x in b),
            ''.join(('\\%o' % x) if i == len(b) - 1 else ('\\%03o' % x) for i, x in enumerate(b)),
            ''.join('\\x%04x' % x for x in b), ''.join('\\xA5f%02X' % x for x in b)]      # hex escapes of more than two digits: the low 8 bits


def seq_file(cs, esc, key):
    raw = ('msgid ""\nmsgstr "Content-Type: text/plain; charset=%s\\n"\n\nmsgid "%s"\nmsgstr "%s"\n' % (cs, key, esc)).encode('ascii')
    return raw


def seq_expected(cs, text, key):
    blank = {'msgctxt': None, 'msgid_plural': None, 'plural': [], 'obsolete': False, 'comment': '', 'tcomment': '', 'occ': [], 'flags': [],
             'pc': None, 'pm': None, 'pp': None}
    return canon_file(cs, 0, 0, '', [dict(blank, msgid='', msgstr='Content-Type: text/plain; charset=%s\n' % cs),
                                     dict(blank, msgid=key, msgstr=text)])


def gen_sequences(rng, css, n):
    """sequences of files with DIFFERENT charsets spelling the SAME escaped bytes, to be loaded one after the other
    by one fresh process: what a file decodes to must not depend on the files loaded before it"""
    pool = []
    singles = [bytes([x]) for x in (0xa1, 0xa3, 0xb1, 0xb3, 0xbf, 0xc0, 0xd3, 0xe6, 0xe9, 0xf1, 0xfe)]
    pairs = [bytes([a, b]) for a in (0xc2, 0xc3, 0xc5, 0xd0, 0xd1, 0xd3, 0xdf) for b in (0x80, 0xa3, 0xa9, 0xb1, 0xb3, 0xbf)]
    triples = [b'\xe2\x80\x9c', b'\xe0\xb8\x81', b'\xef\xbb\xbf']
    for b in singles + pairs + triples:
        dec = {}
        for cs in css + ['UTF-8']:
            try:
                t = b.decode(cs)
            except UnicodeError:
                continue
            if t.encode(cs) == b and not any(ch in '\\"\n' for ch in t):
                dec[cs] = t
        if len(set(dec.values())) >= 2:
            pool.append((b, dec))
    seqs = []
    for i in range(n):
        b, dec = rng.choice(pool)
        names = sorted(dec)
        # at least two charsets with different readings of the bytes
        while True:
            pick = rng.sample(names, min(len(names), rng.choice([2, 2, 3, 4])))
            if len(set(dec[c] for c in pick)) >= 2:
                break
        esc = rng.choice(escape_spellings(b))
        if rng.random() < 0.3:
            esc = 'a' + esc + '\\n'
            wrap = lambda t: 'a' + t + '\n'   # noqa: E731
        else:
            wrap = lambda t: t                # noqa: E731
        seqs.append([(seq_file(cs, esc, 'k%d' % j), seq_expected(cs, wrap(dec[cs]), 'k%d' % j), cs) for j, cs in enumerate(pick)])
    return seqs


def seq_worker(raws):
    """load the files one after the other in ONE fresh process (forked here, so nothing loaded before is shared)"""
    import json
    r, w = os.pipe()
    pid = os.fork()
    if pid == 0:
        try:
            os.close(r)
            out = [impl_load(x) for x in raws]
            with os.fdopen(w, 'w') as f:
                json.dump(out, f)
        finally:
            os._exit(0)
    os.close(w)
    with os.fdopen(r) as f:
        data = f.read()
    os.waitpid(pid, 0)
    return json.loads(data) if data else ['child-died'] * len(raws)


# ---------------------------------------------------------------- findings
def d29_listed(prop='C10'):
    """D29 (hex escapes of more than two digits) is tagged as a finding only while KNOWN_FINDINGS.jsonl lists it as known for this property;
    once the entry says fixed a failure on such an input is an ordinary violation"""
    return any(k.get('id') == 'D29' and k.get('property') == prop and k.get('status') == 'known' for k in common.load_known_findings())


def classify_failure(facts, raw, d29=False):
    if facts['max_plural_index'] >= 10:
        return 'D9'
    if facts['obsolete_prev']:
        return 'D22'
    if facts['split_multibyte']:
        return 'D23'
    if facts.get('ascii_bytes_letter_escaped'):
        return 'D27'
    if d29 and gettext_ref.has_long_hex(raw.decode('latin-1')):
        return 'D29'
    return None


def bad_escape_present(s):
    """an octal escape > \\377 or \\8 \\9 is present (structural predicate of D14)"""
    i = 0
    while i < len(s):
        if s[i] == '\\' and i + 1 < len(s):
            c = s[i + 1]
            if c in '89':
                return True
            if c in '4567' and i + 3 < len(s) and s[i + 2] in '01234567' and s[i + 3] in '01234567':
                return True
            i += 2
        else:
            i += 1
    return False


# hexadecimal escapes: one and two digits, more digits (leading zeros / anything), either case, mixed runs, at the end of a run, before another
# backslash, escaped backslashes before x (a backslash and the literal text x41BC)
HEX_PROBES = [
    'a\\x0cb', '\\x41BC', '\\x0041', '\\xe9e9z', '\\x00a9\\n', '\\x5', '\\x5\\\\', '\\x5\\x6', '\\x5\\n', '\\x41\\x42C\\101', '\\xaB', '\\xAb', '\\xab', '\\xAB',
    '\\x00041', '\\xfffe', '\\xFFFE', '\\x123', '\\x1234567', '\\xabcdef', '\\xABCDEF41', '\\x100041', '\\\\x41BC', '\\\\\\x41BC', '\\\\\\\\x41BC',
    '\\\\\\\\\\x41BC', '\\"\\x41BC', '\\x41\\\\x42', '\\x6\\\\x42', '\\x41 BC', '\\x41gBC', '\\x41GBC', '\\x41\\x42', '\\x6\\x42', '\\x416\\x42', '\\101\\x41',
    '\\x41\\101', '\\x411\\101', '\\1\\x0001', '\\x5\\x5\\x5', '\\x05\\x005\\x0005', '\\n\\x41f\\t', '\\x7e\\x7E', '\\xe9', '\\xE9e9', '\\xe', '\\xeg', '\\xe\\xe',
    '\\x0e\\101', 'q\\x41', '\\x41q', '\\x6q', 'x41', '\\x6\\"', '\\x1f6', '\\x1F41', '\\x3132', '\\x31\\62', '\\x3g1', '\\a\\x07\\x007', '\\xdeadbeef',
    '\\xDEADBEEF', '\\xDeAdBeEf0', '\\x20', '\\x2020 ', '\\x9\\x99\\x999', '\\x' + '0' * 40 + 'e9', '\\x' + 'F' * 300 + '41', '\xe9\\xe9\xe9',
]


# ---------------------------------------------------------------- check
def check(ctx):
    build = common.coq_build()
    aud = common.audit(ctx.id, coqchk=not ctx.quick())
    rng = ctx.rng
    quick = ctx.quick()
    shutil.rmtree(os.path.join(common.WORK, 'c10'), ignore_errors=True)
    _setup_impl()
    d29 = d29_listed(ctx.id)

    # ---- (e) sequences of files with different charsets and the same escaped bytes, each sequence in one fresh process
    css0 = charsets()
    seqs = gen_sequences(rng, css0, 200 if quick else 5000)
    sres = common.pmap('harness.c10', 'seq_worker', [[f[0] for f in sq] for sq in seqs], per_case_timeout=120)
    for sq, got in zip(seqs, sres):
        if not isinstance(got, list) or len(got) != len(sq):
            ctx.count('sequence:' + repr(got)[:40])
            continue
        ctx.evaluations += len(sq)
        for k, ((raw, expected, cs), g) in enumerate(zip(sq, got)):
            ctx.count('sequence:' + g.split(' ')[0])
            if g != expected:
                ctx.fail('load-render-sequence',
                         {'files_loaded_in_this_order_by_one_process': [repr(x[0]) for x in sq[:k + 1]], 'charsets': [x[2] for x in sq[:k + 1]],
                          'expected_for_last': expected[-200:], 'observed_for_last': g[-200:]},
                         'load(render(c)) != c for the last file of the sequence (each file alone, or in another order, may load correctly)',
                         finding='D29' if d29 and gettext_ref.has_long_hex(raw.decode('latin-1')) else None)
            else:
                ctx.nontriv(('s', raw, k))

    # ---- (d0) the whitespace table of the model is CPython's
    cps = list(range(0, 0x3100)) + [0xfeff, 0x1d7ce, 0x10ffff]
    res = common.run_driver(['po_isspace %d' % c for c in cps])
    for c, m in zip(cps, res):
        if m != ('1' if chr(c).isspace() else '0'):
            ctx.disagree('py_isspace', {'code_point': c}, m, str(chr(c).isspace()))
    ctx.evaluations += len(cps)

    # ---- (a) polib_unescape
    import itertools
    alpha = ['\\', '"', 'n', 'x', '0', '7', '8', '3', 'a', 'g', 'é', 'A']
    maxlen = 4 if quick else 5
    ucases = []
    for k in range(maxlen + 1):
        for seq in itertools.product(alpha, repeat=k):
            ucases.append((''.join(seq), 'ISO-8859-1'))
    ralpha = list('\\\\\\\\"ntbrfvaxX0123456789abcdefABCDEFgz \'') + ['é', '\n', '\r']
    for _ in range(3000 if quick else 100000):
        s = ''.join(rng.choice(ralpha) for _ in range(rng.randrange(1, 14)))
        ucases.append((s, rng.choice(['UTF-8', 'ISO-8859-2', 'EUC-JP', 'CP1251', 'ASCII', 'BIG5', 'UTF-16'])))
    for ch in NONASCII:
        for cs in ['UTF-8', 'ISO-8859-1', 'ISO-8859-2', 'KOI8-R', 'EUC-JP', 'GB18030', 'CP932', 'BIG5']:
            try:
                b = ch.encode(cs)
            except UnicodeError:
                continue
            ucases.append((''.join('\\%03o' % x for x in b), cs))
            ucases.append(('a' + ''.join('\\x%02X' % x for x in b) + 'z', cs))
            ucases.append((''.join('\\%o' % x for x in b[:1]), cs))
    ucases.extend((sp, 'ISO-8859-1') for sp in HEX_PROBES)
    ures = pshards('shard_unescape', ucases, 4000)
    ctx.evaluations += len(ures)
    for (s, cs), (impl, model) in zip(ucases, ures):
        if impl != model:
            ctx.disagree('unescape', {'string': s, 'charset': cs}, model, impl)
        ctx.count('unescape:' + impl.split(' ')[0])
        if impl.startswith('ok '):
            if '\\' in s:
                ctx.nontriv(('u', s, cs))
            if impl.endswith(' 1') != bad_escape_present(s):
                # C10_unescape_warned_iff_D14: the warning appears exactly when the structural predicate holds
                ctx.disagree('warned <-> bad_escape', {'string': s, 'charset': cs}, 'bad_escape=%s' % bad_escape_present(s), impl)
            if impl.endswith(' 1'):
                ctx.count('unescape:warned')
                ctx.fail('stderr-warning', {'string': s}, 'polib_unescape makes CPython print a SyntaxWarning on stderr',
                         finding='D14' if bad_escape_present(s) else None)

    # ---- (a2) hexadecimal escapes of every length: gettext (po-lex.c, like C) takes every hex digit and keeps the low 8 bits.
    # ORACLE: polib_unescape(spelling) == what gettext reads; the reference is msgfmt itself when installed, else the C rule (gettext_ref)
    probes = list(HEX_PROBES)
    for _ in range(150 if quick else 3000):
        t = ''
        for _ in range(rng.randrange(1, 6)):
            k = rng.random()
            if k < 0.55:
                t += '\\x' + ''.join(rng.choice(gettext_ref.HEXD) for _ in range(rng.randrange(1, 9)))
            elif k < 0.65:
                t += '\\' + rng.choice('ntbrfva\\"')
            elif k < 0.75:
                t += '\\' + rng.choice(['101', '7', '12', '377', '60'])
            else:
                t += rng.choice(['g', 'x', 'z', ' ', 'G', '\\\\x', '\xe9'])
        probes.append(t)
    sources, values, mismatches = gettext_ref.read_all(probes)
    ctx.stats['hex_probe_reference'] = 'msgfmt' if 'msgfmt' in sources else 'c-rule'
    for (sp, g, ge, r) in mismatches:
        ctx.disagree('gettext reference', {'string': sp}, 'C rule: %r' % (r,), 'msgfmt: %r / at the end of a chunk: %r' % (g, ge))
    for sp, want, source in zip(probes, values, sources):
        if want is None:
            ctx.count('hex-probe:not-asked')
            continue
        r = impl_unescape((sp, 'ISO-8859-1'))
        ctx.evaluations += 1
        ctx.count('hex-probe:' + source)
        if r != 'ok %s 0' % enc_str(want.decode('latin-1')):
            ctx.fail('hex-escape-length', {'string': sp, 'charset': 'ISO-8859-1', 'gettext_reads': want.hex(' '), 'reference': source},
                     'polib_unescape gives %s; gettext reads every hex digit of the escape (low 8 bits kept)' % r,
                     finding='D29' if d29 and gettext_ref.has_long_hex(sp) else None)
        else:
            ctx.nontriv(('h', sp))
    # ---- (b) the printer family
    css = css0
    ctx.stats['charsets'] = len(css)
    ncat = 250 if quick else 6000
    files = []     # (raw, expected, facts, meta)
    skipped = 0
    item_stats = {}
    for i in range(ncat):
        rich = rng.random() < 0.7
        pick = rng.sample(css, 4 if quick else 8) + ['UTF-8']
        cat0 = gen_catalog(rng, 'X', rich)
        text = text_of_catalog(cat0)
        for cs in pick:
            if not stateless_ok(text, cs):
                skipped += 1
                continue
            cat = dict(cat0, charset_name=cs)
            cat['entries'] = [dict(e) for e in cat0['entries']]
            cat['entries'][0]['msgstr'] = cat0['entries'][0]['msgstr'].replace('charset=X', 'charset=' + cs)
            sp = gen_spelling(rng)
            raw, expected, facts, st = render(cat, cs, rng, sp)
            for k, v in st.items():
                item_stats[k] = item_stats.get(k, 0) + v
            files.append((raw, expected, facts, {'charset': cs, 'spelling': sp}))
    # the charsets served by the tool's own codecs, with catalogs written in their own letters
    own = [cs for cs in charsets(python=False) if cs not in css]
    # multi-byte charsets in which 0x5C (backslash) is a trail byte: the escaped byte pair is then "\\x83" followed by "\\\\"
    TRAIL5C = {'SHIFT_JIS': 'ソ表能予十', 'CP932': 'ソ表能予十', 'BIG5': '功許蓋', 'BIG5-HKSCS': '功許蓋', 'CP950': '功許蓋', 'GBK': '乗俓', 'GB18030': '乗俓'}
    for cs in css:
        letters = TRAIL5C.get(cs.upper())
        if letters is None:
            continue
        for i in range(10 if quick else 150):
            cat0 = gen_catalog(rng, 'X', False, extra_alpha=letters)
            if not stateless_ok(text_of_catalog(cat0), cs):
                skipped += 1
                continue
            cat = dict(cat0, charset_name=cs)
            cat['entries'] = [dict(e) for e in cat0['entries']]
            cat['entries'][0]['msgstr'] = cat0['entries'][0]['msgstr'].replace('charset=X', 'charset=' + cs)
            sp = gen_spelling(rng)
            raw, expected, facts, st = render(cat, cs, rng, sp)
            files.append((raw, expected, facts, {'charset': cs, 'spelling': sp}))
    ctx.stats['charsets_own_codecs'] = own
    for cs in own:
        letters = OWN_LETTERS.get(cs.upper(), '')
        for i in range(12 if quick else 200):
            cat0 = gen_catalog(rng, 'X', False, extra_alpha=letters)
            if not stateless_ok(text_of_catalog(cat0), cs):
                skipped += 1
                continue
            cat = dict(cat0, charset_name=cs)
            cat['entries'] = [dict(e) for e in cat0['entries']]
            cat['entries'][0]['msgstr'] = cat0['entries'][0]['msgstr'].replace('charset=X', 'charset=' + cs)
            sp = gen_spelling(rng)
            raw, expected, facts, st = render(cat, cs, rng, sp)
            files.append((raw, expected, facts, {'charset': cs, 'spelling': sp}))
    ctx.stats['charset_cannot_encode_catalog'] = skipped
    ctx.stats['escape_items'] = item_stats
    lres = pshards('shard_load', [f[0] for f in files], 60)
    ctx.evaluations += len(lres)
    for (raw, expected, facts, meta), (impl, model) in zip(files, lres):
        ctx.count('family:' + impl.split(' ')[0] + (':' + impl.split(' ')[1] if impl.startswith('err') else ''))
        ctx.count('family-charset:' + meta['charset'])
        if impl != model:
            ctx.disagree('load(family)', {'file': repr(raw), 'charset': meta['charset']}, model[:600], impl[:600])
        if impl != expected:
            ctx.fail('load-render', {'file': repr(raw), 'charset': meta['charset'], 'expected': expected[:1500], 'observed': impl[:1500]},
                     'load(render(c)) != c', finding=classify_failure(facts, raw, d29))
        else:
            ctx.nontriv(('f', raw))

    # ---- (c) damaged files: model == implementation (error line and kind included)
    dfiles = []
    nd = 1500 if quick else 40000
    for _ in range(nd):
        raw = rng.choice(files)[0] if files else b''
        for _ in range(rng.choice([1, 1, 2, 3])):
            raw = damage(raw, rng)
        dfiles.append(raw)
    dfiles += [b'', b'\n', b'#', b'# ', b'#\n', b'\xef\xbb\xbfmsgid "a"\nmsgstr "b"\n', b'msgid "a"\nmsgstr "\xff"\n',
               b'msgid ""\nmsgstr "Content-Type: text/plain; charset=UTF-16\\n"\n\nmsgid "a"\nmsgstr "\\377\\376a\\000"\n',
               b'msgid ""\nmsgstr "Content-Type: text/plain;"\n" charset=UTF-8\\n"\n\nmsgid "a"\nmsgstr "\xc3\xa9"\n',
               b'msgid ""\nmsgstr "Content-Type: text/plain; charset=nonesuch\\n"\n"Content-Type: text/plain; charset=ISO-8859-2\\n"\nmsgid "a"\nmsgstr "\xb1"\n',
               b'msgid "a"\nmsgstr "b"\n#~| msgid "x"\n', b'msgid "a\x0bb\x0cc\x1cd\x1de\x1ef"\nmsgstr "\xc2\x85"\n']
    dres = pshards('shard_load', dfiles, 100)
    ctx.evaluations += len(dres)
    for raw, (impl, model) in zip(dfiles, dres):
        key = impl.split(' ')[0] + (':' + ' '.join(impl.split(' ')[1:2] + impl.split(' ')[3:4]) if impl.startswith('err') else '')
        ctx.count('damaged:' + key)
        if impl != model:
            ctx.disagree('load(damaged)', {'file': repr(raw)}, model[:600], impl[:600])
        else:
            ctx.nontriv(('d', impl[:200]))
        if impl.startswith('crash'):
            ctx.count('damaged:crash')     # C01's subject; counted here

    # ---- (d) line splitting: only LF separates lines (the ORACLE here is the statement itself)
    nsep = 0
    for sep in SPLITTERS + ['\r']:
        for cs in ['UTF-8'] + (['ISO-8859-1'] if ord(sep) < 256 else []):
            s = 'a' + sep + 'b'
            raw = ('# c\n#. x' + sep + 'y\nmsgid "' + s + '"\nmsgstr "' + sep + '"\n').encode(cs)
            hdr = ('msgid ""\nmsgstr "Content-Type: text/plain; charset=%s\\n"\n\n' % cs).encode('ascii')
            got = impl_load(hdr + raw)
            want = canon_file(cs, 0, 0, '', [
                {'msgctxt': None, 'msgid': '', 'msgid_plural': None, 'msgstr': 'Content-Type: text/plain; charset=%s\n' % cs, 'plural': [], 'obsolete': False,
                 'comment': '', 'tcomment': '', 'occ': [], 'flags': [], 'pc': None, 'pm': None, 'pp': None},
                {'msgctxt': None, 'msgid': s, 'msgid_plural': None, 'msgstr': sep, 'plural': [], 'obsolete': False,
                 'comment': 'x' + sep + 'y', 'tcomment': 'c', 'occ': [], 'flags': [], 'pc': None, 'pm': None, 'pp': None}])
            nsep += 1
            if got != want:
                ctx.fail('line-splitting', {'file': repr(hdr + raw)}, 'a character other than LF acts as a line separator or is lost: %s' % got[:300])
    ctx.evaluations += nsep
    shutil.rmtree(os.path.join(common.WORK, 'c10'), ignore_errors=True)
    ctx.samples = [{'file': repr(f[0][:300]), 'charset': f[3]['charset']} for f in files[:4]] + [{'unescape': repr(c[0])} for c in ucases[2000:2003]]
    return common.finish(
        ctx, 'proof', build, aud, TRUSTED, ASSUME,
        checker_cmd='tools/build.sh (coq_makefile + make: coqc on Props/C10.v) then coqc Audit_C10.v',
        rule='(a) polib_unescape vs model on all strings of length <= %d over a %d-character escape alphabet + random escape-heavy strings under 7 codecs; '
             '(a2) hexadecimal escapes of 1..300 digits, mixed runs, escaped backslashes: polib_unescape == the bytes msgfmt stores (C rule when msgfmt is absent); '
             '(b) generated catalogs rendered with random spelling parameters in every ASCII-compatible charset of data/encodings able to encode them: '
             'oracle load(render(c)) == c on polib.pofile after install_patches, and model == implementation; (c) damaged files: model == implementation '
             'including the error line and kind; (d) line-separator characters; (e) sequences of 2-4 files with different charsets and the same escaped '
             'bytes (incl. byte pairs of legacy 8-bit charsets that are valid UTF-8) loaded by one fresh process. non-trivial = distinct string containing a backslash, distinct rendered '
             'file loading back to its catalog, distinct damaged-file outcome' % (maxlen, len(alpha)),
        explanation='C10_load_render / C10_open_load_render / C10_load_po_render are proved for every catalog and every spelling of the printer family '
                    '(guards: nplurals <= 10 (D9); previous-msgid of obsolete entries is None (D22)); codecs are oracles; the tie to /repo is the correspondence.')
